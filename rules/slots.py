"""Slot / window arithmetic (types::slot), decided by value.

Every rule about leader windows (which slots a timeout covers, where a parent may become ready, which window a vote belongs to) is
written in terms of these helpers; the rules of C05 / C07 / C18 recognise them by name. This obligation evaluates what they compute -
every path, for the slots around several window borders and at both ends of the u64 range - against the definitions."""
from engine import paths
from engine import mir
from . import common as K
from . import detectors as D
from . import termeval as TE

SL = K.A + "types::slot::Slot::"
U64MAX = 2 ** 64 - 1


def eval_fn(prog, fn, args, depth=0):
    """value of crate function `fn` for integer arguments (newtype parameters are given by their inner value): every row whose guards hold"""
    b = prog.body(fn)
    if b is None or depth > 4:
        raise TE.Unknown("no body for " + fn)

    def env(t):
        if isinstance(t, tuple) and t:
            if t[0] == "param" and 1 <= t[1] <= len(args):
                return args[t[1] - 1]
            if t[0] == "call" and t[1].startswith(SL) and t[1] in prog.bodies and t[1] != fn:
                vals = [TE.ev(a, env) for a in t[2]]
                return eval_fn(prog, t[1], vals, depth + 1)
        return None
    got = []
    for atoms, ret, _bl in paths.decision_table(b, prog):
        if ret is None:
            continue
        if all(TE.ev_atom(a[0], a[1], env) == a[2] for a in atoms if not (D.is_structural_atom(a) and a[0] != "bool")):
            got.append(TE.ev(ret, env))
    if len(set(map(repr, got))) != 1:
        raise TE.Unknown("%s: %d rows apply" % (fn, len(got)))
    return got[0]


def ob_slot_arithmetic(run, oid):
    prog = run.program("lib")
    o = run.ob(oid, "Slot window arithmetic computes what its names say: first / last slot of the window, window start, next / prev, genesis window, the slots of a window and the slots after a slot",
               "the voting rules, timeouts, leader schedule and parent-ready rule are all phrased through these helpers: a window that starts one slot late or a range that misses its last "
               "slot shifts every one of them", floor=8)
    W = prog.const_int(K.A + "types::slot::SLOTS_PER_WINDOW")
    if not W:
        o.missing("types::slot::SLOTS_PER_WINDOW")
        return
    grid = sorted(set(list(range(0, 4 * W + 2)) + [10 * W - 1, 10 * W, 10 * W + 1, 1000 * W + W - 1, U64MAX - 2 * W, U64MAX - W, U64MAX - 1]))
    grid = [s for s in grid if 0 <= s <= U64MAX]
    spec = {
        "first_slot_in_window": lambda s: s - s % W,
        "last_slot_in_window": lambda s: s - s % W + (W - 1),
        "is_start_of_window": lambda s: s % W == 0,
        "next": lambda s: s + 1,
        "prev": lambda s: s - 1,
        "is_genesis_window": lambda s: s < W,
        "is_genesis": lambda s: s == 0,
    }
    for fn, f in spec.items():
        if prog.body(SL + fn) is None:
            o.missing("Slot::" + fn)
            continue
        bad = []
        und = None
        n = 0
        for s in grid:
            if (fn == "prev" and s == 0) or (fn == "next" and s == U64MAX):
                continue
            try:
                v = eval_fn(prog, SL + fn, [s])
            except TE.Unknown as e:
                und = str(e)[:100]
                break
            except TE.Overflow as e:
                bad.append("%s(%d) panics (%s)" % (fn, s, e))
                continue
            n += 1
            want = f(s)
            if (bool(v) if isinstance(want, bool) else v) != want:
                bad.append("%s(%d) = %s, expected %s" % (fn, s, v, want))
        if und:
            o.fail("Slot::%s|by-value|undecided" % fn, "could not be evaluated (%s): failing closed" % und, prog.body(SL + fn).span)
        else:
            o.check(not bad and n >= len(grid) - 1, "Slot::%s|by-value" % fn, "Slot::%s agrees with its definition on %d slots (window borders, both ends of u64)" % (fn, n), prog.body(SL + fn).span, {"mismatches": bad[:3]})
    # ranges
    for fn, lo_f, hi_f in (("slots_in_window", lambda s: s - s % W, lambda s: s - s % W + (W - 1)), ("future_slots", lambda s: s + 1, None)):
        b = prog.body(SL + fn)
        if b is None:
            o.missing("Slot::" + fn)
            continue
        rows = [r for r in paths.decision_table(b, prog) if r[1] is not None]
        ok = len(rows) == 1
        bad = []
        if ok:
            t = rows[0][1]
            rng = [x for x in mir.walk(t) if isinstance(x, tuple) and x and ((x[0] == "call" and x[1].endswith("RangeInclusive::new")) or (x[0] == "agg" and "ops::range::Range" in str(x[1])))]
            maps = [x for x in mir.walk(t) if isinstance(x, tuple) and x and x[0] == "call" and x[1].rsplit("::", 1)[-1] in ("filter", "skip", "take", "step_by", "rev", "take_while", "skip_while")]
            ok = len(rng) == 1 and not maps
            if ok:
                r = rng[0]
                if r[0] == "call":
                    lo_t, hi_t, incl = r[2][0], r[2][1], True
                else:
                    fs = dict(r[3])
                    lo_t, hi_t, incl = fs.get("start"), fs.get("end"), str(r[1]).endswith("RangeInclusive")
                for s in grid:
                    if s > U64MAX - 2 * W:
                        continue

                    def env(x, s=s):
                        if isinstance(x, tuple) and x:
                            if x[0] == "param" and x[1] == 1:
                                return s
                            if x[0] == "call" and x[1].startswith(SL) and x[1] in prog.bodies:
                                return eval_fn(prog, x[1], [TE.ev(a, env) for a in x[2]])
                        return None
                    try:
                        lo = TE.ev(lo_t, env)
                        hi = TE.ev(hi_t, env) if hi_t is not None else None
                    except (TE.Unknown, TE.Overflow) as e:
                        bad.append("undecided: %s" % str(e)[:80])
                        break
                    if lo != lo_f(s):
                        bad.append("%s(%d) starts at %s, expected %s" % (fn, s, lo, lo_f(s)))
                    if hi_f is not None:
                        last = hi if incl else (hi - 1 if hi is not None else None)
                        if last != hi_f(s):
                            bad.append("%s(%d) ends at %s, expected %s" % (fn, s, last, hi_f(s)))
                    elif hi is not None:
                        bad.append("%s is bounded" % fn)
        o.check(ok and not bad, "Slot::%s|range" % fn, "Slot::%s yields exactly %s, in order, unfiltered" % (fn, "first..=last slot of the window" if hi_f else "self+1.."), b.span, {"problems": bad[:3]})


FR = K.A + "types::fraction::Fraction::"
ST = K.A + "types::stake::Stake"


def ob_value_types(run, oid):
    """Fraction::is_met and the Stake operators, by value"""
    prog = run.program("lib")
    o = run.ob(oid, "the stake arithmetic everything rests on is exact: Fraction::is_met(v, t) <=> v/t >= n/d for all magnitudes (no rounding, no overflow), Stake -, * and div_ceil compute "
                    "what they say (and subtraction below zero panics rather than wrapping)",
               "every threshold test is a call of is_met and every stake total a sum / difference of Stake values: a saturating, wrapping or rounding variant moves all thresholds for large "
               "or boundary stakes only", floor=4)
    b = prog.body(FR + "is_met")
    if b is None:
        o.missing("Fraction::is_met")
    else:
        rows = [r for r in paths.decision_table(b, prog) if r[1] is not None]
        fracs = [(1, 5), (2, 5), (3, 5), (4, 5), (1, 3), (2, 3), (1, 1), (0, 1), (7, 9)]
        totals = [1, 4, 5, 10, 11, 100, 10 ** 17, 3 * 10 ** 18, 2 ** 63, U64MAX - 1, U64MAX]
        bad = []
        und = None
        n = 0
        for (fn_, fd) in fracs:
            for tot in totals:
                edge = -(-tot * fn_ // fd)
                for v in sorted(set(x for x in (0, 1, edge - 1, edge, edge + 1, tot // 2, tot - 1, tot) if 0 <= x <= U64MAX)):
                    def env(t, v=v, tot=tot, fn_=fn_, fd=fd):
                        if isinstance(t, tuple) and t:
                            if t[0] == "param" and t[1] == 2:
                                return v
                            if t[0] == "param" and t[1] == 3:
                                return tot
                            if t[0] == "field" and isinstance(t[1], tuple) and t[1][:2] == ("param", 1):
                                return fn_ if t[2] == "numerator" else (fd if t[2] == "denominator" else None)
                        return None
                    try:
                        got = [TE.ev(ret, env) for atoms, ret, _bl in rows
                               if all(TE.ev_atom(a[0], a[1], env) == a[2] for a in atoms if not (D.is_structural_atom(a) and a[0] != "bool"))]
                    except TE.Unknown as e:
                        und = str(e)[:100]
                        break
                    except TE.Overflow as e:
                        bad.append("is_met(%d/%d; %d, %d) panics (%s)" % (fn_, fd, v, tot, e))
                        continue
                    n += 1
                    want = v * fd >= tot * fn_
                    if not got or any(bool(g) != want for g in got):
                        bad.append("is_met(%d/%d; %d, %d) = %s, exact answer %s" % (fn_, fd, v, tot, got[:1], want))
                if und:
                    break
            if und:
                break
        if und:
            o.fail("Fraction::is_met|by-value|undecided", "could not be evaluated (%s): failing closed" % und, b.span)
        else:
            o.check(not bad and n > 300, "Fraction::is_met|by-value", "is_met agrees with the exact rational comparison on %d (fraction, value, total) triples incl. totals up to u64::MAX" % n, b.span, {"mismatches": bad[:3]})
    ops = {"<%s as core::ops::arith::Sub>::sub" % ST: ("sub", lambda a, c: a - c if a >= c else None),
           "<%s as core::ops::arith::Mul<u64>>::mul" % ST: ("mul", lambda a, c: a * c if a * c <= U64MAX else None),
           ST + "::div_ceil": ("div_ceil", lambda a, c: -(-a // c) if c else None)}
    vals = [0, 1, 2, 5, 7, 10 ** 9, 2 ** 32, 2 ** 63, U64MAX - 1, U64MAX]
    for fn, (nm, f) in ops.items():
        if prog.body(fn) is None:
            o.missing("Stake " + nm)
            continue
        bad = []
        und = None
        n = 0
        for a in vals:
            for c in vals:
                want = f(a, c)
                try:
                    got = eval_fn(prog, fn, [a, c])
                except TE.Unknown as e:
                    und = str(e)[:100]
                    break
                except TE.Overflow:
                    got = None
                n += 1
                if got != want:
                    bad.append("Stake(%d) %s %d = %s, expected %s" % (a, nm, c, got, "a panic" if want is None else want))
            if und:
                break
        if und:
            o.fail("Stake::%s|by-value|undecided" % nm, "could not be evaluated (%s): failing closed" % und, prog.body(fn).span)
        else:
            o.check(not bad, "Stake::%s|by-value" % nm, "Stake %s computes the exact result on %d operand pairs and panics exactly where the exact result does not fit" % (nm, n), prog.body(fn).span, {"mismatches": bad[:3]})
