"""Generic detectors shared by the property rules and exercised on the fixtures crate on every run."""
import json
import os
import re

from engine import guards as G
from engine import mir
from . import common as K


# ------------------------------------------------------------------------------------ store before readers
def store_before_readers(prog, b, owner):
    """For every field f of ADT `owner` stored (assigned / mutably borrowed) in body b: every call in b whose callee
    (transitively) reads owner.f must not be able to run before the store.
    returns {field: [(store_bb, store_span, [bad call sites], n_readers)]}"""
    tr = prog.trans_field_reads(owner)
    stores = {}
    for (bb, ow, name, sp, _l, _pl) in b.mut_borrows_of_fields():
        if ow == owner:
            stores.setdefault(name, []).append((bb, sp))
    for (bb, ow, name, rv, sp, dst) in b.field_writes():
        if ow == owner:
            stores.setdefault(name, []).append((bb, sp))
    out = {}
    for f, sts in stores.items():
        for (sbb, ssp) in sts:
            bad = []
            nread = 0
            for c in b.calls():
                reads = set()
                for t in prog.callees_of_site(c):
                    reads |= tr.get(t, set())
                if f not in reads:
                    continue
                nread += 1
                if c.bb != sbb and b.can_reach(c.bb, sbb):
                    bad.append(c)
            out.setdefault(f, []).append((sbb, ssp, bad, nread))
    return out


# ------------------------------------------------------------------------------------ no downgrade of decided map entries
def map_inserts(b, field, owner_suffix, enum_path):
    out = []
    for c in b.calls():
        if c.name.endswith("BTreeMap::insert") or c.name.endswith("BTreeMap::<K, V, A>::insert") or c.name.endswith("HashMap::insert"):
            t0 = b.operand_term(c.args[0])
            if K.is_field(t0, field, owner_suffix):
                v = K.peel(b.operand_term(c.args[2]))
                var = v[2] if isinstance(v, tuple) and v[0] == "agg" and v[1] == enum_path else None
                out.append((c, var, v))
    return out


def no_downgrade(prog, b, field, owner_suffix, enum_path, decided):
    """for every insert of an undecided variant into owner.field: decided displaced values are restored (or the
    insert is pre-guarded). returns list of (key_suffix, ok, what, span, detail)"""
    res = []
    ins = map_inserts(b, field, owner_suffix, enum_path)
    for (c, var, vterm), key in K.ordinal_keys(ins, lambda x: "%s.insert(%s)" % (field, x[1] or "value")):
        if var is None:
            pv = b.provenance(vterm)
            ok = any(x.endswith("::insert") for x in pv["calls"])
            res.append((key + "|restores-old", ok, "inserted value is a previously displaced value (restore)", c.span, {"value": mir.show(vterm)}))
            continue
        if var in decided:
            res.append((key, True, "inserts decided value %s" % var, c.span, None))
            continue
        pre = [a for a in G.guard_atoms(b, c.bb, prog) if a[0] == "variant" and not (a[1][1] & decided) and any(x[1].endswith("::get") for x in mir.calls_in(a[1][0]))]
        if pre:
            res.append((key + "|pre-guarded", True, "insert of undecided %s only when the current value is undecided/absent" % var, c.span, None))
            continue
        sw = None
        for (s, dterm, dty) in b.switches():
            if isinstance(dterm, tuple) and dterm[0] == "discr":
                x = dterm[1]
                saw_some = False
                while isinstance(x, tuple) and x[0] in ("variant", "field"):
                    if x[0] == "variant" and x[2] == "Some":
                        saw_some = True
                    x = x[1]
                if saw_some and isinstance(x, tuple) and x[0] == "call" and x[3] == c.bb:
                    sw = s
        if sw is None:
            res.append((key + "|old-ignored", False, "undecided value %s is inserted and the displaced value is never examined" % var, c.span, None))
            continue
        sa = G.switch_atoms(b, sw, prog)
        es = b.edges()
        others = [x[0].bb for x in ins if x[0].bb != c.bb]
        for v, atoms in sa.items():
            for a in atoms:
                if a[0] != "variant":
                    continue
                for name in sorted(a[1][1] & decided):
                    tgt = [e[1] for e in es if e[0] == sw and e[2] == ("sw", v)][0]
                    ok = b.always_followed_by(tgt, others)
                    wit = None if ok else b.path_avoiding(tgt, others)
                    res.append((key + "|over-%s" % name, ok, "when %s displaces decided %s the decided value is restored before returning" % (var, name), c.span,
                                {"arm_block": tgt, "path_to_return_without_restore": wit}))
    return res


# ------------------------------------------------------------------------------------ lock order
LOCK_TYPES = (("RwLockWriteGuard<", "write"), ("RwLockReadGuard<", "read"), ("MutexGuard<", "lock"))
LOCK_CALLS = ("RwLock::read", "RwLock::write", "Mutex::lock", "RwLock<T>::read", "RwLock<T>::write", "Mutex<T>::lock", "RwLock::try_read", "RwLock::try_write")


def lock_name(ty):
    m = re.search(r"Guard<'?[^,>]*,?\s*(?:dyn )?([A-Za-z0-9_:]+)", ty)
    s = m.group(1) if m else ty
    return s.rsplit("::", 1)[-1]


def lock_id(b, local, ty):
    terms = [b.local_term(local)]
    for d in b.defs().get(local, []):
        if d[0] == "stmt":
            terms.append(b.rvalue_term(d[3]["rv"]))
        elif d[0] == "call":
            terms.append(b.call_term(d[1], d[3]))
    for t in terms:
        for x in mir.walk(t):
            if isinstance(x, tuple) and x and x[0] == "call" and any(x[1].endswith(s) for s in LOCK_CALLS):
                recv = x[2][0]
                for y in mir.walk(recv):
                    if isinstance(y, tuple) and y and y[0] == "field":
                        return y[2]
                    if isinstance(y, tuple) and y and y[0] == "upvar":
                        return y[1]
    return lock_name(ty)


def lock_graph(prog, body_filter=None):
    """-> (edges {(held, acquired): [(fn, span)]}, cycles [[names...]], n_ranges, n_bodies)"""
    acquires = {}
    direct = {}
    for d, b in prog.bodies.items():
        if b.generated or (body_filter is not None and not body_filter(d)):
            continue
        ls = []
        for i, l in enumerate(b.locals):
            for pat, mode in LOCK_TYPES:
                ty = l["ty"]
                if pat in ty and not ty.startswith("&") and "Future" not in ty and "Poll<" not in ty and "impl " not in ty and not ty.startswith("core::result::Result") and not ty.startswith("std::sync::LockResult") and "Result<" not in ty.split(pat)[0]:
                    defs = [x[1] for x in b.defs().get(i, [])]
                    rel = []
                    for bl in b.blocks:
                        t = bl["term"]
                        if (t["k"] == "drop" and t["pl"]["l"] == i and not t["pl"]["p"]) or any(st["k"] == "dead" and st["l"] == i for st in bl["stmts"]):
                            rel.append(bl["id"])
                        if t["k"] == "call" and any(a.get("m", {}).get("l") == i and not a["m"]["p"] for a in t["args"]) and bl["id"] not in defs:
                            rel.append(bl["id"])
                        for st in bl["stmts"]:
                            if st["k"] == "assign" and st["rv"]["k"] == "use" and st["rv"]["a"].get("m", {}).get("l") == i and not st["rv"]["a"]["m"]["p"]:
                                rel.append(bl["id"])
                    if defs:
                        ls.append((i, lock_id(b, i, ty), mode, defs, rel))
        if ls:
            acquires[d] = ls
            direct[d] = set((n, m) for (_i, n, m, _d, _r) in ls)
    cg = prog.callgraph()
    trans = {d: set(v) for d, v in direct.items()}
    changed = True
    allb = [d for d in prog.bodies if body_filter is None or body_filter(d)]
    while changed:
        changed = False
        for d in allb:
            for c in cg.get(d, ()):
                if body_filter is not None and not body_filter(c):
                    continue
                add = trans.get(c, set()) - trans.get(d, set())
                if add:
                    trans.setdefault(d, set()).update(add)
                    changed = True
    edges = {}
    nranges = 0
    for d, ls in acquires.items():
        b = prog.bodies[d]
        for (i, name, mode, defs, rel) in ls:
            nranges += 1
            live = set()
            for db in defs:
                live |= b.reachable(db, removed_blocks=[r for r in rel if r != db])
            for (j, name2, mode2, defs2, rel2) in ls:
                if j != i and any(x in live for x in defs2) and name2 != name:
                    edges.setdefault((name, name2), []).append((K.fshort(d), b.blocks[defs2[0]]["term"].get("sp", "")))
            for c in b.calls():
                if c.bb in live and c.bb not in defs:
                    for t in prog.callees_of_site(c):
                        if body_filter is not None and not body_filter(t):
                            continue
                        for (n2, m2) in trans.get(t, ()):
                            if n2 != name:
                                edges.setdefault((name, n2), []).append((K.fshort(d), c.span))
                            elif mode == "write" or m2 == "write":
                                edges.setdefault((name, name), []).append((K.fshort(d), c.span))
    names = set(x for e in edges for x in e)
    adj = {n: set() for n in names}
    for (a, c) in edges:
        adj[a].add(c)
    cyc = []
    for (a, c) in edges:
        if a == c:
            cyc.append([a, a])

    def dfs(start, node, path):
        for n in adj.get(node, ()):
            if n == start and len(path) > 1:
                if sorted(path) not in [sorted(x[:-1]) for x in cyc]:
                    cyc.append(path + [start])
            elif n not in path and len(path) < 6:
                dfs(start, n, path + [n])
    for n in sorted(names):
        dfs(n, n, [n])
    return edges, cyc, nranges, len(acquires)


# ------------------------------------------------------------------------------------ byte-range coverage
def written_regions(b, owner):
    """(start, end, source names) for writes into a fixed buffer: buf[a..b].copy_from_slice(src) and buf[i] = src"""
    regions = []
    for c in b.calls():
        if c.name.endswith("copy_from_slice"):
            dst = b.operand_term(c.args[0])
            src = b.operand_term(c.args[1])
            rg = [t for t in mir.walk(dst) if isinstance(t, tuple) and t and t[0] == "agg" and t[1].endswith("Range")]
            if rg:
                f = dict(rg[0][3])
                s, e = f["start"], f["end"]
                if s[0] == "const" and e[0] == "const":
                    pv = b.provenance(src)
                    srcname = sorted(n for (ow, n) in pv["fields"] if ow == owner) or sorted(pv["params"])
                    regions.append((s[2], e[2], srcname))
    for (bb, i, dst, rv, sp) in b.assignments():
        if dst["p"] and dst["p"][-1][0] in ("i", "ci"):
            t = b.rvalue_term(rv)
            pv = b.provenance(t)
            srcname = sorted(n for (ow, n) in pv["fields"] if ow == owner) or sorted(pv["params"])
            p = dst["p"][-1]
            if p[0] == "ci":
                regions.append((p[1], p[1] + 1, srcname))
            else:
                it = b.local_term(p[1])
                if it[0] == "const":
                    regions.append((it[2], it[2] + 1, srcname))
    regions.sort()
    return regions


def contiguous(regions, total):
    covered = 0
    for (s, e, _n) in regions:
        if s != covered:
            return False
        covered = e
    return covered == total


# ------------------------------------------------------------------------------------ interval normal form
def const_side(t):
    t = K.peel(t)
    if isinstance(t, tuple) and t[0] == "const" and isinstance(t[2], int):
        return t[2]
    return None


def holds_set(atom, xs):
    """for a normalised comparison atom with a constant on one side: the set of x in xs for which it holds"""
    pred, args, pol = atom[0], atom[1], atom[2]
    if pred not in ("lt", "eq"):
        return None
    ca, cb = const_side(args[0]), const_side(args[1])
    if (ca is None) == (cb is None):
        return None
    out = set()
    for x in xs:
        a = ca if ca is not None else x
        b = cb if cb is not None else x
        v = (a < b) if pred == "lt" else (a == b)
        if v == pol:
            out.add(x)
    return out


# ------------------------------------------------------------------------------------ exact guard sets ("as soon as": no extra conditions)
def is_structural_atom(a):
    """atoms that are control-flow plumbing, not conditions: loop iteration (Iterator::next is Some/None), await (Poll::Ready),
    `?`-style ControlFlow of infallible wrappers"""
    pred, args = a[0], a[1]
    t = args[0] if args else None
    if pred == "is_some" and isinstance(t, tuple) and t[0] == "call" and t[1].rsplit("::", 1)[-1] == "next":
        return True
    if pred == "variant" and args[1] <= frozenset(["Ready", "Pending"]):
        return True
    if pred in ("bool", "switch") and isinstance(t, tuple) and t[0] == "const":
        return True
    if pred in ("is_some", "is_ok", "variant") and isinstance(t, tuple) and t[0] == "agg":
        return True      # test of a value constructed right there (`if let Some(..) = None` left by tracing macros): its outcome is fixed
    return False


def _is_assertion_switch(b, s_):
    """switch block one of whose edges leads straight (gotos / argument-building calls) into a diverging core::panicking call"""
    t = b.blocks[s_]["term"] if 0 <= s_ < len(b.blocks) else None
    if not t or t["k"] != "switch":
        return False
    tg = [x[1] for x in t["arms"]] + [t["else"]]

    def panics(bb0, depth=0):
        if depth > 8:
            return False
        tt = b.blocks[bb0]["term"]
        if tt["k"] == "goto":
            return panics(tt["t"], depth + 1)
        if tt["k"] == "call":
            nm = str(tt.get("resolved") or tt.get("callee") or "")
            if "panicking::" in nm and tt.get("t") is None:
                return True
            if tt.get("t") is not None and (tt.get("exp") or "fmt::" in nm or "Arguments" in nm or "AssertKind" in nm or "Option::" in nm):
                return panics(tt["t"], depth + 1)
        return False
    return any(panics(x) for x in tg)


def extra_guards(prog, b, bb, recognised, assume=()):
    """guard atoms dominating block bb that are neither structural nor accepted by one of the `recognised` predicates"""
    out = []
    atoms = G.guard_atoms(b, bb, prog, assume)
    lowered = set((a[1][0], a[2]) for a in atoms if a[0] == "lowered")
    for a in atoms:
        if a[0] == "lowered" or (a[0] == "bool" and (a[1][0], a[2]) in lowered):
            continue
        if is_structural_atom(a):
            continue
        if len(a) > 3 and a[3] is not None and _is_assertion_switch(b, a[3]):
            continue        # the success edge of an assert!/assert_eq!: a (reviewed) panic site, not a filter
        if any(r(a) for r in recognised):
            continue
        out.append(a)
    return out


# ------------------------------------------------------------------------------------ state mutation map
def field_mutations(prog, owner):
    """{field: {op: [(fn, span)]}} for every way a field of ADT `owner` is mutated anywhere in the analysed crates:
    'assign' (direct write), a method name (callee receiving `&mut owner.field` as receiver), '<callee>#argN' (passed as
    another argument), 'borrow' (a &mut borrow not consumed by a call in the same body)"""
    out = {}
    for d, b in prog.bodies.items():
        if b.generated:
            continue
        fn = K.fshort(d)
        for (bb, ow, name, rv, sp, dst) in b.field_writes():
            if ow == owner:
                out.setdefault(name, {}).setdefault("assign", []).append((fn, sp))
        mb = {}
        for (bb, ow, name, sp, l, pl) in b.mut_borrows_of_fields():
            if ow == owner:
                mb[l] = [name, sp, False]
        # a borrow may be moved / re-borrowed into another local before it is used (`let c = if f { &mut a.x } else { &mut a.y }; *c += s`)
        alias = {l: [l] for l in mb}
        changed = True
        rounds = 0
        while changed and rounds < 4:
            changed = False
            rounds += 1
            for (bb, i, dst, rv, sp) in b.assignments():
                if dst["p"]:
                    continue
                src = None
                if rv["k"] == "use":
                    pl = rv["a"].get("m") or rv["a"].get("c")
                    if pl and not pl["p"]:
                        src = pl["l"]
                elif rv["k"] == "ref" and rv["pl"]["p"] == [["d"]]:
                    src = rv["pl"]["l"]
                if src is not None and src in alias and dst["l"] != src:
                    for root in alias[src]:
                        if root not in alias.setdefault(dst["l"], []):
                            alias[dst["l"]].append(root)
                            changed = True
        for c in b.calls():
            for i, a in enumerate(c.args):
                plx = a.get("m") or a.get("c")
                if plx and not plx["p"] and plx["l"] in alias:
                    for root in alias[plx["l"]]:
                        ent = mb[root]
                        op = c.name.rsplit("::", 1)[-1] + ("" if i == 0 else "#arg%d" % i)
                        if not any(x == (fn, c.span) for x in out.get(ent[0], {}).get(op, [])):
                            out.setdefault(ent[0], {}).setdefault(op, []).append((fn, c.span))
                        ent[2] = True
        # a borrow captured by a closure (`xs.for_each(|x| { self.f.remove(x); })`): the operations are in the closure body
        for (bb, i, dst, rv, sp) in b.assignments():
            if rv["k"] == "agg" and rv.get("ak") == "closure":
                cb = prog.bodies.get(mir.strip_generics(rv["def"]))
                for nm, op_ in zip(rv.get("fields", []), rv.get("ops", [])):
                    plx = op_.get("m") or op_.get("c")
                    if not (plx and not plx["p"] and plx["l"] in alias) or cb is None:
                        continue
                    for root in alias[plx["l"]]:
                        ent = mb[root]
                        used = False

                        def shared_only(a, cb=cb):
                            """the argument is a shared re-borrow (`&*x` / `&x.f`): reading through the captured reference, not mutating"""
                            pl = a.get("m") or a.get("c")
                            if pl is None or pl["p"]:
                                return False
                            ds = [d_ for d_ in cb.defs().get(pl["l"], []) if d_[0] == "stmt"]
                            return bool(ds) and all(d_[3]["rv"]["k"] == "ref" and not d_[3]["rv"].get("mut") for d_ in ds)
                        for c in cb.calls():
                            for ai, a in enumerate(c.args):
                                t = cb.operand_term(a)
                                if K.mentions(t, lambda x: x[0] == "upvar" and x[1] == nm) and not K.mentions(t, lambda x: x[0] == "call"):
                                    if shared_only(a):
                                        used = True
                                        continue
                                    opn = c.name.rsplit("::", 1)[-1] + ("" if ai == 0 else "#arg%d" % ai)
                                    out.setdefault(ent[0], {}).setdefault(opn, []).append((fn, c.span))
                                    used = True
                        # `*captured = v` inside the closure
                        for (bb3, i3, dst3, rv3, sp3) in cb.assignments():
                            if dst3["l"] == 1 and any(p_[0] == "f" and p_[1] == nm for p_ in dst3["p"][:3]):
                                out.setdefault(ent[0], {}).setdefault("assign", []).append((fn, sp3))
                                used = True
                        if used:
                            ent[2] = True
        # direct assignment through an aliased borrow: `*c = v`
        for (bb, i, dst, rv, sp) in b.assignments():
            if dst["p"] == [["d"]] and dst["l"] in alias:
                for root in alias[dst["l"]]:
                    ent = mb[root]
                    out.setdefault(ent[0], {}).setdefault("assign", []).append((fn, sp))
                    ent[2] = True
        for l, (name, sp, used) in mb.items():
            if not used:
                out.setdefault(name, {}).setdefault("borrow", []).append((fn, sp))
    return out


_NUM_UPDATE = re.compile(r"(core|std)::num::(.*::)?(saturating_add|wrapping_add|saturating_sub|wrapping_sub|saturating_mul|wrapping_mul|max|min)$|::(add_assign|add|max|min)$")


def logic_reads_of_field(body, owner, field):
    """reads of `owner.field` in `body` whose value can reach anything other than a write back into the same field
    (statement-level def-use: read -> pure arithmetic / overflow assertion -> store to the same field is a counter update)"""
    def is_field_place(pl):
        fs = [p for p in pl["p"] if p[0] == "f"]
        return bool(fs) and pl["p"][-1][0] == "f" and pl["p"][-1][1] == field and pl["p"][-1][2] == owner

    def reads_field(pl):
        return any(p[0] == "f" and p[1] == field and p[2] == owner for p in pl["p"])

    def op_places(o):
        if "c" in o:
            return [o["c"]]
        if "m" in o:
            return [o["m"]]
        return []

    def rv_places(rv):
        k = rv["k"]
        out = []
        if k in ("use", "un", "cast", "repeat"):
            out += op_places(rv["a"])
        elif k in ("ref", "rawptr", "discr", "len"):
            if "pl" in rv:
                out.append(rv["pl"])
        elif k == "bin":
            out += op_places(rv["a"]) + op_places(rv["b"])
        elif k == "agg":
            for o in rv["ops"]:
                out += op_places(o)
        return out

    # every "use site": (kind, places read, destination place or None, rvalue kind, span, extra)
    sites = []
    for bl in body.blocks:
        if bl["id"] not in body.reach():
            continue
        for st in bl["stmts"]:
            if st["k"] != "assign":
                continue
            pls = rv_places(st["rv"])
            # prefix projections of the destination are reads as well
            sites.append(("assign", pls, st["dst"], st["rv"], st.get("sp", ""), None))
        t = bl["term"]
        if t["k"] == "call":
            pls = []
            for a in t["args"]:
                pls += op_places(a)
            cs = mir.CallSite(body, bl["id"], t)
            sites.append(("call", pls, t["dst"], None, t.get("sp", ""), cs))
        elif t["k"] == "switch":
            sites.append(("switch", op_places(t["d"]), None, None, t.get("sp", ""), None))
        elif t["k"] == "assert":
            sites.append(("assert", op_places(t["cond"]), None, None, t.get("sp", ""), None))
    bad = []
    tainted = set()
    work = []

    def flow(site):
        """where does the value computed at `site` go?  returns False when it escapes into logic"""
        kind, pls, dst, rv, sp, cs = site
        if kind == "assert":
            return True
        if kind == "switch":
            return False
        if kind == "call":
            names = (cs.callee or "", cs.resolved or "")
            if any("core::fmt::rt::Argument" in n for n in names):
                return True          # formatted into a log line: not an input of any decision
            if not any(_NUM_UPDATE.search(n) for n in names):
                return False
        elif rv["k"] not in ("use", "bin", "cast", "un", "ref"):
            return False
        elif rv["k"] == "bin" and rv.get("op") in ("Eq", "Ne", "Lt", "Le", "Gt", "Ge", "Cmp"):
            return False
        if is_field_place(dst):
            return True
        if dst["p"]:
            return False
        if dst["l"] not in tainted:
            tainted.add(dst["l"])
            work.append(dst["l"])
        return True

    for site in sites:
        if any(reads_field(pl) and not (site[0] == "call" and False) for pl in site[1]):
            if not flow(site):
                bad.append(site[4])
    while work:
        l = work.pop()
        for site in sites:
            if any(pl["l"] == l for pl in site[1]):
                if not flow(site):
                    bad.append(site[4])
    return bad



def ob_state_mutations(run, oid, owners, why):
    """the reviewed mutation map (rules/state_mutations.json): which operations mutate each field of the protocol state
    ADTs, and at how many sites. A new kind of mutation (remove/clear/retain/assign ...) or an additional site is a
    violation; moving a site between functions is not."""
    import json
    import os
    prog = run.program("lib")
    _sm = json.load(open(os.path.join(os.path.dirname(os.path.abspath(__file__)), "state_mutations.json")))
    tab = _sm["mutations"]
    reviewed_fields = _sm.get("fields", {})
    try:
        known_fns = set(json.load(open(os.path.join(os.path.dirname(os.path.abspath(__file__)), "known_fns.json")))["fns"])
    except Exception:
        known_fns = None
    o = run.ob(oid, "protocol state is mutated only by the reviewed operations (kind of operation and number of sites per field)", why, floor=len(owners))
    for ow in owners:
        full = "alpenglow::" + ow
        if full not in prog.adts:
            o.missing("struct " + ow)
            continue
        got = field_mutations(prog, full)
        want = tab.get(ow, {})
        fields = [f["name"] for f in prog.adts[full]["variants"][0]["fields"]]
        for f in fields:
            g = got.get(f, {})
            w = want.get(f, {})
            if ow in reviewed_fields and f not in reviewed_fields[ow] and known_fns is not None:
                # a field that did not exist on the reviewed tree: harmless if nothing that existed then reads it (a statistics counter
                # only ever updated and exposed through new accessors); otherwise it takes part in reviewed logic and needs review
                readers = []
                for d2, b2 in prog.bodies.items():
                    if b2.generated:
                        continue
                    root2 = d2.split("::{closure")[0]
                    if root2 not in known_fns:
                        continue
                    for sp2 in logic_reads_of_field(b2, full, f):
                        readers.append((K.fshort(d2), sp2))
                if readers:
                    o.fail("%s.%s|new-field-read-by-reviewed-code" % (K.fshort(full), f), "new field %s.%s is read by code that existed on the reviewed tree (%s): it takes part in protocol logic and needs review" % (
                        ow.rsplit("::", 1)[-1], f, readers[0][0]), readers[0][1])
                else:
                    o.ok("%s.%s|new-write-only-field" % (K.fshort(full), f), "%s.%s is new and only updated / read by new accessors (statistics): cannot influence reviewed logic" % (ow.rsplit("::", 1)[-1], f),
                         prog.adts[full]["span"], nontrivial=False)
                continue
            bad = []
            for op, sites in sorted(g.items()):
                if len(sites) > w.get(op, 0):
                    for (fn, sp) in sites[w.get(op, 0):] if op in w else sites:
                        bad.append((op, fn, sp))
            if bad:
                for (op, fn, sp) in bad:
                    o.fail("%s.%s|%s|%s" % (K.fshort(full), f, op, fn), "unreviewed mutation of %s.%s: `%s` in %s (reviewed: %s)" % (ow.rsplit("::", 1)[-1], f, op, fn, w or "never mutated after construction"), sp)
            else:
                o.ok("%s.%s" % (K.fshort(full), f), "%s.%s mutated only by %s" % (ow.rsplit("::", 1)[-1], f, ", ".join("%s x%d" % (k, len(v)) for k, v in sorted(g.items())) or "(nothing)"), prog.adts[full]["span"], nontrivial=bool(g))


# ------------------------------------------------------------------------------------ watermark comparisons
def upvar_sources(prog, b):
    """for a closure body: {captured name: provenance of the captured value in the enclosing body}"""
    out = {}
    if not b.is_closure or "::{closure" not in b.defpath:
        return out
    parent = prog.bodies.get(b.defpath.rsplit("::{closure", 1)[0])
    if parent is None:
        return out
    for (bb, i, dst, rv, sp) in parent.assignments():
        t = parent.rvalue_term(rv)
        if isinstance(t, tuple) and t and t[0] == "closure" and t[1] == b.defpath:
            for nm, ot in t[2]:
                out[nm] = parent.provenance(ot, depth=8)
    return out


def subst_upvars(term, mapping):
    """replace ("upvar", name) nodes by mapping[name] (terms of the enclosing body)"""
    if isinstance(term, tuple):
        if len(term) == 2 and term[0] == "upvar" and term[1] in mapping:
            return mapping[term[1]]
        return tuple(subst_upvars(x, mapping) for x in term)
    return term


def memo_value(prog, b, term):
    """`memo.get_or_insert_with(|| f(..))` on an Option local that starts as None and is only ever filled by closures computing the SAME
    value: returns that value as a term of `b` (the memoised computation), else None.  (`let mut m = None; ... m.get_or_insert_with(|| x)`
    computes x at most once and hands out the same x every time - a pure caching idiom)"""
    from engine import paths
    t = K.peel(term)
    if not (isinstance(t, tuple) and t and t[0] == "call" and t[1].endswith("Option::get_or_insert_with") and len(t[2]) == 2):
        return None
    site = [c for c in b.calls() if c.bb == t[3]]
    if not site:
        return None
    pl = site[0].raw["args"][0].get("m") or site[0].raw["args"][0].get("c")
    if pl is None:
        return None

    def memo_local(c):
        """the Option local whose &mut is handed to this get_or_insert_with call"""
        a = c.raw["args"][0].get("m") or c.raw["args"][0].get("c")
        if a is None or a["p"]:
            return None
        for (_k, _bb, _i, st) in [d for d in b.defs().get(a["l"], []) if d[0] == "stmt"]:
            rv = st["rv"]
            if rv["k"] == "ref" and rv.get("mut") and not rv["pl"]["p"]:
                return rv["pl"]["l"]
        return None
    L = memo_local(site[0])
    if L is None:
        return None
    # other definitions of the memo: only `None`
    for d in b.defs().get(L, []):
        if d[0] != "stmt":
            return None
        rv = d[3]["rv"]
        if not (rv["k"] == "agg" and rv.get("ak") == "adt" and rv.get("variant") == "None"):
            return None
    vals = []
    for c in b.calls():
        if not c.name.endswith("Option::get_or_insert_with") or memo_local(c) != L:
            continue
        ct = b.operand_term(c.args[1])
        if not (isinstance(ct, tuple) and ct and ct[0] == "closure"):
            return None
        cb = prog.bodies.get(ct[1])
        if cb is None:
            return None
        rows = paths.decision_table(cb, prog)
        rets = set(r for _a, r, _bl in rows)
        if len(rets) != 1 or None in rets:
            return None
        mapping = {}
        for nm, ot in ct[2]:
            mapping[nm] = ot[1] if isinstance(ot, tuple) and ot and ot[0] == "ref" and len(ot) == 2 else ot
        vals.append(subst_upvars(next(iter(rets)), mapping))
    # every mutable borrow of the memo must be one of those calls (nothing else writes it)
    borrows = [st for bl in b.blocks for st in bl["stmts"] if st["k"] == "assign" and st["rv"]["k"] == "ref" and st["rv"].get("mut") and st["rv"]["pl"]["l"] == L]
    if not vals or len(borrows) != len(vals):
        return None

    def strip(x):
        return _strip_ids(x) if "_strip_ids" in globals() else x
    if any(strip(v) != strip(vals[0]) for v in vals):
        return None
    return vals[0]


WATERMARK_FIELDS = (("FinalityTracker", "first_unpruned_slot"), ("ParentReadyTracker", "root"))


def watermark_comparisons(prog, prefixes):
    """every `<`-type comparison in the given modules one side of which is a pruning watermark:
    [(fn, span, form, lhs, rhs)] with form 'X<wm' (also covers X >= wm) or 'wm<X' (covers X <= wm, X > wm) or '?'"""
    out = []
    for d, b in sorted(prog.bodies.items()):
        if b.generated or not any(p in d for p in prefixes):
            continue
        us = upvar_sources(prog, b)

        def is_wm_pv(pv):
            return any(x.endswith("::first_unpruned_slot") for x in pv["calls"]) or any(
                (ow.rsplit("::", 1)[-1], n) in WATERMARK_FIELDS for (ow, n) in pv["fields"])
        wmups = set(n for n, pv in us.items() if is_wm_pv(pv))

        def wm(t):
            if K.mentions_call(t, "first_unpruned_slot") or any(K.mentions_field(t, f, o) for (o, f) in WATERMARK_FIELDS):
                return True
            if K.mentions(t, lambda x: x[0] == "upvar" and x[1] in wmups):
                return True
            if K.mentions(t, lambda x: x[0] == "local"):
                return is_wm_pv(b.provenance(t))
            return False
        cands = []
        for (s, dterm, dty) in b.switches():
            for v, atoms in G.switch_atoms(b, s, prog).items():
                for a in atoms:
                    if a[0] == "lt" and a[2] is True:
                        cands.append((a[1], b.blocks[s]["term"].get("sp", "")))
        for (bb, i, dst, rv, sp) in b.assignments():
            nb = G.norm_bool(b.rvalue_term(rv), True)
            if nb[0] == "lt":
                cands.append((nb[1], sp))
        for c in b.calls():
            nb = G.norm_bool(b.call_term(c.bb, c.raw), True)
            if nb[0] == "lt":
                cands.append((nb[1], c.span))
        seen = set()
        for (x, y), sp in cands:
            wx, wy = wm(x), wm(y)
            if not (wx or wy):
                continue
            form = "X<wm" if (wy and not wx) else "wm<X" if (wx and not wy) else "?"
            k = (sp.rsplit(":", 1)[0], form, mir.show(x)[:60], mir.show(y)[:60])
            if k in seen:
                continue
            seen.add(k)
            out.append((K.fshort(d), sp, form, x, y))
    return out


def ob_watermark_comparisons(run, oid, prefixes, floor, why):
    prog = run.program("lib")
    o = run.ob(oid, "every comparison of a slot with a pruning watermark has the form `slot < watermark` (or its negation): the slot AT the watermark is the first retained one",
               why, floor=floor)
    for (fn, sp, form, x, y), key in K.ordinal_keys(watermark_comparisons(prog, prefixes), lambda r: "%s|watermark-comparison" % r[0]):
        o.check(form == "X<wm", key, "compares as `X < watermark` / `X >= watermark` (found: %s %s %s)" % (mir.show(x)[:50], "<" if form != "?" else "?", mir.show(y)[:50]), sp,
                {"form": form})


# ------------------------------------------------------------------------------------ monotone writes
def _strip_ids(t):
    if isinstance(t, tuple):
        if t and t[0] == "call" and len(t) > 3:
            return ("call", t[1], tuple(_strip_ids(a) for a in t[2]))
        return tuple(_strip_ids(a) for a in t)
    return t


def monotone_write(prog, b, bb, value, field, owner=None):
    """the write `self.field = value` in block bb can only increase the field: value = max(.., old) / old.max(..), or the write is
    guarded by old < value (or !(value < old)) for that very value"""
    v = K.peel(value)
    if isinstance(v, tuple) and v and v[0] == "call" and v[1].rsplit("::", 1)[-1] == "max" and any(K.mentions_field(a, field, owner) for a in v[2]):
        return True
    sv = _strip_ids(v)
    for a in G.guard_atoms(b, bb, prog):
        if a[0] != "lt":
            continue
        x, y = K.peel(a[1][0]), K.peel(a[1][1])
        if a[2] is True and K.is_field(x, field, owner) and _strip_ids(y) == sv:       # old < value
            return True
        if a[2] is False and K.is_field(y, field, owner) and _strip_ids(x) == sv:      # !(value < old)
            return True
    return False


# ------------------------------------------------------------------------------------ loops that must run to exhaustion
def _param_rooted(b):
    """locals through which state outside the function is reachable mutably: parameters / the closure environment, and
    mutable references derived from them (re-borrows, moves, calls returning `&mut` given such an argument)"""
    cached = b.__dict__.get("_prooted")
    if cached is not None:
        return cached
    R = set(range(1, b.argc + 1))

    def plain(o):
        pl = o.get("c") or o.get("m")
        return pl["l"] if pl is not None else None
    for _ in range(6):
        n0 = len(R)
        for bb, i, dst, rv, sp in b.assignments():
            if dst["p"]:
                continue
            if rv["k"] == "ref" and rv.get("mut") and rv["pl"]["l"] in R:
                R.add(dst["l"])
            elif rv["k"] == "use" and plain(rv["a"]) in R and b.local_ty(dst["l"]).startswith("&mut"):
                R.add(dst["l"])
        for bl in b.blocks:
            t = bl["term"]
            if t["k"] == "call" and not t["dst"]["p"] and b.local_ty(t["dst"]["l"]).startswith("&mut"):
                if any(plain(a) in R for a in t["args"]):
                    R.add(t["dst"]["l"])
        if len(R) == n0:
            break
    b.__dict__["_prooted"] = R
    return R


_ITER_STEP = ("next", "next_back", "poll", "poll_next", "into_iter", "iter", "iter_mut", "size_hint", "len", "get", "contains", "contains_key", "deref", "deref_mut", "as_ref", "as_mut", "borrow", "borrow_mut")


def loop_effects(b, nodes):
    """what a loop body does to the world outside the function: ['await' | 'write <place>' | 'call <callee>(&mut ..)']"""
    R = _param_rooted(b)
    out = []
    for bl in b.blocks:
        if bl["id"] not in nodes:
            continue
        t = bl["term"]
        if t["k"] == "yield":
            out.append("await")
        for st in bl["stmts"]:
            if st["k"] == "assign" and st["dst"]["p"] and st["dst"]["l"] in R:
                out.append("write through " + (b.local_name(st["dst"]["l"]) or "_%d" % st["dst"]["l"]))
        if t["k"] == "call":
            nm = mir.strip_generics(t.get("resolved") or t.get("callee") or "")
            if nm.rsplit("::", 1)[-1] in _ITER_STEP:
                continue
            for a in t["args"]:
                pl = a.get("c") or a.get("m")
                if pl is not None and not pl["p"] and pl["l"] in R and b.local_ty(pl["l"]).startswith("&mut"):
                    out.append("call %s(&mut ..)" % mir.short(nm))
                    break
    return out


def _is_await_loop(b, header, nodes):
    """every way round the loop passes a yield (suspension point): header -> .. -> Pending -> yield -> resume -> header"""
    latches = set(u for (u, h, _l) in b.edges() if h == header and u in nodes)
    yields = set(x for x in nodes if b.blocks[x]["term"]["k"] == "yield")
    if not yields:
        return False
    seen = set()
    stack = [header]
    while stack:
        x = stack.pop()
        if x in seen or x not in nodes or x in yields:
            continue
        seen.add(x)
        if x in latches:
            return False
        stack.extend(y for y in b.succ()[x] if y != header)
    return True


def early_exit_loops(prog, b):
    """[(header, [exit edges], effects)] for loops of b (not the loops an `.await` expands to) that act on outside state and can be
    left before their iterator / condition is exhausted"""
    out = []
    for h, nodes in b.loops():
        ex = b.loop_exits(h, nodes)
        real = [e for e in ex if e[2] != "panic"]
        if real and all(e[2] == "await" for e in real):
            continue
        if _is_await_loop(b, h, nodes):
            continue        # the polling loop of an `.await` (possibly with an inlined async helper as its body): left when the future is done
        early = [e for e in real if e[2] == "early"]
        if not early:
            continue
        if len(set(x for _a, x, _k in real)) == 1 and not any(e[2] == "exhausted" for e in real):
            continue        # `loop { .. if done { break } .. }` with a single way out: that test IS the loop condition
        eff = loop_effects(b, nodes)
        if eff:
            out.append((h, early, eff))
    return out


def ob_loop_exits(run, oid, prefixes, why):
    """every loop in the given modules that acts on outside state runs until its iterator / condition is exhausted, except the
    reviewed ones (rules/loop_review.py)"""
    from . import loop_review
    prog = run.program("lib")
    o = run.ob(oid, "loops that act on state outside the function (sends, &mut calls, writes) visit every element: no early return / break / `?`, reviewed exceptions aside",
               why, floor=1)
    found = {}
    nloops = 0
    for d, b in sorted(prog.bodies.items()):
        if b.generated or not any(p in d for p in prefixes):
            continue
        nloops += len(b.loops())
        for h, early, eff in early_exit_loops(prog, b):
            root = d.replace("alpenglow::", "").split("::{closure")[0]
            found.setdefault(root, []).append((b, h, early, eff))
    for root, lst in sorted(found.items()):
        rev = loop_review.TABLE.get(root)
        n_ok = min(len(lst), rev[0]) if rev else 0
        if n_ok:
            o.ok("%s|early-exit-loop|reviewed" % root, "reviewed (%d loop(s)): %s" % (n_ok, rev[1]), lst[0][0].span, nontrivial=False)
        for i, (b, h, early, eff) in enumerate(lst[n_ok:]):
            sp = b.blocks[early[0][0]]["term"].get("sp", "") or b.span
            o.fail("%s|early-exit-loop|%d" % (root, i), "a loop that %s can be left before every element was visited (break / return / `?` inside the loop)" % ", ".join(sorted(set(eff))[:3]),
                   sp, {"exits": [(a, x) for a, x, _k in early][:4], "reviewed": rev[0] if rev else 0})
    o.ok("loops-examined", "%d loops in %s examined" % (nloops, ", ".join(prefixes)), "", nontrivial=nloops > 0)
    return o


# ------------------------------------------------------------------------------------ derived (structural) impls stay structural
def _manual_impl_is_fieldwise(prog, adt, trait, impl_def):
    """a hand-written PartialEq / Ord / Hash / Clone / Default that does what the derive would: every field of the type takes part as a whole
    (compared with the same field of `other` by == / the same trait's method, cloned or copied into the same field, defaulted to its
    type's default), with no indexing, slicing, loops or arithmetic"""
    r = prog.adts.get(adt)
    if r is None or r.get("is_enum"):
        return False
    method = {"PartialEq": "eq", "PartialOrd": "partial_cmp", "Ord": "cmp", "Hash": "hash", "Clone": "clone", "Default": "default"}.get(trait)
    if method is None:
        return False
    b = prog.bodies.get(mir.strip_generics(impl_def) + "::" + method)
    if b is None or b.loops():
        return False
    fields = [f["name"] for v in r["variants"] for f in v["fields"]]

    def own_field(t, pidx=None):
        t = K.peel(t)
        while isinstance(t, tuple) and t and t[0] in ("ref", "deref") and len(t) > 1:
            t = t[1]
        if isinstance(t, tuple) and t and t[0] == "field" and isinstance(t[1], tuple) and t[1][0] == "param" and (pidx is None or t[1][1] == pidx) and str(t[3]).split("::<")[0] == adt:
            return t[2]
        return None
    for c in b.calls():
        last = c.name.rsplit("::", 1)[-1]
        if last in ("index", "index_mut", "get", "get_unchecked", "chunks", "chunks_exact", "step_by", "iter", "split_at", "from_le_bytes", "from_be_bytes", "from_ne_bytes", "try_into"):
            return False
    for bl in b.blocks:
        for st in bl["stmts"]:
            if st["k"] == "assign" and st["rv"]["k"] == "bin" and st["rv"].get("op") in ("BitXor", "BitOr", "Shl", "Shr", "Add", "Sub", "Mul", "AddWithOverflow", "SubWithOverflow", "MulWithOverflow"):
                return False
    seen = set()
    if trait in ("PartialEq", "PartialOrd", "Ord", "Hash"):
        for c in b.calls():
            last = c.name.rsplit("::", 1)[-1]
            if last in (method, "eq", "ne", "cmp", "partial_cmp", "ct_eq", "hash", "then", "then_with"):
                fs = [own_field(b.operand_term(a)) for a in c.args]
                fs = [f for f in fs if f]
                if fs and len(set(fs)) == 1:
                    seen.add(fs[0])
        for bb, i, dst, rv, sp in b.assignments():
            if rv["k"] == "bin" and rv.get("op") in ("Eq", "Ne", "Lt", "Le", "Gt", "Ge", "Cmp"):
                fa, fb = own_field(b.operand_term(rv["a"])), own_field(b.operand_term(rv["b"]))
                if fa and fa == fb:
                    seen.add(fa)
        return set(fields) <= seen
    aggs = [(bb, rv) for (bb, rv, sp, dst) in b.aggregates(adt)]
    if len(aggs) != 1:
        return False
    rv = aggs[0][1]
    ops = dict(zip(rv.get("fields", []), rv.get("ops", [])))
    if set(ops) != set(fields):
        return False
    for f, op in ops.items():
        t = K.peel(b.operand_term(op))
        if trait == "Clone":
            if own_field(t, 1) != f:
                return False
        else:       # Default
            ok = (isinstance(t, tuple) and t and t[0] == "const" and t[2] in (0, "false", "", '""', 0.0)) or \
                 (isinstance(t, tuple) and t and t[0] == "agg" and str(t[2]) == "None") or \
                 (isinstance(t, tuple) and t and t[0] == "call" and t[1].rsplit("::", 1)[-1] in ("new", "default") and all(isinstance(a, tuple) and a and a[0] == "const" for a in t[2]))
            if not ok:
                return False
    return True


def ob_structural_impls(run, oid, prefixes, why):
    """equality / order / hash / clone of the types under `prefixes` that were derived on the reviewed tree are still derived (or, when
    hand-written now, still field-wise)"""
    prog = run.program("lib")
    o = run.ob(oid, "equality, ordering, hashing and cloning of the value types are structural: every impl derived on the reviewed tree is still derived (or a field-wise hand-written one)",
               why, floor=3)
    with open(os.path.join(os.path.dirname(os.path.abspath(__file__)), "known_items.json")) as fh:
        derived = json.load(fh).get("derived", [])
    cur = {}
    for im in prog.impls:
        tr = im.get("trait", "").rsplit("::", 1)[-1]
        if im.get("self_adt") and tr:
            cur.setdefault((im["self_adt"], tr), []).append(im)
    n = 0
    for adt, tr in derived:
        if not any(adt.startswith("alpenglow::" + p) or adt.startswith(p) for p in prefixes):
            continue
        if adt not in prog.adts:
            continue        # the type itself is gone: its anchors report that
        ims = cur.get((adt, tr), [])
        n += 1
        key = "%s|%s" % (K.fshort(adt), tr)
        if not ims:
            if tr in ("Clone", "Default", "PartialOrd", "Ord", "Hash"):
                o.ok(key + "|removed", "impl %s no longer exists (code that needed it would not compile)" % tr, prog.adts[adt]["span"], nontrivial=False)
            else:
                o.ok(key + "|removed", "impl %s no longer exists (code that compared values would not compile)" % tr, prog.adts[adt]["span"], nontrivial=False)
            continue
        im = ims[0]
        if im.get("derived"):
            o.ok(key, "derived", im.get("span", ""), nontrivial=False)
        elif _manual_impl_is_fieldwise(prog, adt, tr, im.get("def", "")):
            o.ok(key + "|fieldwise", "hand-written but field-wise over every field", im.get("span", ""))
        else:
            o.fail(key + "|hand-written", "%s for %s was derived (structural over all fields) on the reviewed tree and is now hand-written and not recognisably field-wise: "
                   "everything that compares / orders / hashes / copies such values depends on it" % (tr, K.fshort(adt)), im.get("span", ""))
    o.ok("impls-examined", "%d reviewed derived impls under %s examined" % (n, ", ".join(prefixes)), "", nontrivial=n > 0)
    return o


# ------------------------------------------------------------------------------------ lossy integer casts
_INT_W = {"u8": 8, "u16": 16, "u32": 32, "u64": 64, "usize": 64, "u128": 128, "i8": 8, "i16": 16, "i32": 32, "i64": 64, "isize": 64, "i128": 128}


def narrowing_casts(prog, b, below=32):
    """[(span, from, to, bounded?, term)] for integer casts in b that drop bits down to fewer than `below` bits; bounded = the operand
    provably fits (constant, `% c`, `& c`, `>> c`, min(.., c), or a dominating comparison with a constant that fits)"""
    out = []
    for bb, i, dst, rv, sp in b.assignments():
        if rv["k"] != "cast" or rv.get("ck") != "IntToInt":
            continue
        to = rv.get("ty")
        a = rv["a"]
        pl = a.get("c") or a.get("m")
        fr = b.local_ty(pl["l"]) if pl is not None and not pl["p"] else (a.get("k", {}).get("ty") if "k" in a else None)
        if to not in _INT_W or fr not in _INT_W or _INT_W[to] >= _INT_W[fr] or _INT_W[to] >= below:
            continue
        lim = 1 << (_INT_W[to] - (1 if to.startswith("i") else 0))
        t = K.peel(b.operand_term(a))
        bounded = False

        def cval(x):
            return x[2] if isinstance(x, tuple) and len(x) >= 3 and x[0] == "const" and isinstance(x[2], int) else None
        while isinstance(t, tuple) and t and t[0] == "field" and isinstance(t[1], tuple) and t[1][0] == "bin" and t[2] == "0":
            t = t[1]        # (a op b).0 of a checked operation
        if cval(t) is not None and 0 <= cval(t) < lim:
            bounded = True
        elif isinstance(t, tuple) and t and t[0] == "bin":
            op, x, y = t[1], t[2], t[3]
            if op.startswith("Rem") and cval(y) is not None and 0 < cval(y) <= lim:
                bounded = True
            elif op == "BitAnd" and ((cval(y) is not None and 0 <= cval(y) < lim) or (cval(x) is not None and 0 <= cval(x) < lim)):
                bounded = True
            elif op.startswith("Shr") and cval(y) is not None and fr in _INT_W and _INT_W[fr] - cval(y) <= _INT_W[to] - (1 if to.startswith("i") else 0):
                bounded = True
        elif isinstance(t, tuple) and t and t[0] == "call" and t[1].rsplit("::", 1)[-1] in ("min", "clamp") and any(cval(x) is not None and cval(x) < lim for x in t[2]):
            bounded = True
        if not bounded:
            for g in G.guard_atoms(b, bb, prog):
                if g[0] in ("lt", "le") and len(g[1]) == 2:
                    lo, hi = g[1]
                    if g[2] is True and K.peel(lo) == t and cval(hi) is not None and cval(hi) <= lim:
                        bounded = True
                    if g[2] is False and K.peel(hi) == t and cval(lo) is not None and cval(lo) < lim:
                        bounded = True       # !(c < x)  <=>  x <= c
        out.append((sp, fr, to, bounded, t))
    return out


def ob_narrowing_casts(run, oid, prefixes, why):
    prog = run.program("lib")
    o = run.ob(oid, "no integer cast to fewer than 32 bits drops bits of a value that is not provably small (lengths, offsets, indices, slots)", why, floor=1)
    n = 0
    nb = 0
    for d, b in sorted(prog.bodies.items()):
        if b.generated or not any(p in d for p in prefixes):
            continue
        nb += 1
        k = 0
        for (sp, fr, to, bounded, t) in narrowing_casts(prog, b):
            n += 1
            key = "%s|cast|%s->%s|%d" % (K.fshort(d).split("::{closure")[0], fr, to, k)
            k += 1
            if bounded:
                o.ok(key, "operand provably fits", sp)
            else:
                o.fail(key, "`%s as %s` truncates a value that is not bounded: %s" % (fr, to, mir.show(t)[:70]), sp)
    o.ok("bodies-examined", "%d bodies under %s examined, %d cast(s) to fewer than 32 bits" % (nb, ", ".join(prefixes), n), "", nontrivial=nb > 0)
    return o


# ------------------------------------------------------------------------------------ new fields on reviewed types
def ob_new_fields(run, oid, prefixes, why, skip_owners=()):
    """a field added to a reviewed struct is harmless when reviewed code only ever updates it (statistics) or never touches it; a new field
    whose value reviewed code reads carries state from one call to the next and takes part in the logic: report it"""
    prog = run.program("lib")
    o = run.ob(oid, "no new field of a reviewed type carries state into reviewed logic (new fields are write-only statistics or used by new code only)", why, floor=1)
    here = os.path.dirname(os.path.abspath(__file__))
    with open(os.path.join(here, "known_items.json")) as fh:
        kad = json.load(fh).get("adts", {})
    with open(os.path.join(here, "known_fns.json")) as fh:
        known_fns = set(json.load(fh)["fns"])
    n = 0
    for full, r in sorted(prog.adts.items()):
        if full not in kad or not any(("alpenglow::" + p) in full or full.startswith(p) for p in prefixes) or "::_::" in full:
            continue
        if any(full.endswith(s) for s in skip_owners):
            continue
        n += 1
        for v, kv in zip(r["variants"], kad[full]["variants"]):
            old = set(f for f, _t in kv["fields"])
            for f in v["fields"]:
                if f["name"] in old:
                    continue
                readers = []
                for d2, b2 in prog.bodies.items():
                    if b2.generated or d2.split("::{closure")[0] not in known_fns:
                        continue
                    for sp2 in logic_reads_of_field(b2, full, f["name"]):
                        readers.append((K.fshort(d2), sp2))
                key = "%s.%s" % (K.fshort(full), f["name"])
                if readers:
                    o.fail(key + "|new-field-read-by-reviewed-code", "new field %s.%s is read by code that existed on the reviewed tree (%s): it carries state into that logic and needs review" % (
                        K.fshort(full), f["name"], readers[0][0]), readers[0][1])
                else:
                    o.ok(key + "|new-write-only-field", "new field, only updated / used by new code", r["span"], nontrivial=False)
    o.ok("types-examined", "%d reviewed types under %s examined" % (n, ", ".join(prefixes)), "", nontrivial=n > 0)
    return o


def closure_compares_capture(prog, term, wanted):
    """`term` contains a closure (e.g. the argument of is_some_and / any / filter) whose body compares (eq / ne) something with one of its
    captures, and that capture's value in the enclosing body satisfies `wanted(term)`"""
    for cl in [x for x in mir.walk(term) if isinstance(x, tuple) and x and x[0] == "closure"]:
        caps = [nm for nm, ot in cl[2] if wanted(ot)]
        if not caps:
            continue
        for fb in prog.family(cl[1]):
            for c in fb.calls():
                if c.name.rsplit("::", 1)[-1] in ("eq", "ne") and any(K.mentions(fb.operand_term(a), lambda x: x[0] == "upvar" and x[1] in caps) for a in c.args):
                    return True
            for bb, i, dst, rv, sp in fb.assignments():
                if rv["k"] == "bin" and rv.get("op") in ("Eq", "Ne") and any(K.mentions(fb.operand_term(rv[k_]), lambda x: x[0] == "upvar" and x[1] in caps) for k_ in ("a", "b")):
                    return True
    return False


def guarded_on_every_path(prog, b, bb, pred):
    """every path from the entry to block `bb` takes a switch edge on which an atom satisfying `pred` holds (works for blocks reached by
    several arms that were merged, where no single condition dominates)"""
    es = b.edges()
    removed = []
    for (s_, _dt, _ty) in b.switches():
        for v, atoms in G.switch_atoms(b, s_, prog).items():
            if any(pred(a) for a in atoms):
                removed += [i for i, e in enumerate(es) if e[0] == s_ and e[2] == ("sw", v)]
    return bool(removed) and bb not in b.reachable(0, removed_edges=removed)


def closure_is_threshold(prog, cb, is_elem, is_bound):
    """the predicate closure `cb` (of retain / filter / take_while) keeps an element exactly when elem >= bound: every row of its decision
    table is unconditional and evaluates to [False, True, True] for elem below / at / above the bound. -> list of problems"""
    from engine import paths

    def val(x, ev, bv):
        x = K.peel(x)
        if isinstance(x, tuple) and x and x[0] == "un" and str(x[1]) == "Not":
            v = val(x[2], ev, bv)
            return None if v is None else (not v)
        if isinstance(x, tuple) and x and x[0] == "const" and x[2] in (0, 1):
            return bool(x[2])
        if isinstance(x, tuple) and x and ((x[0] == "call" and len(x[2]) == 2) or x[0] == "bin"):
            op = x[1].rsplit("::", 1)[-1].lower()
            a0, a1 = (x[2][0], x[2][1]) if x[0] == "call" else (x[2], x[3])
            n0 = ev if is_elem(a0) else (bv if is_bound(a0) else None)
            n1 = ev if is_elem(a1) else (bv if is_bound(a1) else None)
            if n0 is None or n1 is None or op not in ("ge", "le", "gt", "lt", "eq", "ne"):
                return None
            return {"ge": n0 >= n1, "le": n0 <= n1, "gt": n0 > n1, "lt": n0 < n1, "eq": n0 == n1, "ne": n0 != n1}[op]
        return None
    bad = []
    rows = [r for r in paths.decision_table(cb, prog) if r[1] is not None]
    if not rows:
        return ["no result"]
    for atoms, ret, _bl in rows:
        other = [a for a in atoms if not is_structural_atom(a)]
        if other:
            bad.append("depends on %s" % G.atoms_show(other)[:2])
            continue
        vs = [val(ret, e, 5) for e in (4, 5, 6)]
        if vs != [False, True, True]:
            bad.append("keeps when %s (below / at / above the bound: %s)" % (mir.show(K.peel(ret))[:70], vs))
    return bad


# ------------------------------------------------------------------------------------ initial values (constructors)
_CTOR_RE = re.compile(r"^(new|default|genesis|new_\w+|with_\w+)$")
_EMPTY_OWNERS = ("alloc::vec::Vec", "alloc::collections::", "std::collections::", "smallvec::SmallVec", "alloc::string::String", "hashbrown::")


_ZEROISH = (["empty"], ["none"], ["const", 0], ["type-default"])
_DERIVED = None


def _derives_default(adt):
    global _DERIVED
    if _DERIVED is None:
        try:
            ki = json.load(open(os.path.join(os.path.dirname(os.path.abspath(__file__)), "known_items.json")))
            _DERIVED = set((a, t) for a, t in ki.get("derived", []))
        except Exception:
            _DERIVED = set()
    short = adt.replace("alpenglow::", "")
    return any(t.endswith("Default") and (a == adt or a == short or a.replace("alpenglow::", "") == short) for a, t in _DERIVED)


def vclass(prog, b, t, depth=0):
    """value class of a term used as an initial value: a parameter (by position), a constant, None / Some, an empty collection,
    the type's default, a unit variant - or ['complex'] (not compared)."""
    t = K.peel(t)
    if not isinstance(t, tuple) or not t or depth > 4:
        return ["complex"]
    k = t[0]
    if k == "param":
        return ["param", t[1]]
    if k == "const":
        return ["const", t[2]] if isinstance(t[2], int) else ["complex"]
    if k == "cref":
        return ["cref", "::".join(t[1].split("::")[-2:])]
    if k == "agg":
        adt, var, fields = t[1], t[2], t[3]
        if adt.endswith("option::Option"):
            return ["none"] if var == "None" else ["some", vclass(prog, b, fields[0][1], depth + 1)]
        if not fields:
            return ["variant", adt.replace("alpenglow::", ""), var]
        if len(fields) == 1:
            inner = vclass(prog, b, fields[0][1], depth + 1)
            if inner[0] == "const":
                return ["newtype", adt.replace("alpenglow::", ""), inner[1]]
        if adt.startswith("alpenglow::") and fields and all(vclass(prog, b, fv, depth + 1) in _ZEROISH for _fn, fv in fields) and _derives_default(adt):
            # every field spelled out with the value the derived Default gives it
            return ["type-default"]
        return ["complex"]
    if k == "tuple" or k == "array":
        return [k, [vclass(prog, b, x, depth + 1) for x in t[1]]]
    if k == "field" and isinstance(t[1], tuple) and t[1] and t[1][0] == "call" and t[1][1].rsplit("::", 1)[-1] == "default" and not t[1][2]:
        return ["type-default"]
    if k == "call":
        name, args = t[1], t[2]
        last = name.rsplit("::", 1)[-1]
        if last in ("new", "default", "with_capacity", "with_capacity_and_hasher", "with_hasher", "new_in") and name.startswith(_EMPTY_OWNERS) and all(
                vclass(prog, b, a, depth + 1)[0] in ("const", "complex", "param") for a in args):
            return ["empty"]
        if last == "default" and not args:
            return ["type-default"]
        if name.endswith("time::Instant::now") or name.endswith("Instant::now"):
            return ["now"]
        cb = prog.bodies.get(name)
        if cb is not None and not args and not cb.is_closure:
            # a crate function without arguments (Slot::genesis(), ..): the class of what it returns
            rts = set()
            for rb in cb.return_blocks():
                rts.add(json.dumps(vclass(prog, cb, cb.local_term(0), depth + 1)))
            if len(rts) == 1:
                return json.loads(rts.pop())
        if cb is not None and len(args) == 1 and last == "new" and not cb.is_closure:
            inner = vclass(prog, b, args[0], depth + 1)
            rt = cb.local_term(0)
            if inner[0] == "const" and isinstance(rt, tuple) and rt[0] == "agg" and len(rt[3]) == 1 and K.peel(rt[3][0][1])[:2] == ("param", 1):
                return ["newtype", rt[1].replace("alpenglow::", ""), inner[1]]
        return ["complex"]
    return ["complex"]


def ctor_table(prog):
    """{root fn: {adt: [ {field: class} per aggregate in source order ]}} for constructor-like functions of crate structs"""
    out = {}
    for d, b in prog.bodies.items():
        if b.generated or not d.startswith(("alpenglow::", "<alpenglow::")):
            continue
        root = d.split("::{closure")[0]
        last = mir.strip_generics(root).rsplit("::", 1)[-1]
        if not _CTOR_RE.match(last) or "::tests::" in d or "test" in last:
            continue
        for (bb, rv, sp, dst) in b.aggregates():
            if rv.get("ak") != "adt" or rv.get("is_enum") or not rv["adt"].startswith("alpenglow::"):
                continue
            fl = {}
            for f, op in zip(rv["fields"], rv["ops"]):
                fl[f] = vclass(prog, b, b.operand_term(op))
            out.setdefault(K.fshort(root), {}).setdefault(rv["adt"].replace("alpenglow::", ""), []).append({"fields": fl, "span": sp})
    return out


_STD_DEFAULTABLE = re.compile(r"^(alloc::|std::collections|core::option::Option|smallvec::|bool$|[ui](8|16|32|64|128|size)$|hashbrown::)")


def _class_matches(want, got, fty=""):
    if want[0] == "complex":
        return True
    if want in _ZEROISH and got in _ZEROISH and (want == got or _STD_DEFAULTABLE.match(fty or "")):
        # Vec::new() / None / 0 / false and Default::default() of a std type are the same value
        if want == got or (want[0] in ("empty", "type-default") and got[0] in ("empty", "type-default")) or _STD_DEFAULTABLE.match(fty or ""):
            return True
    if want[0] != got[0] or len(want) != len(got):
        return False
    for w, g in zip(want[1:], got[1:]):
        if isinstance(w, list) and w and isinstance(w[0], str):
            if not (isinstance(g, list) and _class_matches(w, g)):
                return False
        elif isinstance(w, list):
            if not (isinstance(g, list) and len(w) == len(g) and all(_class_matches(a, c) for a, c in zip(w, g))):
                return False
        elif w != g:
            return False
    return True


def ob_initial_values(run, oid, owners, why, floor=1, skip=()):
    """the values protocol state starts from (rules/ctor_table.json, recorded on the reviewed tree): a field that a constructor
    fills from a parameter, a constant, None, an empty collection, the type's default or a unit variant is still filled with the
    same value (class); computed initial values are not compared. A field that is new is left to the new-field rule."""
    prog = run.program("lib")
    tab = json.load(open(os.path.join(os.path.dirname(os.path.abspath(__file__)), "ctor_table.json")))
    o = run.ob(oid, "protocol state starts from the reviewed initial values (parameters by position, constants, None, empty, default)", why, floor=floor)
    cur = ctor_table(prog)
    for ow in owners:
        sites = [(fn, ags) for fn, per in tab.items() for adt, ags in per.items() if adt == ow]
        if not sites:
            o.missing("constructor of " + ow)
            continue
        ftys = {}
        if "alpenglow::" + ow in prog.adts:
            ftys = {f["name"]: f.get("ty", "") for f in prog.adts["alpenglow::" + ow]["variants"][0]["fields"]}
        for fn, ags in sites:
            got = cur.get(fn, {}).get(ow)
            if got is None:
                # the constructor is gone (renames are mapped back before): is the struct still built somewhere constructor-like?
                alt = [(f2, per[ow]) for f2, per in cur.items() if ow in per and f2 not in tab]
                if len(alt) == 1 and len(alt[0][1]) == len(ags):
                    got = alt[0][1]
                else:
                    o.fail("%s|%s|anchor-missing" % (ow.rsplit("::", 1)[-1], fn), "reviewed constructor site of %s in %s not found (rule cannot be evaluated; failing closed)" % (ow, fn))
                    continue
            if len(got) < len(ags):
                o.fail("%s|%s|anchor-missing" % (ow.rsplit("::", 1)[-1], fn), "fewer construction sites of %s in %s than reviewed" % (ow, fn))
                continue
            # pair aggregates in source order; extra (new) aggregates must match one of the reviewed ones field by field
            for i, g in enumerate(got):
                cands = [ags[i]] if i < len(ags) and len(got) == len(ags) else ags
                best = None
                for w in cands:
                    bad = [(f, w["fields"][f], g["fields"].get(f)) for f in w["fields"] if f in g["fields"] and "%s.%s" % (ow.rsplit("::", 1)[-1], f) not in skip
                           and not _class_matches(w["fields"][f], g["fields"][f], ftys.get(f, ""))]
                    if best is None or len(bad) < len(best):
                        best = bad
                for f in (cands[0]["fields"] if cands else {}):
                    if f not in g["fields"]:
                        continue
                    b3 = [x for x in best if x[0] == f]
                    if b3:
                        o.fail("%s.%s|%s|initial-value" % (ow.rsplit("::", 1)[-1], f, fn), "%s.%s starts from a different value in %s: reviewed %s, now %s" % (
                            ow.rsplit("::", 1)[-1], f, fn, json.dumps(b3[0][1]), json.dumps(b3[0][2])), g["span"])
                    else:
                        w0 = cands[0]["fields"][f]
                        o.ok("%s.%s|%s" % (ow.rsplit("::", 1)[-1], f, fn), "%s.%s starts from %s" % (ow.rsplit("::", 1)[-1], f, json.dumps(w0)), g["span"], nontrivial=w0[0] != "complex")
    return o


# ------------------------------------------------------------------------------------ results are not thrown away
def _local_uses(b):
    """local -> number of reads (operands, places read or projected through); drops / storage markers do not count"""
    u = b.__dict__.get("_uses")
    if u is not None:
        return u
    u = {}

    def pl(x):
        u[x["l"]] = u.get(x["l"], 0) + 1
        for pr in x.get("p", []):
            if isinstance(pr, dict) and "l" in pr:
                u[pr["l"]] = u.get(pr["l"], 0) + 1

    def op(o):
        if "c" in o:
            pl(o["c"])
        elif "m" in o:
            pl(o["m"])

    def rv(v):
        for key in ("a", "b"):
            if key in v and isinstance(v[key], dict):
                op(v[key])
        if "pl" in v:
            pl(v["pl"])
        for o in v.get("ops", []):
            op(o)

    for bl in b.blocks:
        for s in bl["stmts"]:
            if s["k"] == "assign":
                rv(s["rv"])
                if s["dst"]["p"]:
                    pl(s["dst"])
            elif s["k"] == "setdiscr":
                pl(s["dst"])
        t = bl["term"]
        if t["k"] == "call":
            for a in t["args"]:
                op(a)
            if isinstance(t.get("f"), dict):
                op(t["f"])
        elif t["k"] == "switch":
            op(t["d"])
        elif t["k"] == "assert":
            for o in t["ops"]:
                op(o)
        elif t["k"] == "yield" and isinstance(t.get("v"), dict):
            op(t["v"])
    b.__dict__["_uses"] = u
    return u


_RESULT_TY = re.compile(r"^(core::result::|std::result::)?Result<")
# reviewed: (root fn) -> (number of discarded results, reason)
DISCARDED_RESULTS = {
    "consensus::votor::Votor::set_timeouts": (2, "the spawned timer tasks send into the Votor's own timeout channel; a send error only means the Votor is gone (shutdown)"),
}


def discarded_results(b):
    """[(local, type, term, span)] - values of type Result<..> (or the Option made from one by .ok()) that are produced and never looked at"""
    out = []
    u = _local_uses(b)
    for l, ds in b.defs().items():
        if l == 0 or l <= b.argc or not ds or u.get(l, 0):
            continue
        ty = b.local_ty(l)
        t = b.local_term(l)
        is_res = bool(_RESULT_TY.match(ty))
        is_ok = ty.startswith("core::option::Option<") and isinstance(t, tuple) and t and t[0] == "call" and re.search(r"result::Result<.*>::(ok|err)$|Result::(ok|err)$", t[1])
        if not (is_res or is_ok):
            continue
        d = ds[0][3]
        out.append((l, ty, t, d.get("sp") or d.get("span") or b.span))
    return out


def ob_results_not_discarded(run, oid, prefixes, why):
    """error discipline: no Result is produced and then dropped unread (`let _ = ..`, a bare `f();` on a Result, `.ok();`) outside the
    reviewed sites. A Result that is matched, propagated with `?`, logged or returned is 'used'."""
    prog = run.program("lib")
    o = run.ob(oid, "no Result is thrown away unread (let _ = .. / .ok();) outside the reviewed sites", why, floor=1)
    per = {}
    n = 0
    for d, b in prog.bodies.items():
        if b.generated or not d.startswith(("alpenglow::", "<alpenglow::")) or "::tests::" in d:
            continue
        sd = _module_of(K.fshort(d.split("::{closure")[0])) + "::"
        if not any(sd.startswith(p) or (sd.rstrip(":") == p.rstrip(":")) for p in prefixes):
            continue
        n += 1
        root = K.fshort(d.split("::{closure")[0])
        for x in discarded_results(b):
            per.setdefault(root, []).append(x)
    for root, xs in sorted(per.items()):
        cap, reason = DISCARDED_RESULTS.get(root, (0, ""))
        for i, (l, ty, t, sp) in enumerate(xs):
            if i < cap:
                o.ok("%s|discarded|%d" % (root, i), "reviewed: %s" % reason, sp)
            else:
                o.fail("%s|discarded|%s" % (root, mir.show(t)[:50]), "the result of %s (%s) is thrown away unread in %s: a failure there goes unnoticed" % (mir.show(t)[:60], ty[:50], root), sp)
    o.ok("scanned", "%d function bodies scanned for discarded results" % n, "", {"bodies": n}, nontrivial=n > 0)
    if n == 0:
        o.missing("modules " + ", ".join(prefixes))
    return o


# ------------------------------------------------------------------------------------ plain field copies
def ob_field_copies(run, oid, fns, why, floor=None):
    """functions that only re-package values (from_parts / header / deconstruct ..): every field of every crate struct they build is a
    copy of the same-named field of an argument, or an argument itself - nothing is computed, defaulted or combined"""
    prog = run.program("lib")
    o = run.ob(oid, "re-packaging functions copy every field unchanged (same-named field of an argument, or the argument)", why, floor=floor or len(fns))
    for fn in fns:
        b = prog.body("alpenglow::" + fn)
        if b is None:
            o.missing(fn)
            continue
        n = 0
        for (bb, rv, sp, dst) in b.aggregates():
            if rv.get("ak") != "adt" or rv.get("is_enum") or not rv["adt"].startswith("alpenglow::"):
                continue
            for f, op in zip(rv["fields"], rv["ops"]):
                t = K.peel(b.operand_term(op))
                ok = False
                if isinstance(t, tuple) and t:
                    if t[0] == "param":
                        ok = True
                    elif t[0] == "field" and K.mentions(t, lambda y: isinstance(y, tuple) and y and y[0] == "param"):
                        # a.b.c.<f>: a pure projection chain from a parameter ending in the same field name (tuple struct fields excepted)
                        chain_ok = True
                        x = t
                        while isinstance(x, tuple) and x and x[0] in ("field", "variant"):
                            x = K.peel(x[1])
                        chain_ok = isinstance(x, tuple) and x and x[0] == "param"
                        ok = chain_ok and (str(t[2]) == str(f) or str(f).isdigit() or str(t[2]).isdigit())
                    elif t[0] == "agg" and t[1].startswith("alpenglow::"):
                        ok = True       # a nested re-packaged struct: its own fields are checked as a separate aggregate
                    elif t[0] == "call" and t[1].replace("alpenglow::", "") in fns:
                        # delegates to another re-packaging function of the list, handing over (parts of) its own arguments
                        ok = all(K.mentions(a, lambda y: isinstance(y, tuple) and y and y[0] == "param") for a in t[2])
                n += 1
                o.check(ok, "%s|%s.%s|copied" % (K.fshort("alpenglow::" + fn), rv["adt"].rsplit("::", 1)[-1], f), "%s.%s is the unchanged %s of an argument" % (rv["adt"].rsplit("::", 1)[-1], f, f), sp,
                        {"value": mir.show(t)[:80]})
            ex = extra_guards(prog, b, bb, [])
            o.check(not ex, "%s|%s|unconditional" % (K.fshort("alpenglow::" + fn), rv["adt"].rsplit("::", 1)[-1]), "built under no condition", sp)
        if n == 0:
            o.missing("struct built in " + fn)
    return o


# ------------------------------------------------------------------------------------ truncating iterator adapters
_TRUNC = ("take", "take_while", "skip", "skip_while", "map_while", "step_by", "nth", "nth_back", "split_off", "truncate", "drain")


def truncation_table(prog):
    """{root fn: {adapter: count}} - uses of adapters / operations that cut a sequence short (take, take_while, skip, map_while, step_by, nth,
    truncate, split_off, drain) in non-test crate code"""
    out = {}
    for d, b in prog.bodies.items():
        if b.generated or not d.startswith(("alpenglow::", "<alpenglow::")) or "::tests::" in d:
            continue
        root = K.fshort(d.split("::{closure")[0])
        for c in b.calls():
            last = mir.strip_generics(c.name).rsplit("::", 1)[-1]
            if last in _TRUNC and ("Iterator" in c.name or "iter::" in c.name or "Vec" in c.name or "VecDeque" in c.name or "collections::" in c.name or "slice" in c.name or "SmallVec" in c.name):
                out.setdefault(root, {})
                out[root][last] = out[root].get(last, 0) + 1
    return out


def _module_of(root):
    """module part of a function path: the leading snake_case segments (types are CamelCase); `<T as Trait>::f` -> module of T"""
    r = root
    if r.startswith("<"):
        r = r[1:].split(" as ")[0]
    r = mir.strip_generics(r)
    if r.startswith("alpenglow::"):
        r = r[len("alpenglow::"):]
    segs = []
    for seg in r.split("::"):
        if seg and (seg[0].islower() or seg[0] == "_") and "{" not in seg:
            segs.append(seg)
        else:
            break
    # the last lowercase segment of a free function is the function itself
    if len(segs) == len([x for x in r.split("::") if x]) and segs:
        segs = segs[:-1]
    return "::".join(segs)


def early_exit_counts(prog):
    """{root fn: number of early exits (break / return / `?` edges) of loops that act on outside state}"""
    out = {}
    for d, b in prog.bodies.items():
        if b.generated or not d.startswith(("alpenglow::", "<alpenglow::")) or "::tests::" in d:
            continue
        root = K.fshort(d.split("::{closure")[0])
        n = 0
        for h, early, eff in early_exit_loops(prog, b):
            n += len(early)
        if n:
            out[root] = out.get(root, 0) + n
    return out


def ob_no_new_truncation(run, oid, prefixes, why):
    """sequences are processed whole: a module uses a truncating adapter (take / take_while / skip / map_while / step_by / nth / truncate / split_off /
    drain) at most as often as on the reviewed tree (rules/truncation_table.json). Counted per module, so that inlining / extracting a helper moves nothing;
    a `for .. { if c { break } .. }` loop that was reviewed as leaving early (rules/loop_review.py) may be respelled with take_while / map_while / skip_while."""
    from . import loop_review
    prog = run.program("lib")
    tab = json.load(open(os.path.join(os.path.dirname(os.path.abspath(__file__)), "truncation_table.json")))
    o = run.ob(oid, "no new truncation of a sequence (take / take_while / skip / map_while / step_by / nth / truncate / split_off / drain) in the property's modules", why, floor=1)
    cur = truncation_table(prog)

    def by_module(t):
        out = {}
        for root, ads in t.items():
            m = _module_of(root)
            for ad, k in ads.items():
                out.setdefault(m, {})
                out[m][ad] = out[m].get(ad, 0) + k
        return out
    cm, rm = by_module(cur), by_module({k_: v_ for k_, v_ in tab.items() if not k_.startswith("__")})
    # early exits that disappeared from a function (reviewed number of break / return / `?` edges out of effectful loops - current number): budget for while-style adapters
    rev_exits = tab.get("__early_exits__", {})
    cur_exits = early_exit_counts(prog)
    n = 0
    for m, ads in sorted(cm.items()):
        if not any((m + "::").startswith(p if p.endswith("::") else p + "::") or m == p.rstrip(":") or m.startswith(p) for p in prefixes):
            continue
        for ad, k in sorted(ads.items()):
            n += 1
            w = rm.get(m, {}).get(ad, 0)
            budget = 0
            if ad in ("take_while", "map_while", "skip_while"):
                for root, cnt in rev_exits.items():
                    if _module_of(root) == m:
                        budget += max(0, cnt - cur_exits.get(root, 0))
            culprits = sorted(r for r, a2 in cur.items() if _module_of(r) == m and a2.get(ad, 0) > (tab.get(r) or {}).get(ad, 0))
            o.check(k <= w + budget, "%s|%s" % (culprits[0] if culprits and k > w + budget else m, ad), "module %s uses .%s() %d time(s) (reviewed: %d%s)" % (m, ad, k, w, ", +%d for respelled early-exit loops" % budget if budget else ""), "",
                    {"now": k, "reviewed": w, "functions": culprits[:3]},
                    fail_what="%s cuts a sequence short with a new .%s() (module %s: %d use(s), reviewed %d): elements behind the cut are not processed" % (", ".join(culprits[:2]) or m, ad, m, k, w))
    # positions counted AFTER elements were dropped: `.filter(..).enumerate()` / `.skip(..).enumerate()` numbers the survivors, not the original positions - wrong whenever the
    # index is used to address a parallel collection (none on the reviewed tree)
    for d, b in sorted(prog.bodies.items()):
        if b.generated or not d.startswith(("alpenglow::", "<alpenglow::")) or "::tests::" in d:
            continue
        root = K.fshort(d.split("::{closure")[0])
        m = _module_of(root)
        if not any(m.startswith(p) for p in prefixes):
            continue
        for c in b.calls():
            if c.name.endswith("Iterator::enumerate") and c.args:
                inner = [x[1].rsplit("::", 1)[-1] for x in mir.walk(b.operand_term(c.args[0])) if isinstance(x, tuple) and x and x[0] == "call"]
                bad = [a for a in inner if a in ("filter", "filter_map", "skip", "skip_while", "step_by", "take_while", "flatten", "flat_map")]
                if bad:
                    o.fail("%s|enumerate-after-%s" % (root, bad[0]), "%s numbers the elements that survive .%s(): the index no longer is the element's position in the original sequence" % (root, bad[0]), c.span)
    o.ok("scanned", "%d (module, adapter) pairs in %s" % (n, ", ".join(prefixes)), "", nontrivial=True)
    return o


# ------------------------------------------------------------------------------------ process-wide state
REVIEWED_STATICS = ()   # the library of the reviewed tree has no `static` item at all (the simulation data tables live behind the `simulations` feature)


def ob_no_globals(run, oid, prefixes, why):
    """components keep their state in themselves: no `static` (incl. LazyLock / OnceLock / thread_local! caches and registries) in the property's modules"""
    prog = run.program("lib")
    o = run.ob(oid, "no process-wide state: the property's modules define no `static` item (reviewed: none in the library)", why, floor=1)
    n = 0
    for d, r in sorted(prog.statics.items()):
        sd = d.replace("alpenglow::", "", 1)
        if not d.startswith(("alpenglow::", "<alpenglow::")) or not any(sd.startswith(p) for p in prefixes):
            continue
        n += 1
        o.check(sd in REVIEWED_STATICS, "static|%s" % sd, "static %s is reviewed" % sd, r.get("span", ""), {"ty": r.get("ty", "")[:100]},
                fail_what="new process-wide state `static %s: %s`: what a component computes now depends on what else was constructed or run in the same process" % (sd, r.get("ty", "")[:80]))
    o.ok("scanned", "%d static item(s) under %s" % (n, ", ".join(prefixes)), "", nontrivial=True)
    return o
