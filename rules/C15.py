"""C15 — Merkle proofs verify exactly for the leaf at the stated position (structural part)."""
import hashlib

from engine import guards as G
from engine import mir, paths
from . import common as K
from .common import A, fshort

EXPLANATION = (
    "Decides O15.1-O15.5: index exhaustion (every verdict that rests on a proof walk consuming one index bit per proof "
    "element also depends on the residual index: a comparison on the walking variable guards the positive result, or the "
    "verdict function compares a term of the index with the proof length); the length bound is part of both verdicts and "
    "dominates EMPTY_ROOTS[height]; side selection and label table (even bit => hash_pair(node, sibling), odd => "
    "hash_pair(sibling, node); hash_pair = H(LEFT||l||RIGHT||r), hash_leaf = H(LEAF||data), labels pairwise different); "
    "last-leaf rule (even side sibling must equal EMPTY_ROOTS[height]) and the EMPTY_ROOTS recurrence recomputed with "
    "hashlib from the const-evaluated bytes; callers pass the index they act on. Does NOT decide that create_proof "
    "produces verifying proofs for all sizes, nor SHA-256 collision resistance."
)

M = A + "crypto::merkle::"
MT = M + "MerkleTree::"


def parity_of(a, body=None):
    """'even' / 'odd' when the guard atom tests x % 2 (or x & 1), in any spelling: integer switch on the remainder, or == / != against 0 / 1"""
    def is_par(t):
        t = K.peel(t)
        return isinstance(t, tuple) and t and t[0] == "bin" and t[1] in ("Rem", "BitAnd") and K.const_eval(t[3]) == (2 if t[1] == "Rem" else 1)
    if a[0] == "switch" and is_par(a[1][0]):
        vals = a[1][1]
        if vals == (0,):
            return "even"
        if vals == (1,):
            return "odd"
        if vals == ("else",) and body is not None and len(a) > 3:
            arms = body.switch_arm_values(a[3])
            return "odd" if arms == [0] else "even" if arms == [1] else None
        return None
    if a[0] == "eq":
        x, y = a[1]
        for (p, c) in ((x, y), (y, x)):
            if is_par(p) and K.const_eval(c) in (0, 1):
                zero = K.const_eval(c) == 0
                return "even" if (zero == a[2]) else "odd"
    return None


def walkers(prog, prefix=None):
    """bodies in crypto::merkle that consume an index bit per proof element: contain `x % 2` and `x / 2` on a local fed from param index"""
    out = []
    for b in K.bodies_in(prog, prefix or M):
        rem = div = None
        for (bb, i, dst, rv, sp) in b.assignments():
            if rv["k"] == "bin" and rv["op"] in ("Rem", "BitAnd", "Div", "Shr"):
                a = b.operand_term(rv["a"])
                c = b.operand_term(rv["b"])
                if c[0] == "const" and c[2] in (1, 2):
                    pv = b.provenance(a)
                    if "index" in pv["params"] | pv["locals"] or "i" in pv["locals"]:
                        if rv["op"] in ("Rem", "BitAnd"):
                            rem = (bb, a)
                        else:
                            div = (bb, a)
        if rem and div:
            out.append((b, rem, div))
    return out


from .termeval import Unknown, Overflow, ev as eval_idx, ev_atom as eval_atom  # noqa: E402,F401


def make_env(body, idxpos, proofpos, idx, L, walking=None, walk_val=None):
    def env(t):
        if not isinstance(t, tuple) or not t:
            return None
        if walking is not None and t == walking:
            return walk_val
        if t[0] == "param" and t[1] == idxpos:
            return idx
        if (t[0] == "call" and t[1].rsplit("::", 1)[-1] == "len") or (t[0] == "un" and "PtrMetadata" in str(t[1])):
            if K.mentions_arg(body, t, proofpos) and not K.mentions_arg(body, t, idxpos):
                return L
        return None
    return env


DOMAIN = [(idx, L) for L in range(0, 6) for idx in list(range(0, 2 ** (L + 1) + 3)) + [2 ** 32, 2 ** 32 + 1, 2 ** 32 + 2 ** L - 1, 2 ** 40 + 3, 2 ** 63, 2 ** 64 - 1]]


def index_domain_wrong(b, prog, walking, div_bb, idxpos, proofpos):
    """(index, len) pairs on which an Option-returning walker alone deviates from 'accepted <=> index < 2^len'"""
    acc = walker_accepts(b, prog, walking, div_bb, idxpos, proofpos)
    return [(idx, L) for (idx, L) in DOMAIN if (True if acc is None else acc(idx, L)) != (idx < 2 ** L)]


def some_sites(b, prog):
    """where an Option-returning function answers Some: [(bb, span, atoms holding there)] - `Some(..)` aggregates assigned to the return
    place, and `cond.then(|| ..)` / `cond.then_some(..)` results (Some exactly when cond holds)"""
    out = []
    for (bb, rv, sp, dst) in b.aggregates("core::option::Option", "Some"):
        if dst["l"] == 0:
            out.append((bb, sp, list(G.guard_atoms(b, bb, prog))))
    for c in b.calls():
        if c.name.rsplit("::", 1)[-1] in ("then", "then_some") and "bool" in c.name and c.dst["l"] == 0 and not c.dst["p"]:
            pred, args, pol = G.norm_bool(b.operand_term(c.args[0]), True)
            out.append((c.bb, c.span, list(G.guard_atoms(b, c.bb, prog)) + [(pred, args, pol, c.bb)]))
    return out


def walker_accepts(b, prog, walking, div_bb, idxpos, proofpos):
    """for an Option-returning walker: function (idx, L) -> bool, the conjunction of all index conditions guarding its Some
    results; None when there are none; raises Unknown when a condition cannot be evaluated."""
    somes = some_sites(b, prog)
    if not somes:
        return None
    from_div = b.reachable(div_bb)
    per_some = []
    for (bb, sp, ats_) in somes:
        rel = []
        for a in ats_:
            if a[0] not in ("eq", "lt", "is_some"):
                continue
            if any(K.mentions(x, lambda t: t[0] == "bin" and t[1] in ("Rem", "BitAnd")) for x in a[1]):
                continue
            m_walk = any(K.mentions(x, lambda t: t == walking) for x in a[1])
            m_idx = any(K.mentions_arg(b, x, idxpos) for x in a[1])
            if not (m_walk or m_idx):
                continue
            s_bb = a[3]
            where = None
            if m_walk and walking[0] != "param":
                after = s_bb in from_div
                before = div_bb in b.reachable(s_bb)
                if after and before:
                    raise Unknown("condition on the walking variable inside the loop")
                where = "post" if after else "pre"
            rel.append((a, where))
        per_some.append(rel)
    if not any(per_some):
        return None

    def acc(idx, L):
        res = False
        for rel in per_some:
            ok = True
            for (a, where) in rel:
                wv = (idx >> L) if where == "post" else idx
                env = make_env(b, idxpos, proofpos, idx, L, walking, wv)
                try:
                    if eval_atom(a[0], a[1], env) != a[2]:
                        ok = False
                        break
                except Overflow:
                    # the condition itself cannot be evaluated for this (index, len) (it would panic / is behind another test): not a way to accept
                    ok = False
                    break
            res = res or ok
        return res
    return acc


def verdict_accepts(cb, prog, wnames, idxpos, proofpos):
    """for a bool verdict function: (idx, L) -> 'can the verdict be true for some value of the non-index conditions'"""
    tt = paths.bool_truth_table(cb, prog)
    if tt is None:
        raise Unknown("no truth table for " + cb.defpath)
    terms, table = tt
    idx_terms = []
    for i, t in enumerate(terms):
        if not (isinstance(t, tuple) and t and t[0] in ("eq", "lt", "is_some")):
            continue
        args = t[1]
        if any(K.mentions_arg(cb, x, idxpos) for x in args if isinstance(x, tuple)) and not any(
                any(K.mentions_call(x, w.rsplit("::", 1)[-1]) for w in wnames) for x in args if isinstance(x, tuple)):
            idx_terms.append(i)

    def acc(idx, L):
        env = make_env(cb, idxpos, proofpos, idx, L)
        fixed = {}
        for i, t in enumerate(terms):
            if not (isinstance(t, tuple) and t and t[0] in ("eq", "lt", "is_some", "bool")):
                continue
            try:
                fixed[i] = eval_atom(t[0], t[1], env)
            except Overflow:
                pass        # only evaluated behind another condition (short circuit): leave it free for this valuation
            except Unknown:
                if i in idx_terms:
                    raise   # an index condition we cannot evaluate: exactness is not decided
                # a condition that does not depend on (index, len) alone (hash equality ..): free
        return any(v for asg, v in table.items() if all(asg[i] == fv for i, fv in fixed.items()))
    return acc, len(idx_terms)


def check(run, prefix="O15", compose=True):
    from . import detectors as _DN
    _DN.ob_new_fields(run, prefix + ".8", ['crypto::merkle', 'crypto::hash'], 'a tree or proof type that remembers anything between calls makes verification depend on call history')
    from . import detectors as _DC
    _DC.ob_narrowing_casts(run, prefix + ".7", ['crypto::merkle', 'crypto::hash'], "level offsets and lengths index the node array: a truncated offset makes create_proof hand out siblings of the wrong level for trees beyond the narrow type's range")
    from . import detectors as _DS
    _DS.ob_structural_impls(run, prefix + ".6", ['crypto::hash', 'crypto::merkle'], 'proof verification ends in `derived_root == root`: an equality that ignores part of the hash accepts altered roots')
    P = prefix
    prog = run.program("lib")

    # ------------------------------------------------------------------ O15.1
    o = run.ob(P + ".1", "index exhaustion: the verdict of every proof check depends on the residual index, not only on its low bits",
               "otherwise index + k*2^len verifies for every k: positions beyond the tree's width are accepted and the slice count of a block can be misreported", floor=2)
    ws = walkers(prog)
    if len(ws) < 2:
        o.missing("two proof walkers (derive_hash_root, derive_hash_root_last) in crypto::merkle")
    wnames = set(b.defpath for (b, _r, _d) in ws)
    for (b, rem, div) in ws:
        key = fshort(b.defpath)
        walking = rem[1]
        # (a) in the walker: a comparison on the walking variable / index guards every non-None, non-panic return
        ok_a = False
        if "Option" in b.rec.get("sig", "").split("->")[-1]:
            somes = some_sites(b, prog)
            good = 0
            for (bb, sp, ats_) in somes:
                for a in ats_:
                    if a[0] in ("eq", "lt") and any(x == walking or K.mentions_arg(b, x, 2) for x in a[1]) and not any(K.mentions(x, lambda t: t[0] == "bin" and t[1] in ("Rem", "BitAnd")) for x in a[1]):
                        good += 1
                        break
            ok_a = bool(somes) and good == len(somes)
        # (b) every verdict caller compares a term of the index outside the walker call
        callers = [c for c in prog.callers_of(b.defpath) if c.body.defpath.startswith(M)]
        ok_b = True
        verdicts = 0
        details = []
        for c in callers:
            cb = c.body
            ret = cb.rec.get("sig", "").split("->")[-1].strip()
            if ret != "bool":
                # non-verdict caller (e.g. derive_root): its own callers are checked by C12/O15.5
                continue
            verdicts += 1
            tt = paths.bool_truth_table(cb, prog)
            dep = False
            if tt is not None:
                terms, table = tt
                for i, t in enumerate(terms):
                    tt_terms = t[1] if isinstance(t, tuple) and t and t[0] in ("eq", "lt") else (t,)
                    if any(K.mentions_arg(cb, x, 2) for x in tt_terms if isinstance(x, tuple)) and not any(
                            any(K.mentions_call(x, w.rsplit("::", 1)[-1]) for w in wnames) for x in tt_terms if isinstance(x, tuple)):
                        # verdict depends on it?
                        for asg, v in table.items():
                            flipped = tuple((not x) if j == i else x for j, x in enumerate(asg))
                            if table.get(flipped) != v:
                                dep = True
            details.append((fshort(cb.defpath), dep))
            if not dep:
                ok_b = False
        # (c) exactness of the accepted index domain: evaluate the index conditions of the walker and of each verdict function
        #     over index in [0, 2^(len+1)+2], len in [0, 5]; accepted  <=>  index < 2^len
        try:
            pnames = {b.local_name(i): i for i in range(1, b.argc + 1)}
            pv = b.provenance(walking)
            ip = [pnames[n] for n in pv["params"] if n in pnames]
            pp = [i for i in range(1, b.argc + 1) if i not in ip and any(
                K.mentions_arg(b, b.operand_term(x), i) for c in b.calls() if c.name.rsplit("::", 1)[-1] in ("as_ref", "iter", "into_iter") for x in c.args)]
            if len(ip) != 1 or len(pp) != 1:
                raise Unknown("cannot identify index/proof parameters: %r %r" % (ip, pp))
            idxpos, proofpos = ip[0], pp[0]
            wacc = walker_accepts(b, prog, walking, div[0], idxpos, proofpos)
            vaccs = []
            for c in callers:
                cb = c.body
                if cb.rec.get("sig", "").split("->")[-1].strip() != "bool":
                    continue
                ai = cb.operand_term(c.args[idxpos - 1])
                ap = cb.operand_term(c.args[proofpos - 1])
                if ai[0] != "param" or K.peel(ap)[0] != "param":
                    raise Unknown("verdict function passes a computed index/proof")
                va, n_terms = verdict_accepts(cb, prog, wnames, ai[1], K.peel(ap)[1])
                vaccs.append((fshort(cb.defpath), va, n_terms))
            wrong = []
            for (idx, L) in DOMAIN:
                w = True if wacc is None else wacc(idx, L)
                want = idx < 2 ** L
                if vaccs:
                    for (vn, va, _n) in vaccs:
                        got = w and va(idx, L)
                        if got != want:
                            wrong.append((vn, idx, L, got))
                elif w != want:
                    wrong.append((key, idx, L, w))
            o.check(not wrong, key + "|index-domain-exact", "index conditions accept exactly 0 <= index < 2^len (evaluated for len 0..5, index 0..2^(len+1)+2)", b.span,
                    {"first_wrong": [{"fn": x[0], "index": x[1], "proof_len": x[2], "accepted": x[3]} for x in wrong[:4]], "verdict_fns": [(x[0], x[2]) for x in vaccs]})
        except Unknown as e:
            run.notes.append(P + ".1 %s: exactness of the index domain not decided (%s); only dependence on the residual is checked" % (key, e))
        if ok_a:
            o.ok(key + "|residual-checked-in-walk", "the positive result is guarded by a comparison on the residual index", b.span)
        elif verdicts and ok_b:
            o.ok(key + "|residual-checked-by-verdict", "every verdict function over this walk also tests the index against the proof length", b.span, {"verdict_fns": details})
        else:
            o.fail(key + "|residual-ignored", "the index is consumed bit by bit and the residual is never examined (index + k*2^len verifies)", b.span, {"verdict_fns": details})

    # ------------------------------------------------------------------ O15.2
    o = run.ob(P + ".2", "proof length <= EMPTY_ROOTS.len() is part of both verdicts and dominates EMPTY_ROOTS[height]",
               "an over-long proof indexes EMPTY_ROOTS out of range (panic on hostile input) or walks beyond the maximal height", floor=3)
    b = prog.body(MT + "check_hash_proof")
    if b is None:
        o.missing("MerkleTree::check_hash_proof")
    else:
        tt = paths.bool_truth_table(b, prog)
        ok = False
        if tt:
            terms, table = tt
            for i, t in enumerate(terms):
                if isinstance(t, tuple) and t[0] == "lt" and any("EMPTY_ROOTS" in mir.show(x) for x in t[1]) and any(K.mentions_arg(b, x, 4) for x in t[1]):
                    # lt(len(EMPTY), len(proof)) true => verdict false
                    ok = all(not v for asg, v in table.items() if asg[i])
        o.check(ok, "check_hash_proof|length-bound", "verdict is false whenever proof.len() > EMPTY_ROOTS.len()", b.span)
    b = prog.body(MT + "derive_hash_root_last")
    if b is None:
        o.missing("MerkleTree::derive_hash_root_last")
    else:
        idx = [bl["id"] for bl in b.blocks if bl["id"] in b.reach() and bl["term"]["k"] == "assert" and bl["term"]["ak"] == "BoundsCheck"]
        if not idx:
            # zip form (`proof.iter().zip(EMPTY_ROOTS.iter())`): nothing is indexed, so nothing can be indexed out of range; the walk must then still
            # refuse an over-long proof up front (zip would silently stop after EMPTY_ROOTS.len() entries and accept a proof with trailing junk)
            nones = [bb2 for (bb2, rv, sp, dst) in b.aggregates("core::option::Option", "None")]
            lenchk = False
            for bb2 in nones:
                for a in G.guard_atoms(b, bb2, prog):
                    if a[0] == "lt" and a[2] is True and any("EMPTY_ROOTS" in mir.show(x) for x in a[1]) and any(K.mentions_arg(b, x, 3) for x in a[1]):
                        lenchk = True
            zipped = any(c.name.endswith("Iterator::zip") and any("EMPTY_ROOTS" in mir.show(b.operand_term(a)) for a in c.args) for c in b.calls())
            o.check(zipped and lenchk, "derive_hash_root_last|indexes-empty-roots", "EMPTY_ROOTS is walked in step with the proof (zip) behind the up-front length check, or indexed", b.span)
            o.ok("derive_hash_root_last|bounds|bb", "no indexing of EMPTY_ROOTS: cannot go out of range", b.span, nontrivial=False)
        else:
            o.check(True, "derive_hash_root_last|indexes-empty-roots", "EMPTY_ROOTS[height] is indexed in the walk", b.span)
        for bb in idx:
            g = None
            for a in G.guard_atoms(b, bb, prog):
                if a[0] == "lt" and a[2] is False and any("EMPTY_ROOTS" in mir.show(x) for x in a[1]) and any(K.mentions_arg(b, x, 3) for x in a[1]):
                    g = a
            o.check(g is not None, "derive_hash_root_last|bounds|bb", "indexing is dominated by !(EMPTY_ROOTS.len() < proof.len())", b.blocks[bb]["term"].get("sp", ""), {"guards": K.show_atoms(prog, b, bb)})

    # ------------------------------------------------------------------ O15.3
    o = run.ob(P + ".3", "side selection and domain-separation labels",
               "swapped sides or a shared label let a proof for one position/level verify for another", floor=11)
    for (b, rem, div) in ws:
        key = fshort(b.defpath)
        hp = b.calls_to(MT + "hash_pair")
        ev, od, unk = [], [], []
        for c in hp:
            ps = set(p for p in (parity_of(a, b) for a in G.guard_atoms(b, c.bb, prog)) if p)
            (ev if ps == {"even"} else od if ps == {"odd"} else unk).append(c)
        if not ev and not od:
            o.fail(key + "|parity-switch", "no hash_pair call is selected by the parity of the index", b.span)
            continue
        o.check(not unk, key + "|parity-switch", "every hash_pair call in the walk is selected by the parity of the walking index", b.span, {"unselected": [c.span for c in unk]})
        # the accumulator: the local that receives the hash_pair results
        node_locals = set()
        for c in hp:
            node_locals.add(c.dst["l"])
            for (bb2, i2, dst2, rv2, sp2) in b.assignments():
                if rv2["k"] == "use" and (rv2["a"].get("m") or rv2["a"].get("c") or {}).get("l") == c.dst["l"] and not dst2["p"]:
                    node_locals.add(dst2["l"])

        def is_node(t):
            return K.mentions(t, lambda x: x[0] == "local" and x[1] in node_locals)
        ok_e = bool(ev) and all(is_node(b.operand_term(c.args[0])) and not is_node(b.operand_term(c.args[1])) for c in ev)
        ok_o = bool(od) and all(is_node(b.operand_term(c.args[1])) and not is_node(b.operand_term(c.args[0])) for c in od)
        o.check(ok_e, key + "|even-left", "even bit: hash_pair(node, sibling)", b.span, {"calls": [mir.show(b.call_term(c.bb, c.raw))[:120] for c in ev]})
        o.check(ok_o, key + "|odd-right", "odd bit: hash_pair(sibling, node)", b.span, {"calls": [mir.show(b.call_term(c.bb, c.raw))[:120] for c in od]})
        # the walking variable is halved each round
        d = b.operand_term({"c": {"l": 0, "p": []}}) if False else None
        halves = [1 for (bb, i, dst, rv, sp) in b.assignments() if rv["k"] == "bin" and rv["op"] in ("Div", "Shr") and b.operand_term(rv["a"]) == rem[1]]
        o.check(bool(halves), key + "|halves", "the same variable is halved (i /= 2) every round", b.span)
    labels = {}
    for nm in ("LEAF_LABEL", "LEFT_LABEL", "RIGHT_LABEL"):
        r = prog.const_rec(M + nm)
        if r is None or "hex" not in r:
            o.missing("const " + nm)
        else:
            labels[nm] = bytes.fromhex(r["hex"])
    if len(labels) == 3:
        o.check(len(set(labels.values())) == 3 and all(len(v) == 32 for v in labels.values()), "labels|distinct", "the three 32-byte labels are pairwise different", "", {k: v.decode("latin1") for k, v in labels.items()})
    for fn, want in (("hash_pair", ["LEFT_LABEL", "#1", "RIGHT_LABEL", "#2"]), ("hash_leaf", ["LEAF_LABEL", "#1"])):
        b = prog.body(MT + fn)
        if b is None:
            o.missing("MerkleTree::" + fn)
            continue
        ha = [c for c in b.calls() if c.name == A + "crypto::hash::hash_all"]
        ok = False
        got = None
        if len(ha) == 1:
            t = b.operand_term(ha[0].args[0])
            arrs = [x for x in mir.walk(t) if isinstance(x, tuple) and x and x[0] == "array"]
            if arrs:
                got = []
                for el in arrs[0][1]:
                    cs = [x for x in mir.consts_in(el)]
                    nm = None
                    for x in cs:
                        nm = (x[1] if x[0] == "cref" else (x[3] if len(x) > 3 else "")).rsplit("::", 1)[-1] or nm
                    if nm:
                        got.append(nm)
                    else:
                        # data element: which parameter (by position) does it come from
                        ps = [i for i in range(1, b.argc + 1) if K.mentions(el, lambda t, i=i: t[0] == "param" and t[1] == i)]
                        got.append("#%d" % ps[0] if len(ps) == 1 else "?")
                ok = got == want and ha[0].dst["l"] == 0
        o.check(ok, "%s|layout" % fn, "%s = hash_all([%s])" % (fn, ", ".join(want)), b.span, {"got": got})
        # and that is the ONLY result: every input is hashed under its label (no shortcut returning the input itself)
        from . import detectors as DET
        rdefs = b.defs().get(0, [])
        uncond = len(ha) == 1 and not DET.extra_guards(prog, b, ha[0].bb, [])
        o.check(len(rdefs) == 1 and uncond, "%s|always-labelled" % fn, "%s has a single result, the labelled hash, computed unconditionally (domain separation holds for every input length)" % fn, b.span,
                {"result_definitions": len(rdefs)})
    hb = prog.body(A + "crypto::hash::hash_all")
    if hb is None:
        o.missing("crypto::hash::hash_all")
    else:
        cs = hb.mentioned_fns()
        o.check(any("Digest" in c and c.endswith("update") or c.endswith("::update") for c in cs) and any(c.endswith("finalize") for c in cs), "hash_all|sha256-concat", "hash_all = SHA-256 over the concatenation, in order", hb.span)

    # ------------------------------------------------------------------ O15.4
    o = run.ob(P + ".4", "last-leaf rule: on an even bit the sibling must be the canonical empty subtree of that height; EMPTY_ROOTS satisfies its recurrence",
               "otherwise a proof 'this is the last leaf' verifies although non-empty leaves exist to the right: the slice count is misreported", floor=34)
    b = prog.body(MT + "derive_hash_root_last")
    if b is not None:
        nones = [(bb, sp) for (bb, rv, sp, dst) in b.aggregates("core::option::Option", "None") if dst["l"] == 0]
        ok = False
        for (bb, sp) in nones:
            atoms = G.guard_atoms(b, bb, prog)
            parity_even = any(parity_of(a, b) == "even" for a in atoms)
            ne_empty = any(a[0] == "eq" and a[2] is False and any("EMPTY_ROOTS" in mir.show(x) for x in a[1]) for a in atoms)
            if parity_even and ne_empty:
                ok = True
        o.check(ok, "derive_hash_root_last|even-sibling-empty", "even bit and sibling != EMPTY_ROOTS[height] => None", b.span)
        # and the node is then combined with the canonical empty root (or the equal sibling)
    r = prog.const_rec(M + "EMPTY_ROOTS")
    if r is None or "hex" not in r or len(labels) != 3:
        o.missing("const EMPTY_ROOTS (bytes)")
    else:
        raw = bytes.fromhex(r["hex"])
        n = len(raw) // 32
        e = hashlib.sha256(labels["LEAF_LABEL"] + b"").digest()
        for h in range(n):
            got = raw[32 * h:32 * h + 32]
            o.check(got == e, "EMPTY_ROOTS|%d" % h, "EMPTY_ROOTS[%d] == %s" % (h, "H(LEAF||'')" if h == 0 else "H(LEFT||E[%d]||RIGHT||E[%d])" % (h - 1, h - 1)), r["span"],
                    {"expected": e.hex(), "found": got.hex()})
            e = hashlib.sha256(labels["LEFT_LABEL"] + e + labels["RIGHT_LABEL"] + e).digest()
        mh = prog.const_int(M + "MAX_MERKLE_TREE_HEIGHT")
        o.check(mh == n, "EMPTY_ROOTS|len", "EMPTY_ROOTS has MAX_MERKLE_TREE_HEIGHT entries", r["span"], {"n": n, "MAX_MERKLE_TREE_HEIGHT": mh})

    # ------------------------------------------------------------------ O15.5
    o = run.ob(P + ".5", "verdict plumbing: check_proof / check_proof_last hash the given leaf and return the verdict of the hash-level check for the same index/root/proof",
               "a wrapper passing another index or ignoring the result defeats the check", floor=2)
    def last_verdict(b, hashed):
        """the body decides 'last leaf' correctly: true only when derive_hash_root_last(hash, index, proof) is Some(d) and d == root"""
        fam = prog.family(b.defpath)
        ok = True
        nrows = 0
        for atoms, ret, blocks in paths.decision_table(b, prog):
            nrows += 1
            if ret is not None and ret[0] == "const" and ret[1] == "bool" and not ret[2]:
                continue
            conds = list(atoms)
            if not (ret is not None and ret[0] == "const"):
                if ret is None:
                    return False
                conds.append(G.norm_bool(ret, True))
            derived = any(c[0] == "is_some" and c[2] is True and K.mentions_call(c[1][0], "derive_hash_root_last") for c in conds)
            cmp_root = any(c[0] == "eq" and c[2] is True and any(K.mentions_arg(b, x, 3) for x in c[1]) and any(K.mentions_call(x, "derive_hash_root_last") for x in c[1]) for c in conds)
            via_closure = False
            for c in conds:
                if c[0] == "bool" and c[2] is True and K.mentions_call(c[1][0], "is_some_and") and K.mentions_call(c[1][0], "derive_hash_root_last"):
                    via_closure = any(any(x.name.rsplit("::", 1)[-1] == "eq" for x in fb.calls()) for fb in fam if fb.is_closure)
            if not ((derived and cmp_root) or via_closure):
                ok = False
        dc = [c for c in b.calls() if c.name == MT + "derive_hash_root_last"]
        okargs = len(dc) == 1
        if okargs:
            a_ = [b.operand_term(x) for x in dc[0].args]
            okargs = (K.mentions_call(a_[0], "hash_leaf") if hashed else K.is_arg(b, a_[0], 1)) and K.is_arg(b, a_[1], 2) and K.is_arg(b, a_[2], 4)
        return ok and nrows >= 1 and okargs

    for fn, inner in (("check_proof", "check_hash_proof"), ("check_proof_last", "check_hash_proof_last")):
        b = prog.body(MT + fn)
        if b is None:
            o.missing("MerkleTree::" + fn)
            continue
        cs = b.calls_to(MT + inner)
        if not cs and fn == "check_proof_last" and prog.body(MT + inner) is None:
            # the hash-level helper was folded into the wrapper: the wrapper itself must decide as the helper did
            o.check(last_verdict(b, True), "%s|delegates" % fn, "%s hashes the leaf and is true only when derive_hash_root_last(hash, index, proof) == Some(root)" % fn, b.span)
            continue
        ok = len(cs) == 1 and cs[0].dst["l"] == 0
        if ok:
            c = cs[0]
            a = [b.operand_term(x) for x in c.args]
            ok = K.mentions_call(a[0], "hash_leaf") and a[1] == ("param", 2, b.local_name(2)) and a[2][0] == "param" and a[3][0] == "param"
        o.check(bool(ok), "%s|delegates" % fn, "%s(leaf, index, root, proof) = %s(hash_leaf(leaf), index, root, proof)" % (fn, inner), b.span)
    b = prog.body(MT + "check_hash_proof_last")
    if b is not None:
        o.check(last_verdict(b, False), "check_hash_proof_last|verdict", "verdict is true only when derive_hash_root_last(..) is Some(derived) and derived == root", b.span)
    else:
        o.ok("check_hash_proof_last|verdict", "folded into check_proof_last (checked there)", "", nontrivial=False)

    # "callers pass the index they act on" / "the number of slices cannot be misreported": the only consumer of the proof verdicts is the
    # repair requester - what it records and stores must be behind check_proof_last / check_proof for the requested block and index
    if compose:
        from . import C14
        want = (prefix + ".9.1", prefix + ".9.3")       # store-only-after-proof, proven slice count
        with run.restricted(lambda oid: oid in want):
            C14.check(run, prefix=prefix + ".9", compose=False)
