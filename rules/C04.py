"""C04 — vote admission: one countable vote per validator, slashing flagged order-free (structural part)."""
import itertools

from engine import guards as G
from engine import mir, paths
from . import common as K
from . import detectors as D
from .common import POOL, SLOT_STATE, fshort

EXPLANATION = (
    "Decides O4.1-O4.4: the decision tables of SlotState::check_slashable_offence and should_ignore_vote are extracted "
    "by enumerating the acyclic CFG paths of the two functions (guards normalised, no solver, no execution) and "
    "evaluated on all 5 x 3 x 3 x 2 x 2 x 2 = 360 abstract (new vote kind, stored votes of that validator) rows; each row's "
    "outcome must lie in the set the property text allows (four offences, symmetric in arrival order; duplicates and the "
    "two benign overlaps refused without a report; legitimate sequences neither refused nor reported). Plus: filter order "
    "in Pool::add_vote (window guard -> slashable -> duplicate -> count), writers of the running totals, index provenance. "
    "Does NOT decide that the stake totals equal an independent recount over all histories."
)

SS = SLOT_STATE + "SlotState"
SV = SLOT_STATE + "SlotVotes"
SVS = SLOT_STATE + "SlotVotedStake"
PI = POOL + "PoolImpl"

KINDS = ["Notar", "NotarFallback", "Skip", "SkipFallback", "Final"]
ROWS = [dict(kind=k, notar=n, nf=f, skip=s, skip_fallback=sf, finalize=fi)
        for k, n, f, s, sf, fi in itertools.product(KINDS, ["none", "same", "other"], ["none", "this", "other"], [False, True], [False, True], [False, True])]


# ------------------------------------------------------------------ reference tables written from the property text
def spec_offences(r):
    """set of offences the property allows/requires for admitting a vote of r.kind given the stored votes"""
    k = r["kind"]
    out = set()
    has_notar = r["notar"] != "none"
    has_nf = r["nf"] != "none"
    if k == "Notar" and r["notar"] == "other":
        out.add("NotarDifferentHash")                     # notarizing two blocks
    if (k == "Notar" and r["skip"]) or (k == "Skip" and has_notar):
        out.add("SkipAndNotarize")                        # skip together with notarize
    if (k in ("Skip", "SkipFallback") and r["finalize"]) or (k == "Final" and (r["skip"] or r["skip_fallback"])):
        out.add("SkipAndFinalize")                        # finalize together with any skip / skip-fallback
    if (k == "NotarFallback" and r["finalize"]) or (k == "Final" and has_nf):
        out.add("NotarFallbackAndFinalize")               # finalize together with notar-fallback
    return out


def spec_ignore(r):
    """is the vote a repeat of its class (exact or equivalent)? returns reason or None"""
    k = r["kind"]
    if k == "Notar":
        if r["notar"] != "none":
            return "Duplicate"
        if r["nf"] == "this":
            return "NotarNotarFallback"
    elif k == "NotarFallback":
        if r["nf"] == "this":
            return "Duplicate"
        if r["notar"] == "same":
            return "NotarNotarFallback"
    elif k == "Skip":
        if r["skip"]:
            return "Duplicate"
        if r["skip_fallback"]:
            return "SkipSkipFallback"
    elif k == "SkipFallback":
        if r["skip_fallback"]:
            return "Duplicate"
        if r["skip"]:
            return "SkipSkipFallback"
    elif k == "Final":
        if r["finalize"]:
            return "Duplicate"
    return None


# legitimate sequences of a correct validator (stored -> new): never refused nor reported
LEGIT = [
    dict(kind="NotarFallback", notar="other", nf="none", skip=False, skip_fallback=False, finalize=False),   # notarize, then notar-fallback for another block
    dict(kind="NotarFallback", notar="other", nf="other", skip=False, skip_fallback=False, finalize=False),  # ... for a second other block
    dict(kind="SkipFallback", notar="other", nf="none", skip=False, skip_fallback=False, finalize=False),    # notarize then skip-fallback
    dict(kind="SkipFallback", notar="same", nf="none", skip=False, skip_fallback=False, finalize=False),
    dict(kind="NotarFallback", notar="none", nf="none", skip=True, skip_fallback=False, finalize=False),     # skip then notar-fallback
    dict(kind="Final", notar="same", nf="none", skip=False, skip_fallback=False, finalize=False),            # notarize then finalize
    dict(kind="Final", notar="other", nf="none", skip=False, skip_fallback=False, finalize=False),
]


class Unknown(Exception):
    pass


def _votes_field(term):
    """term is Index(self.votes.F, v): return F"""
    t = K.peel(term)
    while isinstance(t, tuple) and t[0] in ("variant", "field") and not (t[0] == "field" and t[3] == SV):
        t = t[1]
    if isinstance(t, tuple) and t[0] == "call" and (t[1].endswith("Index<I>>::index") or t[1].endswith("::index")):
        base = K.peel(t[2][0])
        if base[0] == "field" and base[3] == SV:
            idx = t[2][1]
            if not (K.mentions_call(idx, "signer") or K.mentions_call(idx, "as_usize")):
                raise Unknown("index of votes.%s is not the vote's signer: %s" % (base[2], mir.show(idx)))
            return base[2]
    if isinstance(t, tuple) and t[0] == "index" and t[1][0] == "field" and t[1][3] == SV:
        return t[1][2]
    raise Unknown("not a per-validator vote slot: " + mir.show(term))


def eval_atom(prog, body, a, r):
    """truth value of a normalised atom under abstract row r"""
    pred, args, pol = a[0], a[1], a[2]
    if pred == "variant":
        x = args[0]
        if K.mentions_arg(body, x, 2):
            return (r["kind"] in args[1]) == pol
        raise Unknown("variant test on " + mir.show(x))
    if pred == "is_some":
        f = _votes_field(args[0])
        v = {"notar": r["notar"] != "none", "skip": r["skip"], "skip_fallback": r["skip_fallback"], "finalize": r["finalize"]}.get(f)
        if v is None:
            raise Unknown("is_some on votes.%s" % f)
        return v == pol
    if pred == "eq":
        a0, a1 = args
        # block_hash(new notar vote) == block_hash(stored notar vote)
        if all(K.mentions_call(x, "block_hash") for x in (a0, a1)):
            sides = [x for x in (a0, a1) if K.mentions_field(x, "notar", "SlotVotes")]
            if sides:
                if r["notar"] == "none":
                    raise Unknown("hash comparison with an absent notar vote")
                return (r["notar"] == "same") == pol
        raise Unknown("eq atom " + " / ".join(mir.show(x) for x in args))
    if pred == "bool":
        t = args[0]
        if t[0] == "call":
            nm = t[1]
            if nm.endswith("BTreeMap::is_empty") and _votes_field(t[2][0]) == "notar_fallback":
                return (r["nf"] == "none") == pol
            if nm.endswith("BTreeMap::contains_key") and _votes_field(t[2][0]) == "notar_fallback" and K.mentions_call(t[2][1], "block_hash") and K.mentions_arg(body, t[2][1], 2):
                return (r["nf"] == "this") == pol
            if nm.endswith("Option::is_some_and") or nm.endswith("Option::is_none_or"):
                f = _votes_field(t[2][0])
                cl = [x for x in mir.walk(t[2][1]) if isinstance(x, tuple) and x and x[0] == "closure"]
                cmpk = _closure_compares_hash(prog, cl[0][1]) if cl else None
                if f == "notar" and cmpk:
                    want = "same" if cmpk == "eq" else "other"
                    if nm.endswith("is_some_and"):
                        return (r["notar"] == want) == pol
                    return (r["notar"] == "none" or r["notar"] == want) == pol
        raise Unknown("bool atom " + mir.show(t))
    raise Unknown("atom kind %s" % pred)


def _closure_compares_hash(prog, d):
    """'eq' / 'ne' when the closure's result is that comparison of two block hashes, else None"""
    b = prog.bodies.get(d)
    if not b:
        return None
    for c in b.calls():
        nm = c.name.rsplit("::", 1)[-1]
        if nm in ("eq", "ne") and all(K.mentions_call(b.operand_term(a), "block_hash") for a in c.args) and c.dst["l"] == 0:
            return nm
    # result computed through a temporary / negation: use the closure's own truth table
    try:
        tt = paths.bool_truth_table(b, prog)
    except Exception:
        tt = None
    if tt is not None and len(tt[0]) == 1:
        t0 = tt[0][0]
        if isinstance(t0, tuple) and t0 and t0[0] == "eq" and all(K.mentions_call(x, "block_hash") for x in t0[1]):
            return "eq" if tt[1].get((True,)) else "ne"
    return None


def outcome(prog, body, ret, r, enum_suffix):
    """-> variant name of the inner enum or None"""
    t = ret
    if t is None:
        raise Unknown("no return value")
    if t[0] == "agg" and t[1] == "core::option::Option":
        if t[2] == "None":
            return None
        inner = dict(t[3])["0"]
        if inner[0] == "agg" and inner[1].endswith(enum_suffix):
            return inner[2]
        raise Unknown("Some(%s)" % mir.show(inner))
    if t[0] == "call" and t[1].endswith("bool::then_some"):
        cond = G.norm_bool(t[2][0], True)
        val = eval_atom(prog, body, cond, r)
        inner = t[2][1]
        if inner[0] == "agg" and inner[1].endswith(enum_suffix):
            return inner[2] if val else None
    raise Unknown("return value " + mir.show(t))


def table_for(prog, body, enum_suffix):
    rows = paths.decision_table(body, prog)
    result = []
    for r in ROWS:
        outs = set()
        n = 0
        for atoms, ret, blocks in rows:
            try:
                if all(eval_atom(prog, body, a, r) for a in atoms):
                    n += 1
                    outs.add(outcome(prog, body, ret, r, enum_suffix))
            except Unknown as e:
                # an atom comparing hashes with an absent vote is vacuous on rows where a prior is_some atom failed
                if "absent notar" in str(e):
                    continue
                raise
        result.append((r, outs, n))
    return result, len(rows)


def rowkey(r):
    return "%s|notar=%s,nf=%s,skip=%d,sf=%d,final=%d" % (r["kind"], r["notar"], r["nf"], r["skip"], r["skip_fallback"], r["finalize"])


def check(run, prefix="O4"):
    D.ob_state_mutations(run, prefix + ".9", ['consensus::pool::slot_state::SlotState', 'consensus::pool::slot_state::SlotVotes', 'consensus::pool::slot_state::SlotVotedStake', 'consensus::pool::PoolImpl'], 'what the filters decide depends only on the recorded votes: any further per-slot or per-validator memory (already reported, already seen) makes the verdict depend on history')
    from . import detectors as _DS
    _DS.ob_structural_impls(run, prefix + ".8", ['consensus::vote', 'consensus::cert', 'types::', 'crypto::hash', 'crypto::merkle', 'crypto::aggsig', 'crypto::signature'], 'duplicate / conflict tests compare votes, block hashes and validator indices with the derived equality')
    prog = run.program("lib")
    P = prefix

    # ------------------------------------------------------------------ O4.1 decision tables
    o = run.ob(P + ".1", "decision tables of check_slashable_offence / should_ignore_vote equal the table the property prescribes (360 abstract rows each)",
               "a missing/asymmetric offence lets a validator's conflicting vote be counted (double stake) depending on arrival order; an extra one refuses legitimate votes", floor=700)
    bs = prog.body(SS + "::check_slashable_offence")
    bi = prog.body(SS + "::should_ignore_vote")
    if bs is None or bi is None:
        o.missing("SlotState::check_slashable_offence / should_ignore_vote")
    else:
        try:
            ts, nps = table_for(prog, bs, "SlashableOffence")
            ti, npi = table_for(prog, bi, "IgnoreReason")
            run.notes.append("O4.1: %d feasible CFG paths in check_slashable_offence, %d in should_ignore_vote, %d abstract rows each" % (nps, npi, len(ROWS)))
            slash_by_row = {}
            for (r, outs, n) in ts:
                k = rowkey(r)
                allowed = spec_offences(r)
                if n != 1 or len(outs) != 1:
                    o.fail("slashable|%s|deterministic" % k, "row matched %d paths with outcomes %s (table not a function)" % (n, sorted(map(str, outs))), bs.span)
                    continue
                got = next(iter(outs))
                slash_by_row[k] = got
                ok = (got is None and not allowed) or (got in allowed)
                if ok:
                    o.ok("slashable|" + k, "offence %s" % got, bs.span, nontrivial=bool(allowed))
                else:
                    o.fail("slashable|" + k, "check_slashable_offence gives %s, the property requires %s" % (got, sorted(allowed) or "no report"), bs.span, {"row": r})
            for (r, outs, n) in ti:
                k = rowkey(r)
                want = spec_ignore(r)
                if n != 1 or len(outs) != 1:
                    o.fail("ignore|%s|deterministic" % k, "row matched %d paths with outcomes %s" % (n, sorted(map(str, outs))), bi.span)
                    continue
                got = next(iter(outs))
                # rows that are slashable anyway are refused before the filter: only refusal matters there
                if slash_by_row.get(k) is not None:
                    o.ok("ignore|" + k, "(slashable row) filter gives %s" % got, bi.span, nontrivial=False)
                    continue
                if got == want:
                    o.ok("ignore|" + k, "filter %s" % got, bi.span, nontrivial=want is not None)
                else:
                    o.fail("ignore|" + k, "should_ignore_vote gives %s, the property requires %s" % (got, want), bi.span, {"row": r})
            # legitimate sequences: neither refused nor reported
            for r in LEGIT:
                k = rowkey(r)
                s = [x for x in ts if x[0] == r]
                i = [x for x in ti if x[0] == r]
                ok = s and i and s[0][1] == {None} and i[0][1] == {None}
                o.check(bool(ok), "legit|" + k, "legitimate sequence is neither refused nor reported", bs.span, {"slashable": sorted(map(str, s[0][1])) if s else None, "ignore": sorted(map(str, i[0][1])) if i else None})
            # symmetry in arrival order, as a property of the extracted table: for conflicting unordered pairs (A stored, B new) vs (B stored, A new)
            sym_pairs = [
                ("Notar", dict(skip=True), "Skip", dict(notar="other")),
                ("Notar", dict(skip=True), "Skip", dict(notar="same")),
                ("Skip", dict(finalize=True), "Final", dict(skip=True)),
                ("SkipFallback", dict(finalize=True), "Final", dict(skip_fallback=True)),
                ("NotarFallback", dict(finalize=True), "Final", dict(nf="other")),
                ("NotarFallback", dict(finalize=True), "Final", dict(nf="this")),
            ]
            base = dict(notar="none", nf="none", skip=False, skip_fallback=False, finalize=False)
            for ka, sa, kb, sb in sym_pairs:
                ra = dict(base, kind=ka, **sa)
                rb = dict(base, kind=kb, **sb)
                ga = slash_by_row.get(rowkey(ra))
                gb = slash_by_row.get(rowkey(rb))
                o.check(ga is not None and ga == gb, "symmetry|%s/%s|%s" % (ka, kb, ",".join("%s=%s" % x for x in sorted(sb.items()))),
                        "the same offence is reported whichever of the two conflicting votes arrives first", bs.span, {"first": ga, "second": gb})
        except Unknown as e:
            o.fail("idiom-unknown", "decision table not decidable: %s (idiom not in the evaluator's table; failing closed)" % e, bs.span)
        except paths.TooManyPaths as e:
            o.fail("too-many-paths", "path bound exceeded in %s" % e)

    # ------------------------------------------------------------------ O4.2 order of the filters
    o = run.ob(P + ".2", "Pool::add_vote: window guard -> no slashable offence -> not a duplicate -> SlotState::add_vote, all on the same vote",
               "counting before filtering double-counts stake; filtering duplicates before slashing hides offences", floor=5)
    fam = [b for b in prog.family("<" + PI + " as " + POOL + "Pool>::add_vote") if b.is_closure]
    if not fam:
        o.missing("Pool::add_vote")
    for b in fam:
        av = b.calls_to(SS + "::add_vote")
        if not av:
            o.fail("Pool::add_vote|SlotState::add_vote|missing", "Pool::add_vote never counts the vote", b.span)
        for c in av:
            atoms = G.guard_atoms(b, c.bb, prog)
            det = {"guards": G.atoms_show(atoms)}
            g1 = [a for a in atoms if a[0] == "is_some" and a[2] is False and a[1][0][0] == "call" and a[1][0][1] == SS + "::check_slashable_offence"]
            g2 = [a for a in atoms if a[0] == "is_some" and a[2] is False and a[1][0][0] == "call" and a[1][0][1] == SS + "::should_ignore_vote"]
            o.check(bool(g1), "Pool::add_vote|count|no-offence", "counted only when check_slashable_offence(&vote) is None", c.span, det)
            o.check(bool(g2), "Pool::add_vote|count|not-duplicate", "counted only when should_ignore_vote(&vote) is None", c.span, det)
            if g1 and g2:
                s1, s2 = g1[0][3], g2[0][3]
                o.check(b.dominates(s1, s2), "Pool::add_vote|order", "the slashable-offence check runs before the duplicate filter", c.span)
                v0 = K.peel(b.operand_term(c.args[1]))
                same = K.peel(g1[0][1][0][2][1]) == v0 and K.peel(g2[0][1][0][2][1]) == v0 and K.peel(g1[0][1][0][2][0]) == K.peel(b.operand_term(c.args[0]))
                o.check(same, "Pool::add_vote|same-vote", "both filters and the count operate on the same vote and the same slot state", c.span,
                        {"counted": mir.show(v0), "checked": mir.show(g1[0][1][0][2][1])})
            g3 = G.has_guard(prog, b, c.bb, pred="lt", polarity=False, calls=["first_unpruned_slot"])
            o.check(g3 is not None, "Pool::add_vote|window", "only for slots at or above the pruning watermark", c.span)
            # stake is the signer's stake
            st = b.operand_term(c.args[2])
            pv = b.provenance(st)
            o.check(any(x.endswith("EpochInfo::validator") for x in pv["calls"]) and any(x.endswith("Vote::signer") for x in pv["calls"]), "Pool::add_vote|stake-of-signer",
                    "the stake counted is validator(vote.signer()).stake", c.span, {"stake": mir.show(st)})
        # slashable => Err(Slashable), ignore => Err(Duplicate)
        errs = {}
        for (bb, rv, sp, dst) in b.aggregates(POOL + "AddVoteError"):
            errs.setdefault(rv["variant"], []).append(bb)
        o.check("Slashable" in errs and "Duplicate" in errs and "SlotOutOfBounds" in errs, "Pool::add_vote|errors", "refusals are reported as SlotOutOfBounds / Slashable / Duplicate", b.span, {"errors": sorted(errs)})

    # ------------------------------------------------------------------ O4.3 who may write the totals / call add_vote
    o = run.ob(P + ".3", "running stake totals are written only under SlotState::add_vote, which only Pool::add_vote calls",
               "a second writer/caller counts stake that did not pass the admission filters", floor=8)
    callers = sorted(set(K.root_fn(c.body.defpath) for c in prog.callers_of(SS + "::add_vote")))
    o.check(callers == ["<" + PI + " as " + POOL + "Pool>::add_vote"], "SlotState::add_vote|callers", "SlotState::add_vote is called only from Pool::add_vote", "", {"callers": [fshort(x) for x in callers]})
    under = prog.reachable_from([SS + "::add_vote"])
    w = K.all_field_writers(prog, SVS)
    for f in K.adt_fields(prog, SVS) or []:
        ws = w.get(f, {})
        if not ws:
            o.fail("SlotVotedStake.%s|no-writer" % f, "running total %s is never updated" % f)
        for fn, lst in sorted(ws.items()):
            o.check(fn in under or any(x.defpath in under for x in prog.family(fn)), "SlotVotedStake.%s|writer|%s" % (f, fshort(fn)), "SlotVotedStake.%s updated in %s (reachable only through SlotState::add_vote)" % (f, fshort(fn)), lst[0][0])
    if run.tier == "thorough":
        p2 = run.program("lib-testutils")
        callers = sorted(set(K.root_fn(c.body.defpath) for c in p2.callers_of(SS + "::add_vote")))
        o.check(set(callers) <= {"<" + PI + " as " + POOL + "Pool>::add_vote", POOL + "bench_replay_votes"}, "SlotState::add_vote|callers|test-utils",
                "with feature test-utils the only extra caller is bench_replay_votes", "", {"callers": [fshort(x) for x in callers]})

    ob_recorded(run, P + ".5")
    # the record the filters consult lives exactly as long as votes for the slot are admitted: per-slot state is discarded at the
    # same watermark the window guard of Pool::add_vote uses (a slot whose state is dropped while its votes are still admitted
    # counts a repeated vote again and misses a conflicting one)
    from . import C08
    C08.ob_discard_boundary(run, P + ".6")
    C08.ob_admission(run, P + ".7")
    # ------------------------------------------------------------------ O4.4 index provenance
    o = run.ob(P + ".4", "the per-validator slot read by the filters and written by add_vote is the vote's own signer",
               "indexing by anything else attributes a vote to another validator", floor=3)
    for fn in ("add_vote", "check_slashable_offence", "should_ignore_vote"):
        b = prog.body(SS + "::" + fn)
        if b is None:
            o.missing("SlotState::" + fn)
            continue
        idx = [c for c in b.calls() if c.callee in ("core::ops::index::Index::index", "core::ops::index::IndexMut::index_mut") and
               K.peel(b.operand_term(c.args[0]))[0] == "field" and K.peel(b.operand_term(c.args[0]))[3] == SV]
        bad = [c for c in idx if not (K.mentions_call(b.operand_term(c.args[1]), "Vote::signer"))]
        o.check(bool(idx) and not bad, "SlotState::%s|index" % fn, "every SlotVotes[..] index in %s is vote.signer().as_usize() (%d sites)" % (fn, len(idx)), b.span,
                {"bad": [c.span for c in bad]})


def ob_recorded(run, oid):
    """every vote that reaches SlotState::add_vote is recorded in its kind's per-validator slot: the later filters (duplicate, slashable)
    and the certificates read nothing else"""
    prog = run.program("lib")
    o = run.ob(oid, "SlotState::add_vote records every vote it is given: one store per kind, selected by the kind only, on every path before returning",
               "a vote that is accepted but not recorded is invisible to the conflict and duplicate filters: a later conflicting vote of the same validator is admitted "
               "and not reported, and a repeat is not refused", floor=16)
    b = prog.body(SS + "::add_vote")
    if b is None:
        o.missing("SlotState::add_vote")
        return
    field_of = {"Notar": "notar", "NotarFallback": "notar_fallback", "Skip": "skip", "SkipFallback": "skip_fallback", "Final": "finalize"}
    im = {c.dst["l"]: c for c in b.calls() if c.callee == "core::ops::index::IndexMut::index_mut" and K.peel(b.operand_term(c.args[0]))[0] == "field" and K.peel(b.operand_term(c.args[0]))[3] == SV}
    stores = {}
    # `let e = &mut self.votes.skip[v]; *e = Some(vote)`: locals that hold (a re-borrow of) the slot an index_mut call returned
    alias = {l: l for l in im}
    for _round in range(3):
        for (bb, i, dst, rv, sp) in b.assignments():
            if dst["p"] or dst["l"] in alias:
                continue
            src = None
            if rv["k"] == "ref" and rv.get("mut") and rv["pl"]["l"] in alias:
                src = rv["pl"]["l"]
            elif rv["k"] == "use":
                o_ = rv["a"].get("m") or rv["a"].get("c")
                if o_ and not o_["p"] and o_["l"] in alias:
                    src = o_["l"]
            if src is not None:
                alias[dst["l"]] = alias[src]
    for (bb, i, dst, rv, sp) in b.assignments():
        if dst["p"] and dst["p"][0][0] == "d" and dst["l"] in alias:
            f = K.peel(b.operand_term(im[alias[dst["l"]]].args[0]))[2]
            stores.setdefault(f, []).append((bb, sp, b.rvalue_term(rv)))
    for c in b.calls():
        # `self.votes.skip[v].replace(vote)` / `.insert(vote)`: Option's own way of saying `= Some(vote)`
        if c.name.rsplit("::", 1)[-1] in ("replace", "insert") and "option::Option" in c.name and len(c.args) == 2:
            t = b.operand_term(c.args[0])
            for l, ic in im.items():
                if K.mentions(t, lambda x: x[0] == "call" and len(x) > 3 and x[3] == ic.bb) or (K.peel(t)[0] == "local" and alias.get(K.peel(t)[1]) == l):
                    f = K.peel(b.operand_term(ic.args[0]))[2]
                    stores.setdefault(f, []).append((c.bb, c.span, b.operand_term(c.args[1])))
    for c in b.calls():
        if c.name.endswith("BTreeMap::insert"):
            t = b.operand_term(c.args[0])
            for l, ic in im.items():
                if K.mentions(t, lambda x: x[0] == "call" and len(x) > 3 and x[3] == ic.bb) or (K.peel(t)[0] == "local" and alias.get(K.peel(t)[1]) == l):
                    f = K.peel(b.operand_term(ic.args[0]))[2]
                    stores.setdefault(f, []).append((c.bb, c.span, b.operand_term(c.args[2])))
    all_bbs = []
    for kind, f in field_of.items():
        st = stores.get(f, [])
        key = "add_vote|%s" % kind
        if len(st) != 1:
            o.fail(key + "|store", "expected exactly one store into SlotVotes.%s, found %d" % (f, len(st)), b.span)
            continue
        bb, sp, val = st[0]
        all_bbs.append(bb)
        o.check(K.mentions(val, lambda x: x[0] == "variant" and x[2] == kind), key + "|stores-the-vote", "the stored value is the %s vote itself" % kind, sp)
        atoms = G.guard_atoms(b, bb, prog)
        arm = any(a[0] == "variant" and a[1][1] == frozenset([kind]) and K.mentions_arg(b, a[1][0], 2) for a in atoms)
        o.check(arm, key + "|arm", "stored in the arm of its own kind", sp)
        extra = D.extra_guards(prog, b, bb, [lambda a: a[0] == "variant" and K.mentions_arg(b, a[1][0], 2)])
        o.check(not extra, key + "|unconditional", "no condition other than the kind skips the store", sp, {"extra": G.atoms_show(extra)})
    o.check(len(all_bbs) == 5 and b.always_followed_by(0, all_bbs), "add_vote|every-path-stores", "every path from entry to a return passes through one of the five stores", b.span)
