"""C06 — safe-to-notar / safe-to-skip are signalled exactly when the protocol allows (structural part)."""
import re
from engine import guards as G
from engine import mir
from . import common as K
from . import detectors as D
from .common import POOL, SLOT_STATE, fshort

EXPLANATION = (
    "Decides O6.1-O6.6: the decision structure of SlotState::check_safe_to_notar (every SafeToNotar result is dominated "
    "by weakest-quorum(notar[h]) and (weak-quorum(notar[h]) or quorum(notar[h]+skip)), parent Certified, own skip or own "
    "notar for another block; sent_safe_to_notar is recorded; MissingBlock only for an unknown parent); trigger "
    "completeness (check re-evaluated from the notar-vote, skip-vote, own-vote and parent-certified paths; every "
    "certificate kind that is_notar_fallback_or_stronger accepts reaches the waiting-child notification in "
    "add_valid_cert; the waiting registry holds several children per parent); safe-to-skip predicate identical at all "
    "construction sites; at-most-once flags; stake bookkeeping. Does NOT decide 'as soon as' over all arrival orders "
    "nor the threshold arithmetic on concrete stakes."
)

SS = SLOT_STATE + "SlotState"
SVS = SLOT_STATE + "SlotVotedStake"
SV = SLOT_STATE + "SlotVotes"
SC = SLOT_STATE + "SlotCertificates"
PI = POOL + "PoolImpl"
EPOCH = "alpenglow::consensus::epoch_info::EpochInfo::"
STN = SLOT_STATE + "SafeToNotarStatus"


def stake_fields(b, term):
    pv = b.provenance(term)
    return set(n for (ow, n) in pv["fields"] if ow == SVS)


def quorum_guard(prog, b, bb, name, polarity, assume=()):
    for a in G.guard_atoms(b, bb, prog, assume):
        if a[0] == "bool" and a[2] is polarity and a[1][0][0] == "call" and a[1][0][1] == EPOCH + name:
            return a
    return None


def ob_s2n_table(run, oid):
    prog = run.program("lib")
    o = run.ob(oid, "SafeToNotar is returned only under the protocol's stake, parent and own-vote conditions; and recorded as sent",
               "a SafeToNotar event without these conditions lets a correct node cast a notar-fallback vote that is not provably safe", floor=8)
    b = prog.body(SS + "::check_safe_to_notar")
    if b is None:
        o.missing("SlotState::check_safe_to_notar")
        return
    rets = {}
    for (bb, rv, sp, dst) in b.aggregates(STN):
        if dst["l"] == 0 and not dst["p"]:
            rets.setdefault(rv["variant"], []).append((bb, sp))
    for v in ("SafeToNotar", "MissingBlock", "AwaitingVotes"):
        if v not in rets:
            o.fail("check_safe_to_notar|returns|%s" % v, "check_safe_to_notar never returns %s" % v, b.span)
    hash_param = b.local_name(2)
    for (bb, sp), key in K.ordinal_keys(rets.get("SafeToNotar", []), lambda x: "check_safe_to_notar|SafeToNotar"):
        det = {"guards": K.show_atoms(prog, b, bb)}
        g = quorum_guard(prog, b, bb, "is_weakest_quorum", True)
        ok = g is not None and stake_fields(b, g[1][0][2][1]) == {"notar"} and K.mentions_name(g[1][0][2][1], hash_param)
        o.check(bool(ok), key + "|weakest-quorum", "guarded by is_weakest_quorum(notar[block_hash])", sp, det)
        # (weak(notar) or quorum(notar+skip))
        sw = G.find_switch(prog, b, calls=[EPOCH + "is_weak_quorum"], dominating=bb)
        if not sw:
            o.fail(key + "|weak-or-quorum", "no is_weak_quorum(..) test dominates the SafeToNotar result", sp, det)
        else:
            s, tv, fv = sw[0]
            wt = b.operand_term(b.blocks[s]["term"]["d"])
            wt = wt[2] if wt[0] == "un" else wt
            ok1 = wt[0] == "call" and stake_fields(b, wt[2][1]) == {"notar"} and K.mentions_name(wt[2][1], hash_param)
            o.check(bool(ok1), key + "|weak-quorum-arg", "is_weak_quorum is applied to notar[block_hash]", sp, {"arg": mir.show(wt)})
            g2 = quorum_guard(prog, b, bb, "is_quorum", True, assume=((s, fv),))
            ok2 = g2 is not None and stake_fields(b, g2[1][0][2][1]) == {"notar", "skip"}
            o.check(bool(ok2), key + "|else-quorum", "when notar[h] is below the weak quorum: guarded by is_quorum(notar[h] + skip)", sp,
                    {"guards": K.show_atoms(prog, b, bb, ((s, fv),))})
        # parent certified
        gp = None
        for a in G.guard_atoms(b, bb, prog):
            if a[0] == "eq" and a[2] is True and any(K.mentions_field(x, "parents", "SlotState") for x in a[1]) and \
                    any(K.mentions(x, lambda t: t[0] == "agg" and t[2] == "Certified") or "Certified" in mir.show(x) for x in a[1]):
                gp = a
            if a[0] == "variant" and a[2] is True and K.mentions_field(a[1][0], "parents", "SlotState") and set(a[1][1]) == {"Certified"}:
                gp = a
        o.check(gp is not None, key + "|parent-certified", "guarded by parents[block_hash] == Certified", sp, det)
        # own vote: skip is Some, or notar is Some for another hash
        gs = G.has_guard(prog, b, bb, pred="is_some", polarity=True, fields=["skip"], owner="SlotVotes", depth=0)
        gn = G.has_guard(prog, b, bb, pred="is_some", polarity=True, fields=["notar"], owner="SlotVotes", depth=0)
        own = lambda a: a is not None and K.mentions_call(a[1][0], "own_id")
        if own(gs):
            o.ok(key + "|own-vote", "own skip vote present", sp)
        elif own(gn):
            gne = None
            for a in G.guard_atoms(b, bb, prog):
                if a[0] == "eq" and a[2] is False and any(K.mentions_call(x, "NotarVote::block_hash") for x in a[1]) and any(K.mentions_name(x, hash_param) for x in a[1]):
                    gne = a
            o.check(gne is not None, key + "|own-vote", "own notar vote present and for a different block", sp, det)
        else:
            # the two cases may share one arm (`(Some(_), _) | (None, Some(_)) => ..` after a guard arm for 'our own block'): no single
            # condition dominates the result then - decide per path
            from engine import paths
            rows = [r for r in paths.decision_table(b, prog) if r[1] is not None and isinstance(K.peel(r[1]), tuple) and K.peel(r[1])[0] == "agg" and str(K.peel(r[1])[2]) == "SafeToNotar"]
            okp = bool(rows)
            for atoms, ret, _bl in rows:
                sk = any(a[0] == "is_some" and a[2] is True and K.mentions_field(a[1][0], "skip", "SlotVotes") and K.mentions_call(a[1][0], "own_id") for a in atoms)
                nt = any(a[0] == "is_some" and a[2] is True and K.mentions_field(a[1][0], "notar", "SlotVotes") and K.mentions_call(a[1][0], "own_id") for a in atoms) and any(
                    a[0] == "eq" and a[2] is False and any(K.mentions_call(x, "NotarVote::block_hash") for x in a[1]) and any(K.mentions_name(x, hash_param) for x in a[1]) for a in atoms)
                okp = okp and (sk or nt)
            if okp:
                o.ok(key + "|own-vote", "on every path to the result: own skip vote present, or own notar vote present and for a different block", sp)
            else:
                o.fail(key + "|own-vote", "SafeToNotar returned without the node having voted (skip, or notar for another block)", sp, det)
        rec = [lambda a: a[0] == "bool" and a[1][0][0] == "call" and a[1][0][1].startswith(EPOCH + "is_"),
               lambda a: a[0] in ("is_some", "eq", "variant") and any(K.mentions_field(x, "parents", "SlotState") for x in a[1] if isinstance(x, tuple)),
               lambda a: a[0] in ("is_some", "variant", "eq") and any((K.mentions_field(x, "skip", "SlotVotes") or K.mentions_field(x, "notar", "SlotVotes")) and K.mentions_call(x, "own_id") for x in a[1] if isinstance(x, tuple))]
        extra = D.extra_guards(prog, b, bb, rec)
        o.check(not extra, key + "|no-extra-condition", "no further condition delays or suppresses SafeToNotar", sp, {"extra": G.atoms_show(extra)})
        # recorded as sent on the same path
        ins = [c.bb for c in b.calls() if c.name.endswith("SortedVecSet::insert") and K.is_field(b.operand_term(c.args[0]), "sent_safe_to_notar", "SlotState")]
        o.check(any(b.dominates(i, bb) for i in ins) or (bool(ins) and b.always_followed_by(bb, ins)), key + "|recorded", "sent_safe_to_notar.insert(block_hash) on the same path", sp)
    for (bb, sp), key in K.ordinal_keys(rets.get("MissingBlock", []), lambda x: "check_safe_to_notar|MissingBlock"):
        g = G.has_guard(prog, b, bb, pred="is_some", polarity=False, fields=["parents"], owner="SlotState", depth=0)
        o.check(g is not None, key + "|parent-unknown", "MissingBlock only when the block's parent entry is absent", sp, {"guards": K.show_atoms(prog, b, bb)})
        g = quorum_guard(prog, b, bb, "is_weakest_quorum", True)
        o.check(g is not None, key + "|stake-first", "MissingBlock (repair) only after the stake conditions hold", sp)


def ob_triggers(run, oid):
    prog = run.program("lib")
    o = run.ob(oid, "safe-to-notar is re-evaluated from every path on which one of its conditions can become true",
               "a condition that arrives last on an unwired path never raises the event: the slot can stay split for ever", floor=7)
    callers = set(K.root_fn(c.body.defpath) for c in prog.callers_of(SS + "::check_safe_to_notar"))
    for fn in ("count_notar_stake", "count_skip_stake", "add_vote", "notify_parent_certified"):
        o.check(SS + "::" + fn in callers, "check_safe_to_notar|caller|%s" % fn, "re-evaluated from SlotState::%s" % fn, "")
    # own-vote path: guarded by voter == own_id, over pending_safe_to_notar
    b = prog.body(SS + "::add_vote")
    if b is not None:
        for c in b.calls_to(SS + "::check_safe_to_notar"):
            g = G.has_guard(prog, b, c.bb, pred="eq", polarity=True, calls=["ValidatorEpochInfo::own_id"])
            o.check(g is not None, "add_vote|check_safe_to_notar|own-vote", "own-vote path re-evaluates pending blocks when voter == own_id", c.span)
            pv = b.provenance(b.operand_term(c.args[1]))
            o.check((SS, "pending_safe_to_notar") in pv["fields"], "add_vote|check_safe_to_notar|pending", "over the pending_safe_to_notar set", c.span)
    b = prog.body(SS + "::count_skip_stake")
    if b is not None:
        for c in b.calls_to(SS + "::check_safe_to_notar"):
            pv = b.provenance(b.operand_term(c.args[1]))
            o.check((SS, "pending_safe_to_notar") in pv["fields"], "count_skip_stake|check_safe_to_notar|pending", "skip-vote path re-evaluates the pending set", c.span)
    # ... the WHOLE pending set, every time: the walked collection is pending_safe_to_notar itself (no alternative / narrowed source), and the only
    # block skipped is one whose event was already sent
    passthrough = re.compile(r"::(clone|into_iter|iter|next|cloned|copied|deref|as_ref|borrow|to_vec|to_owned|collect|as_slice)$")
    for fn, rec in (("count_skip_stake", []), ("add_vote", [lambda a: a[0] in ("eq", "ne") and any(K.mentions_call(x, "own_id") for x in a[1])])):
        b = prog.body(SS + "::" + fn)
        if b is None:
            continue
        for c in b.calls_to(SS + "::check_safe_to_notar"):
            pv = b.provenance(b.operand_term(c.args[1]))
            if (SS, "pending_safe_to_notar") not in pv["fields"]:
                continue
            other = sorted(x for x in pv["calls"] if not passthrough.search(x)) + sorted("local " + x for x in pv["locals"])
            o.check(not other, "%s|check_safe_to_notar|whole-pending-set" % fn, "the re-evaluated blocks are exactly the pending_safe_to_notar set (no alternative or narrowed source)", c.span,
                    {"other_sources": [K.fshort(x) for x in other]})
            sent = [lambda a: a[0] == "bool" and a[2] is False and K.mentions_call(a[1][0], "contains") and K.mentions_field(a[1][0], "sent_safe_to_notar")]
            extra = D.extra_guards(prog, b, c.bb, rec + sent + [lambda a: a[0] == "variant" and a[1][1] <= set(K.VOTE_KINDS)])
            o.check(not extra, "%s|check_safe_to_notar|no-extra-condition" % fn, "a pending block is re-evaluated unless its event was already sent: no further condition", c.span,
                    {"extra": G.atoms_show(extra)})
    # pending set is fed when stake suffices but the own vote / skip stake is missing
    b = prog.body(SS + "::check_safe_to_notar")
    if b is not None:
        ins = [c for c in b.calls() if c.name.endswith("SortedVecSet::insert") and K.is_field(b.operand_term(c.args[0]), "pending_safe_to_notar", "SlotState")]
        o.check(len(ins) >= 2, "check_safe_to_notar|pending-insert", "blocks waiting for skip stake or for the own vote are put into pending_safe_to_notar", b.span, {"n": len(ins)})

    # tables agree: cert kinds accepted as "parent certified" == cert kinds whose arrival notifies a waiting child
    accepted_fields = set()
    for fb in prog.family(SS + "::is_notar_fallback_or_stronger"):
        accepted_fields |= set(n for (ow, n) in G.deep_fields(prog, ("call", fb.defpath, (), 0), 2) if ow == SC)
        accepted_fields |= set(n for (_bb, ow, n, _sp) in fb.field_reads() if ow == SC)
    b = prog.body(SS + "::is_notar_fallback_or_stronger")
    if b is not None:
        for c in b.calls():
            for t in prog.callees_of_site(c):
                for fb in prog.family(t):
                    accepted_fields |= set(n for (_bb, ow, n, _sp) in fb.field_reads() if ow == SC)
    addc = prog.body(SS + "::add_cert")
    field_to_variant = {}
    if addc is not None:
        for (bb, ow, name, rv, sp, dst) in addc.field_writes():
            if ow == SC:
                for a in G.guard_atoms(addc, bb, prog):
                    if a[0] == "variant":
                        for v in a[1][1]:
                            field_to_variant.setdefault(name, set()).add(v)
        for (bb, ow, name, sp, _l, _pl) in addc.mut_borrows_of_fields():
            if ow == SC:
                for a in G.guard_atoms(addc, bb, prog):
                    if a[0] == "variant":
                        for v in a[1][1]:
                            field_to_variant.setdefault(name, set()).add(v)
    accepted = set()
    for f in accepted_fields:
        accepted |= field_to_variant.get(f, set())
    if not accepted:
        o.missing("certificate kinds read by is_notar_fallback_or_stronger")
    run.notes.append("is_notar_fallback_or_stronger reads certificates.{%s} => accepts Cert::{%s}" % (",".join(sorted(accepted_fields)), ",".join(sorted(accepted))))
    # notification sites in add_valid_cert: removal from the waiting registry (directly or in a helper)
    notified = set()
    all_vars = set(K.CERT_KINDS)
    helpers = set()
    for d, hb in prog.bodies.items():
        if d.startswith(PI) and K.root_fn(d) != PI + "::add_valid_cert":
            for c in hb.calls():
                if c.name.endswith("::remove") and K.is_field(hb.operand_term(c.args[0]), "s2n_waiting_parent_cert", "PoolImpl"):
                    helpers.add(K.root_fn(d))
    sites = []
    for vb in prog.family(PI + "::add_valid_cert"):
        for c in vb.calls():
            if (c.name.endswith("::remove") and K.is_field(vb.operand_term(c.args[0]), "s2n_waiting_parent_cert", "PoolImpl")) or c.name in helpers:
                sites.append((vb, c))
    if not sites:
        o.missing("waiting-child notification (s2n_waiting_parent_cert.remove) in add_valid_cert")
    for vb, c in sites:
        names = set(all_vars)
        for a in G.guard_atoms(vb, c.bb, prog):
            if a[0] == "variant" and a[1][1] <= all_vars:
                names &= a[1][1]
        notified |= names
    for v in sorted(accepted):
        o.check(v in notified, "add_valid_cert|notify-waiting-child|Cert::%s" % v,
                "arrival of Cert::%s (accepted by is_notar_fallback_or_stronger) notifies a child waiting for its parent's certificate" % v,
                sites[0][1].span if sites else "", {"notified_for": sorted(notified)})
    # notify => notify_parent_certified of the waiting child
    ok = False
    for d in [PI + "::add_valid_cert"] + sorted(helpers):
        for hb in prog.family(d):
            if hb.calls_to(SS + "::notify_parent_certified"):
                ok = True
    o.check(ok, "add_valid_cert|notify-waiting-child|calls-notify", "the waiting child's SlotState::notify_parent_certified is called", "")
    # add_block: parent already certified
    for ab in prog.family("<" + PI + " as " + POOL + "Pool>::add_block"):
        if not ab.is_closure or not ab.defpath.endswith("add_block::{closure#0}"):
            continue        # the coroutine body of the async fn (not closures nested in it)
        npc = ab.calls_to(SS + "::notify_parent_certified")
        o.check(bool(npc), "Pool::add_block|notify_parent_certified", "add_block notifies immediately when the parent is already certified", ab.span)
        for c in npc:
            g = G.has_guard(prog, ab, c.bb, pred="bool", polarity=True, calls=[SS + "::is_notar_fallback_or_stronger"])
            if g is None:
                # `slot_states.get(parent_slot).is_some_and(|s| s.is_notar_fallback_or_stronger(parent_hash))`
                for a in G.guard_atoms(ab, c.bb, prog):
                    if a[0] == "bool" and a[2] is True and any(any(c2.name == SS + "::is_notar_fallback_or_stronger" for c2 in fb.calls())
                                                                 for x in mir.walk(a[1][0]) if isinstance(x, tuple) and x and x[0] == "closure" for fb in prog.family(x[1])):
                        g = a
            o.check(g is not None, "Pool::add_block|notify_parent_certified|guard", "only when is_notar_fallback_or_stronger(parent_hash)", c.span)
        npk = ab.calls_to(SS + "::notify_parent_known")
        # ... except a block whose slot lies below the pruning watermark (D28: the slot is decided, nothing is registered for it): the only
        # region that may be left without the notification is the one behind `slot < first_unpruned_slot()`
        wm = [bl["id"] for bl in ab.blocks if bl["id"] in ab.reach() and any(
            a[0] == "lt" and a[2] is True and any(isinstance(x, tuple) and K.mentions_call(x, "first_unpruned_slot") for x in a[1]) for a in G.guard_atoms(ab, bl["id"], prog))]
        o.check(bool(npk) and ab.always_followed_by(0, [c.bb for c in npk] + wm), "Pool::add_block|notify_parent_known",
                "every registered block's parent becomes Known (blocks of decided slots, below the watermark, are not registered)", ab.span)
        reg = [c for c in ab.calls() if K.mentions_field(ab.operand_term(c.args[0]), "s2n_waiting_parent_cert", "PoolImpl")] if True else []
        o.check(bool(reg), "Pool::add_block|register-waiting", "otherwise the child is registered as waiting for the parent's certificate", ab.span)


def ob_safe_to_skip(run, oid):
    prog = run.program("lib")
    o = run.ob(oid, "SafeToSkip is raised only under !sent, weak_quorum(notar_or_skip - top_notar) and own notar vote; identically at all sites; then marked sent",
               "a SafeToSkip without these conditions makes a correct node cast an unsafe skip-fallback vote; differing sibling predicates make the event depend on which vote arrived last", floor=8)
    sites = []
    for b in K.bodies_in(prog, SLOT_STATE):
        for (bb, rv, sp, dst) in b.aggregates(POOL + "PoolEvent", "SafeToSkip"):
            sites.append((b, bb, sp))
    if len(sites) < 2:
        o.missing("two construction sites of PoolEvent::SafeToSkip (notar path and skip path)")
    sigs = []
    for (b, bb, sp), key in K.ordinal_keys(sites, lambda x: "%s|PoolEvent::SafeToSkip" % fshort(x[0].defpath)):
        det = {"guards": K.show_atoms(prog, b, bb)}
        g1 = None
        for a in G.guard_atoms(b, bb, prog):
            if a[0] == "bool" and a[2] is False and K.is_field(a[1][0], "sent_safe_to_skip", "SlotState"):
                g1 = a
        o.check(g1 is not None, key + "|not-sent", "guarded by !sent_safe_to_skip", sp, det)
        g2 = quorum_guard(prog, b, bb, "is_weak_quorum", True)
        ok = False
        if g2 is not None:
            st = g2[1][0][2][1]
            ok = (st[0] == "call" and st[1].endswith("Sub>::sub") and K.is_field(st[2][0], "notar_or_skip", "SlotVotedStake") and K.is_field(st[2][1], "top_notar", "SlotVotedStake")) or \
                 (st[0] == "bin" and st[1].startswith("Sub") and K.is_field(st[2], "notar_or_skip") and K.is_field(st[3], "top_notar"))
        o.check(bool(ok), key + "|weak-quorum", "guarded by is_weak_quorum(notar_or_skip - top_notar)", sp, det)
        g3 = G.has_guard(prog, b, bb, pred="is_some", polarity=True, fields=["notar"], owner="SlotVotes", depth=0)
        o.check(g3 is not None and K.mentions_call(g3[1][0], "own_id"), key + "|own-notar", "guarded by own notar vote present", sp, det)
        w = [x[0] for x in K.writes_of_field(b, "SlotState", "sent_safe_to_skip", const=1)]
        o.check(bool(w) and b.always_followed_by(bb, w), key + "|marks-sent", "always followed by sent_safe_to_skip = true", sp)
        sigs.append(tuple(sorted(G.atoms_show([x for x in (g1, g2, g3) if x is not None]))))
        known = [x for x in (g1, g2, g3) if x is not None]
        extra = D.extra_guards(prog, b, bb, [lambda a, known=known: any(a[:3] == k[:3] for k in known)])
        o.check(not extra, key + "|no-extra-condition", "no further condition delays or suppresses the event ('as soon as all conditions hold')", sp, {"extra": G.atoms_show(extra)})
    if len(sigs) >= 2:
        o.check(all(s == sigs[0] for s in sigs), "PoolEvent::SafeToSkip|sibling-agreement", "the safe-to-skip predicate is identical at all construction sites", "", {"predicates": [list(s) for s in sigs]})
    # the flag is written only to true and only there
    w = K.all_field_writers(prog, SS).get("sent_safe_to_skip", {})
    for fn, lst in w.items():
        o.check(fn.rsplit("::", 1)[-1] in ("count_notar_stake", "count_skip_stake"), "sent_safe_to_skip|writer|%s" % fshort(fn), "sent_safe_to_skip written in %s" % fshort(fn), lst[0][0])


def ob_s2n_events(run, oid):
    prog = run.program("lib")
    o = run.ob(oid, "every PoolEvent::SafeToNotar is the result of check_safe_to_notar for the same block, at most once per block",
               "an event constructed elsewhere bypasses the predicate; without the sent-check it is raised repeatedly", floor=8)
    sites = []
    for b in K.bodies_in(prog, POOL):
        for (bb, rv, sp, dst) in b.aggregates(POOL + "PoolEvent", "SafeToNotar"):
            sites.append((b, bb, sp, rv))
    if not sites:
        o.missing("construction of PoolEvent::SafeToNotar")
    for (b, bb, sp, rv), key in K.ordinal_keys(sites, lambda x: "%s|PoolEvent::SafeToNotar" % fshort(x[0].defpath)):
        g = None
        for a in G.guard_atoms(b, bb, prog):
            if a[0] == "variant" and a[1][1] == frozenset(["SafeToNotar"]) and a[1][0][0] == "call" and a[1][0][1] == SS + "::check_safe_to_notar":
                g = a
        o.check(g is not None, key + "|from-check", "constructed only on the SafeToNotar result of check_safe_to_notar", sp, {"guards": K.show_atoms(prog, b, bb)})
        if g is not None:
            h_checked = K.peel(g[1][0][2][1])
            ev = b.operand_term(rv["ops"][0])
            h_ev = K.peel(ev[1][1]) if ev[0] == "tuple" and len(ev[1]) == 2 else None
            o.check(h_ev is not None and h_ev == h_checked, key + "|same-hash", "the event names the block that was checked", sp, {"checked": mir.show(h_checked), "event": mir.show(ev)})
        g2 = None
        for a in G.guard_atoms(b, bb, prog):
            if a[0] == "bool" and a[2] is False and a[1][0][0] == "call" and a[1][0][1].endswith("SortedVecSet::contains") and K.is_field(a[1][0][2][0], "sent_safe_to_notar", "SlotState"):
                g2 = a
        o.check(g2 is not None, key + "|not-sent", "guarded by !sent_safe_to_notar.contains(hash)", sp)
        rec = [lambda a: a[0] == "variant" and a[1][0][0] == "call" and a[1][0][1] == SS + "::check_safe_to_notar",
               lambda a: a[0] == "bool" and a[1][0][0] == "call" and a[1][0][1].endswith("SortedVecSet::contains") and K.is_field(a[1][0][2][0], "sent_safe_to_notar", "SlotState"),
               lambda a: a[0] == "eq" and a[2] is True and any(K.mentions_call(x, "own_id") for x in a[1]) and fshort(b.defpath).endswith("add_vote"),
               # notify_parent_certified: the parent entry exists (precondition, panics otherwise)
               lambda a: a[0] == "is_some" and a[2] is True and K.mentions_field(a[1][0], "parents", "SlotState")]
        extra = D.extra_guards(prog, b, bb, rec)
        o.check(not extra, key + "|no-extra-condition", "no further condition delays or suppresses the event", sp, {"extra": G.atoms_show(extra)})


def ob_bookkeeping(run, oid):
    prog = run.program("lib")
    o = run.ob(oid, "notar_or_skip is incremented exactly for notar and skip (not fallback) votes; top_notar is the running maximum of notar[h]",
               "a miscounted notar_or_skip / top_notar shifts the safe-to-skip threshold", floor=3)
    incs = []
    for b in K.bodies_in(prog, SLOT_STATE):
        for c in b.calls():
            if c.name.endswith("AddAssign>::add_assign") or c.name.endswith("::add_assign"):
                if K.is_field(b.operand_term(c.args[0]), "notar_or_skip", "SlotVotedStake"):
                    incs.append(c)
    fns = sorted(fshort(c.body.defpath).rsplit("::", 1)[-1] for c in incs)
    o.check(fns == ["add_vote", "count_notar_stake"], "notar_or_skip|incremented-in", "notar_or_skip += stake in count_notar_stake and in add_vote's Skip arm only", "", {"sites": fns})
    for c in incs:
        if fshort(c.body.defpath).endswith("add_vote"):
            atoms = G.guard_atoms(c.body, c.bb, prog)
            o.check(any(a[0] == "variant" and a[1][1] == frozenset(["Skip"]) for a in atoms), "notar_or_skip|add_vote|arm", "incremented in the Vote::Skip arm (not SkipFallback)", c.span, {"guards": G.atoms_show(atoms)})
    w = K.all_field_writers(prog, SVS).get("top_notar", {})
    for fn, lst in w.items():
        for (sp, kind, b, bb) in lst:
            if kind != "assign":
                continue
            for (wb, _sp, rv) in [x for x in K.writes_of_field(b, "SlotVotedStake", "top_notar") if x[0] == bb]:
                t = b.rvalue_term(rv)
                ok = t[0] == "call" and t[1].endswith("::max") and any(K.mentions_field(a, "top_notar") for a in t[2]) and any(stake_fields(b, a) >= {"notar"} for a in t[2])
                # `if notar[h] > top_notar { top_notar = notar[h] }`: the same running maximum
                ok = ok or (D.monotone_write(prog, b, bb, t, "top_notar", "SlotVotedStake") and stake_fields(b, t) >= {"notar"})
                o.check(bool(ok), "top_notar|max|%s" % fshort(fn), "top_notar = max(notar[h], top_notar)", sp, {"value": mir.show(t)})


def _depends_on_param(prog, b, pidx, depth=0):
    """every way `b` can answer `true` is behind a positive test in which parameter #pidx takes part (directly, through a closure that
    compares with it, or by delegating to a crate function that satisfies the same rule for the argument position it is passed at).
    -> list of problems (empty = ok)"""
    from engine import paths
    bad = []
    if depth > 3:
        return ["delegation too deep"]

    def uses_param(t):
        if K.mentions(t, lambda x: x[0] == "param" and x[1] == pidx):
            # inside a closure: the captured parameter must take part in an equality of the closure body
            for cl in [x for x in mir.walk(t) if isinstance(x, tuple) and x and x[0] == "closure"]:
                caps = [nm for nm, ot in cl[2] if K.mentions(ot, lambda x: x[0] == "param" and x[1] == pidx)]
                cb = prog.bodies.get(cl[1])
                if caps and cb is not None:
                    cmp_ = [c for c in cb.calls() if c.name.rsplit("::", 1)[-1] in ("eq", "ne", "cmp")]
                    if not any(any(K.mentions(cb.operand_term(a), lambda x: x[0] == "upvar" and x[1] in caps) for a in c.args) for c in cmp_):
                        return False
            return True
        return False
    for atoms, ret, _blocks in paths.decision_table(b, prog):
        pr = K.peel(ret) if ret is not None else None
        if isinstance(pr, tuple) and pr and pr[0] == "const" and pr[2] in (0, "false"):
            continue
        if isinstance(pr, tuple) and pr and pr[0] == "const":
            pos = [a for a in atoms if a[2] is True and not D.is_structural_atom(a)]
            if not any(any(uses_param(x) for x in a[1] if isinstance(x, tuple)) for a in pos):
                bad.append("answers true under %s" % (G.atoms_show(pos)[-2:] or "no condition"))
            continue
        if isinstance(pr, tuple) and pr and pr[0] == "call" and pr[1] in prog.bodies:
            js = [j for j, a in enumerate(pr[2]) if K.mentions(a, lambda x: x[0] == "param" and x[1] == pidx)]
            if not js:
                bad.append("delegates to %s without the hash" % fshort(pr[1]))
            else:
                bad += _depends_on_param(prog, prog.bodies[pr[1]], js[0] + 1, depth + 1)
            continue
        if pr is None or not uses_param(pr):
            bad.append("answer %s does not involve the hash" % (mir.show(pr)[:60] if pr is not None else None))
    return bad


def ob_parent_certified(run, oid):
    prog = run.program("lib")
    o = run.ob(oid, "'the parent is certified' means a certificate FOR THAT BLOCK HASH: every positive answer of is_notar_fallback_or_stronger / is_notar_fallback compares the stored certificate's hash with the requested one",
               "with an equivocating leader a slot holds certificates for one block while a child builds on the other: answering by slot makes the child of the uncertified sibling safe-to-notar", floor=2)
    for fn in ("is_notar_fallback_or_stronger", "is_notar_fallback"):
        b = prog.body(SS + "::" + fn)
        if b is None:
            o.missing("SlotState::" + fn)
            continue
        bad = _depends_on_param(prog, b, 2)
        o.check(not bad, "%s|by-hash" % fn, "SlotState::%s answers true only behind a comparison with its block-hash argument" % fn, b.span, {"problems": bad[:3]})
    # ... and the converse: ANY of the three kinds certifying that hash is enough (a notarization of a sibling must not hide the
    # notar-fallback certificate of the block asked about). Truth table over (notar: none/other/same, fast-final: none/other/same, notar-fallback: no/yes)
    from engine import paths
    b = prog.body(SS + "::is_notar_fallback_or_stronger")
    if b is not None:
        rows = [r for r in paths.decision_table(b, prog) if r[1] is not None]

        def value(t, st, pol=True):
            """truth value of a boolean term under state st = {'notar': .., 'fast_finalize': .., 'nf': bool}; None = not understood"""
            t = K.peel(t)
            if isinstance(t, tuple) and t and t[0] == "const":
                return bool(t[2]) if t[2] in (0, 1, True, False) else None
            if isinstance(t, tuple) and t and t[0] == "call":
                nm = t[1].rsplit("::", 1)[-1]
                if t[1] == SS + "::is_notar_fallback":
                    return st["nf"]
                for f in ("notar", "fast_finalize"):
                    if K.mentions_field(t, f, "SlotCertificates") and not any(K.mentions_field(t, g, "SlotCertificates") for g in ("notar", "fast_finalize", "notar_fallback") if g != f):
                        if nm == "is_some_and" and K.mentions(t, lambda x: x[0] == "closure") and K.mentions(t, lambda x: x[0] == "param" and x[1] == 2):
                            return st[f] == "same"
                        if nm in ("eq", "ne") and K.mentions_call(t, "block_hash") and K.mentions(t, lambda x: x[0] == "param" and x[1] == 2):
                            return (st[f] == "same") == (nm == "eq")
                        if nm == "is_some":
                            return st[f] != "none"
                        if nm == "is_none":
                            return st[f] == "none"
            return None

        def atom_value(a, st):
            if a[0] == "is_some" and isinstance(a[1][0], tuple):
                for f in ("notar", "fast_finalize"):
                    if K.is_field(K.peel(a[1][0]), f, "SlotCertificates") or (K.mentions_field(a[1][0], f, "SlotCertificates") and not K.mentions(a[1][0], lambda x: x[0] == "call" and x[1].rsplit("::", 1)[-1] not in ("as_ref", "deref", "clone"))):
                        return (st[f] != "none") == a[2]
                return None
            if a[0] == "bool":
                v = value(a[1][0], st)
                return None if v is None else (v == a[2])
            if a[0] == "eq" and any(K.mentions_call(x, "block_hash") for x in a[1]) and any(K.mentions(x, lambda y: y[0] == "param" and y[1] == 2) for x in a[1]):
                for f in ("notar", "fast_finalize"):
                    if any(K.mentions_field(x, f, "SlotCertificates") for x in a[1]):
                        return (st[f] == "same") == a[2]
            return None
        bad = []
        und = None
        for nt in ("none", "other", "same"):
            for ff in ("none", "other", "same"):
                for nf in (False, True):
                    st = {"notar": nt, "fast_finalize": ff, "nf": nf}
                    got = []
                    for atoms, ret, _bl in rows:
                        hold = True
                        for a in atoms:
                            if D.is_structural_atom(a):
                                continue
                            v = atom_value(a, st)
                            if v is None:
                                und = G.atoms_show([a])[0]
                                break
                            if not v:
                                hold = False
                                break
                        if und:
                            break
                        if hold:
                            v = value(ret, st)
                            if v is None:
                                und = mir.show(ret)[:80]
                                break
                            got.append(v)
                    if und:
                        break
                    want = nt == "same" or ff == "same" or nf
                    if not got or any(g != want for g in got):
                        bad.append("notar=%s fast-final=%s notar-fallback=%s: answers %s, should be %s" % (nt, ff, nf, got[:1], want))
                if und:
                    break
            if und:
                break
        if und:
            o.fail("is_notar_fallback_or_stronger|exact|undecided", "the answer could not be tabulated (%s): failing closed" % und, b.span)
        else:
            o.check(not bad, "is_notar_fallback_or_stronger|exact", "true exactly when the slot holds a notarization, fast-finalization or notar-fallback certificate for that hash (18 combinations)", b.span, {"mismatches": bad[:3]})


def ob_sorted_vec(run, oid):
    """SortedVecMap / SortedVecSet (pool::sorted_vec): the containers behind the per-block stake counters and the pending / sent sets"""
    from engine import paths
    prog = run.program("lib")
    SV = POOL + "sorted_vec::"
    o = run.ob(oid, "the sorted-vector set / map keep their contract: lookups are binary searches for the given key, elements are inserted only when absent and at the "
                    "position the search reports, removal only of the found position",
               "the at-most-once flags (sent_safe_to_notar, pending_safe_to_notar) and the per-block stake counters live in these containers: an insert that does not keep the "
               "order makes later binary searches miss present elements (events raised twice, stake counted into a second entry)", floor=10)

    def search_of(b, t, argpos):
        """t is (the Result of) a binary search over self.0 for parameter #argpos"""
        for x in mir.walk(t):
            if isinstance(x, tuple) and x and x[0] == "call":
                nm = x[1].rsplit("::", 1)[-1]
                if nm == "binary_search" and len(x[2]) == 2 and K.mentions_field(x[2][0], "0") and K.mentions(x[2][1], lambda y: y[0] == "param" and y[1] == argpos):
                    return True
                if x[1] == SV + "SortedVecMap::search" and len(x[2]) == 2 and K.mentions(x[2][1], lambda y: y[0] == "param" and y[1] == argpos):
                    return True
        return False

    def mutations(b, name):
        # in the function itself or in a closure handed to a combinator (`search(key).unwrap_or_else(|at| { self.0.insert(at, ..); at })`)
        return [c for fb in prog.family(b.defpath) for c in fb.calls() if c.name.rsplit("::", 1)[-1] == name and c.name.startswith("smallvec::")]

    def okness(a, argpos, b):
        """(is_ok polarity) when atom `a` tests the search result for Ok / Err: is_ok(x), (x in ['Ok']), (x in ['Err'])"""
        if a[0] == "is_ok" and search_of(b, a[1][0], argpos):
            return a[2]
        if a[0] == "variant" and search_of(b, a[1][0], argpos) and a[1][1] in (frozenset(["Ok"]), frozenset(["Err"])):
            return a[2] == (a[1][1] == frozenset(["Ok"]))
        return None
    # ---- set
    for fn, present_ret, mut in (("insert", 0, "insert"), ("remove", 1, "remove")):
        b = prog.body(SV + "SortedVecSet::" + fn)
        if b is None:
            o.missing("SortedVecSet::" + fn)
            continue
        rows = paths.decision_table(b, prog)
        ok = len(rows) == 2
        for atoms, ret, _bl in rows:
            a = [x for x in atoms if not D.is_structural_atom(x)]
            okk = okness(a[0], 2, b) if len(a) == 1 else None
            ok = ok and okk is not None and K.const_eval(ret) == (present_ret if okk else 1 - present_ret)
        o.check(ok, "SortedVecSet::%s|verdict" % fn, "%s answers by a binary search for the given value (%s when present)" % (fn, bool(present_ret)), b.span)
        ms = mutations(b, mut)
        ok = len(ms) == 1 and len(mutations(b, "push")) == 0
        if ok:
            g = [okness(x, 2, b) for x in G.guard_atoms(b, ms[0].bb, prog) if okness(x, 2, b) is not None]
            ok = len(set(g)) == 1 and g[0] is (fn == "remove")
            idx = b.operand_term(ms[0].args[1])
            ok = ok and search_of(b, idx, 2)
            if fn == "insert":
                ok = ok and K.mentions(b.operand_term(ms[0].args[2]), lambda y: y[0] == "param" and y[1] == 2)
        o.check(ok, "SortedVecSet::%s|position" % fn, "the vector is changed only %s, at the index the search reported" % ("when the value is absent" if fn == "insert" else "when the value is present"), b.span)
    b = prog.body(SV + "SortedVecSet::contains")
    if b is None:
        o.missing("SortedVecSet::contains")
    else:
        rows = paths.decision_table(b, prog)
        ok = len(rows) == 1 and not [x for x in rows[0][0] if not D.is_structural_atom(x)]
        t = K.peel(rows[0][1]) if ok else None
        ok = ok and isinstance(t, tuple) and t[0] == "call" and t[1].endswith("Result::is_ok") and search_of(b, t, 2)
        if not ok and len(rows) == 2:
            # `matches!(binary_search(value), Ok(_))` / an explicit match: true exactly on the Ok side
            ok = True
            for atoms, ret, _bl in rows:
                a = [x for x in atoms if not D.is_structural_atom(x)]
                okk = okness(a[0], 2, b) if len(a) == 1 else None
                ok = ok and okk is not None and K.const_eval(ret) == (1 if okk else 0)
        o.check(bool(ok), "SortedVecSet::contains|verdict", "contains = binary_search(value).is_ok()", b.span)
    # ---- map
    b = prog.body(SV + "SortedVecMap::search")
    if b is None:
        o.missing("SortedVecMap::search")
    else:
        cs = [c for c in b.calls() if c.name.rsplit("::", 1)[-1] == "binary_search_by"]
        ok = len(cs) == 1 and cs[0].dst["l"] == 0
        if ok:
            cl = b.operand_term(cs[0].args[1])
            cb = prog.bodies.get(cl[1]) if isinstance(cl, tuple) and cl and cl[0] == "closure" else None
            cmp_ = [c for c in cb.calls() if c.name.rsplit("::", 1)[-1] == "cmp"] if cb is not None else []
            # |(k, _)| k.cmp(key): the stored key is the receiver, the searched key the argument (the other order reverses the search)
            ok = len(cmp_) == 1 and K.mentions(cb.operand_term(cmp_[0].args[0]), lambda y: y[0] == "param") and K.mentions(cb.operand_term(cmp_[0].args[1]), lambda y: y[0] == "upvar") \
                and cmp_[0].dst["l"] == 0
        o.check(bool(ok), "SortedVecMap::search|compares-keys", "search = binary_search_by(|(k, _)| k.cmp(key))", b.span)
    b = prog.body(SV + "SortedVecMap::get_or_insert_with")
    if b is None:
        o.missing("SortedVecMap::get_or_insert_with")
    else:
        ms = mutations(b, "insert")
        ok = len(ms) == 1 and not mutations(b, "push") and not mutations(b, "remove")
        if ok and ms[0].body is b:
            g = [okness(x, 2, b) for x in G.guard_atoms(b, ms[0].bb, prog) if okness(x, 2, b) is not None]
            ok = len(set(g)) == 1 and g[0] is False and search_of(b, b.operand_term(ms[0].args[1]), 2)
        elif ok:
            # inside the closure of `search(key).unwrap_or_else(|at| ..)` / `.map_err(..)`: runs only for Err(at), inserts at `at`
            cb = ms[0].body
            hosts = [c for c in b.calls() if c.name.rsplit("::", 1)[-1] in ("unwrap_or_else", "or_else", "map_err") and "result::Result" in c.name
                     and search_of(b, b.operand_term(c.args[0]), 2) and K.mentions(b.operand_term(c.args[1]), lambda x: x[0] == "closure" and x[1] == cb.defpath)]
            it = K.peel(cb.operand_term(ms[0].args[1]))
            ok = len(hosts) == 1 and isinstance(it, tuple) and it and it[0] == "param" and it[1] == 2 and not D.extra_guards(prog, cb, ms[0].bb, [])
        o.check(bool(ok), "SortedVecMap::get_or_insert_with|position", "a new entry is inserted only when the key is absent, at the index the search reported", b.span)
        rows = paths.decision_table(b, prog)
        ok = bool(rows)
        for atoms, ret, _bl in rows:
            ok = ok and ret is not None and K.mentions_field(ret, "1") and K.mentions_call(ret, "index_mut")
        o.check(ok, "SortedVecMap::get_or_insert_with|returns-entry", "returns the value slot of the entry at that index", b.span)
    for fn in ("get", "get_mut"):
        b = prog.body(SV + "SortedVecMap::" + fn)
        if b is None:
            o.missing("SortedVecMap::" + fn)
            continue
        ok = True
        some = 0
        for atoms, ret, _bl in paths.decision_table(b, prog):
            t = K.peel(ret) if ret is not None else None
            if t is None:
                ok = False
            elif isinstance(t, tuple) and t[0] == "agg" and str(t[2]) == "None":
                ok = ok and any(x[0] == "is_ok" and x[2] is False and search_of(b, x[1][0], 2) for x in atoms)
            else:
                some += 1
                ok = ok and search_of(b, t, 2)
        o.check(ok and some >= 1, "SortedVecMap::%s|by-search" % fn, "%s answers from the position search(key) reports" % fn, b.span)
    # nobody else reaches into the vectors
    others = []
    for d, ob_ in prog.bodies.items():
        if ob_.generated or d.startswith(SV) or d.startswith("<" + SV):
            continue
        for (_bb, ow, n, _sp) in ob_.field_reads():
            if ow.startswith(SV + "SortedVec") and n == "0":
                others.append(fshort(d))
    o.check(not others, "sorted_vec|encapsulated", "the backing vectors are touched only inside pool::sorted_vec", "", {"others": sorted(set(others))[:4]})


def ob_registry(run, oid):
    prog = run.program("lib")
    o = run.ob(oid, "the waiting registry keeps every child waiting for a parent's certificate",
               "one parent can have several waiting children (equivocating next-slot blocks, children across skipped slots); a displaced child never gets safe-to-notar re-evaluated", floor=1)
    r = prog.adts.get(PI)
    if not r:
        o.missing("struct PoolImpl")
        return
    f = [x for x in r["variants"][0]["fields"] if x["name"] == "s2n_waiting_parent_cert"]
    if not f:
        o.missing("PoolImpl.s2n_waiting_parent_cert")
        return
    ty = f[0]["ty"]
    # the key names the parent BLOCK (slot and hash): a registry keyed by the slot alone releases the children of every block of that slot
    m = re.match(r"^[A-Za-z0-9_:]+<(.*)$", ty)
    inner = m.group(1) if m else ty
    depth = 0
    key = ""
    for ch in inner:
        if ch in "(<[":
            depth += 1
        elif ch in ")>]":
            depth -= 1
        if ch == "," and depth == 0:
            break
        key += ch
    o.check(any(x in key for x in ("Hash", "MerkleRoot")), "PoolImpl.s2n_waiting_parent_cert|keyed-by-block", "the registry is keyed by the parent's block id (slot AND hash)", r["span"], {"key": key.replace("alpenglow::", "")})
    # value type of the map: after the key tuple
    multi = any(x in ty.split(")", 1)[-1] for x in ("Vec<", "SmallVec<", "BTreeSet<", "HashSet<", "VecDeque<"))
    if multi:
        o.ok("PoolImpl.s2n_waiting_parent_cert|multi-valued", "value type holds several children per parent", r["span"], {"type": ty.replace("alpenglow::", "")})
        return
    # single-valued: every insert must consume the displaced value
    bad = []
    for b in K.bodies_in(prog, POOL):
        for c in b.calls():
            if c.name.endswith("::insert") and K.is_field(b.operand_term(c.args[0]), "s2n_waiting_parent_cert", "PoolImpl"):
                used = any(d[0] == "stmt" and any(True for _ in [1]) for d in [])
                # result used iff its destination local is read by a discriminant / passed on
                l = c.dst["l"]
                reads = 0
                for bl in b.blocks:
                    for st in bl["stmts"]:
                        if st["k"] == "assign" and st["rv"]["k"] == "discr" and st["rv"]["pl"]["l"] == l:
                            reads += 1
                if reads == 0:
                    bad.append(c)
    for c in bad:
        o.fail("%s|s2n_waiting_parent_cert.insert|displaces" % fshort(c.body.defpath),
               "single-valued registry: insert silently displaces an earlier waiting child of the same parent", c.span, {"type": ty.replace("alpenglow::", "")})
    if not bad:
        o.ok("PoolImpl.s2n_waiting_parent_cert|displaced-consumed", "displaced values are consumed", r["span"])


def check(run):
    D.ob_watermark_comparisons(run, "O6.7", ["consensus::pool"], 10, "a child waiting for its parent's certificate (or a pending safe-to-notar block) dropped one slot too early is never re-evaluated: the signal is not raised although every condition holds")
    ob_s2n_table(run, "O6.1")
    ob_triggers(run, "O6.2")
    ob_safe_to_skip(run, "O6.3")
    ob_s2n_events(run, "O6.4")
    ob_bookkeeping(run, "O6.5")
    ob_registry(run, "O6.6")
    ob_parent_certified(run, "O6.8")
    ob_sorted_vec(run, "O6.10")
    # "the parent's certificate arrives last (by received certificate)": a received certificate the pool refuses as a duplicate never notifies
    # the waiting child - the duplicate rule is per kind, and per block for notar-fallback
    from . import C03 as _C03
    _C03.ob_once(run, "O6.11")
    D.ob_loop_exits(run, "O6.9", ["consensus::pool"], "a certificate can release several waiting children, a skip vote several pending blocks: leaving the loop at the first one that has nothing to report leaves the others waiting for ever")
