"""Reviewed panic sites for the network-facing closure (C10 O10.1).

Two layers:
  * AUTO: typed idioms that discharge a site mechanically (the reason names the idiom);
  * TABLE: (fn path without crate prefix, kind, what) -> (max count, reason[, 'finding']) entered by hand after
    reading the code. A site that is in neither, or the (count+1)-th site of a reviewed group, is a VIOLATION.
"""
import re
from engine import mir
from . import common as K

SELECT_MSGS = ("all branches are disabled and there is no else bra", "internal error: entered unreachable code: failed t", "internal error: entered unreachable code: reaching")


STAKE_SUM_SHORT = "stakes of distinct validators sum to at most the total stake, which fits u64"


def auto(site, prog):
    """-> reason string when the site is discharged by an idiom, else None"""
    b = site.body
    t = site.term
    # A1 tokio::select! expansion
    if site.exp and (any(site.msg.startswith(m) for m in SELECT_MSGS) or (site.kind == "assert" and site.what == "RemainderByZero" and b.is_closure and "::{closure#0}::{closure#" in b.defpath)):
        return "tokio::select! expansion (branch bookkeeping on a constant branch count; independent of inputs)"
    if site.kind == "unwrap" and t is not None and t[0] == "call" and t[2]:
        recv = t[2][0]
        pv = b.provenance(recv)
        calls = pv["calls"]
        # A3 channel / task handles
        if any(("mpsc" in c or "oneshot" in c) and (c.endswith("::send") or c.endswith("::try_send")) for c in calls) or any(c.endswith("Sender<T>::send") or c.endswith("Sender<T>::try_send") for c in calls):
            return "expect on a local channel send (peer task owns the receiver for the node's lifetime; not input dependent)"
        if any("JoinHandle" in c for c in calls) or any("task::join" in c for c in calls):
            return "expect on a local JoinHandle (not input dependent)"
        # A4 shredder pool
        if any(c.endswith("ShredderPool::checkout") or "ShredderPool" in c and "checkout" in c for c in calls):
            return "shredder pool checkout: exclusive access to the pool is held by the caller (local resource)"
        # A5 wincode into memory
        if any(c.startswith("wincode::") and ("serialize" in c or "serialized_size" in c) and "deserialize" not in c for c in calls):
            return "wincode serialisation of an in-memory value into a Vec / size computation: no I/O, no size limit"
        # A6 array length conversions between constant-length slices
        if any(c.endswith("TryInto<U>>::try_into") or c.endswith("::try_into") for c in calls) and any(c.endswith("::concat") or c.endswith("split_off") for c in calls):
            return None
    if site.kind == "assert" and site.what == "BoundsCheck" and t is not None:
        ln, ix = t[1][0], t[1][1]
        ln, ix = K.peel(ln), K.peel(ix)
        if ln[0] == "const" and ix[0] == "const" and isinstance(ln[2], int) and isinstance(ix[2], int) and ix[2] < ln[2]:
            return "constant index %d into an array of constant length %d" % (ix[2], ln[2])
        # A7 fixed arrays indexed by a bounded index newtype
        def shred_index_typed(x):
            return x[0] in ("param", "local") and "ShredIndex" in b.local_ty(x[1])
        if ln[0] == "const" and ln[2] == 64 and (K.mentions_field(ix, "shred_index") or K.mentions_call(ix, "ShredIndex::inner") or K.mentions(ix, lambda x: x[0] == "field" and x[3].endswith("ShredIndex")) or K.mentions(ix, shred_index_typed)):
            return "[_; TOTAL_SHREDS] indexed by a ShredIndex (< TOTAL_SHREDS by its constructor and decoder: C19 O19.4)"
    if site.kind == "index" and t is not None and t[0] == "call" and len(t[2]) == 2:
        base, ix = t[2][0], t[2][1]
        if K.mentions(base, lambda x: x[0] == "field" and x[3].endswith("slot_state::SlotVotes")):
            if K.mentions_call(ix, "Vote::signer") or K.mentions_call(ix, "own_id"):
                return "SlotVotes vector (validators.len() entries, SlotVotes::new) indexed by a validated signer (C09 O9.2) / own_id (< len by ValidatorEpochInfo::new)"
        if ix[0] == "agg" and ix[1].endswith("Range") and base[0] in ("local", "param") and False:
            return None
    if site.kind == "index" and t is not None and t[0] == "call" and len(t[2]) == 2 and b.is_closure and "::{closure" in b.defpath:
        # `(0..xs.len()).filter(|i| xs[*i])`, `.map(|i| xs[i])`: the closure's argument is drawn from a range that ends at the length of the
        # very collection it indexes
        base, ix = K.peel(t[2][0]), K.peel(t[2][1])
        while isinstance(ix, tuple) and ix and ix[0] in ("deref", "ref") and len(ix) > 1:
            ix = ix[1]
        if isinstance(base, tuple) and base and base[0] == "upvar" and isinstance(ix, tuple) and ix and ix[0] == "param":
            parent = prog.bodies.get(b.defpath.rsplit("::{closure", 1)[0])
            if parent is not None:
                for c in parent.calls():
                    if c.name.rsplit("::", 1)[-1] not in ("filter", "map", "filter_map", "for_each", "all", "any", "find", "take_while", "skip_while", "position", "flat_map", "inspect"):
                        continue
                    ts = [parent.operand_term(a) for a in c.args]
                    cl = [x for x in ts if isinstance(x, tuple) and x and x[0] == "closure" and x[1] == b.defpath]
                    if not cl:
                        continue
                    cap = dict(cl[0][2]).get(base[1])
                    rng = [x for x in ts if isinstance(x, tuple) and x and x[0] == "agg" and str(x[1]).endswith("ops::range::Range")]
                    if cap is None or not rng:
                        continue
                    end = dict(rng[0][3]).get("end")
                    if isinstance(end, tuple) and end and end[0] == "call" and end[1].rsplit("::", 1)[-1] == "len" and end[2] and K.peel(end[2][0]) == K.peel(cap):
                        return "index drawn from 0..len() of the very collection it indexes"
    if site.kind == "panic":
        # `if xs.is_empty() { return } .. debug_assert!(!xs.is_empty())`: the panic edge asks for the opposite of a condition that dominates it - infeasible
        from engine import guards as _G0
        from engine import paths as _P0
        try:
            _PURE = ("len", "is_empty", "is_some", "is_none", "inner", "slot", "as_ref", "deref", "as_slice", "first", "last", "get", "contains", "contains_key", "as_usize", "count_ones")

            def _stable(t):
                """the same pure accessor applied to the same immutable parameter yields the same value wherever it is evaluated: drop the call-site id"""
                if not isinstance(t, tuple) or not t:
                    return t
                if t[0] == "call" and len(t) > 3 and t[1].rsplit("::", 1)[-1] in _PURE:
                    roots = [y for y in mir.walk(t) if isinstance(y, tuple) and y and y[0] in ("param", "local", "upvar", "field")]
                    if roots and all(y[0] == "param" and not b.local_ty(y[1]).startswith("&mut") for y in roots if y[0] != "field") and not any(y[0] in ("local", "upvar") for y in roots):
                        return (t[0], t[1], tuple(_stable(a) for a in t[2]), 0)
                if t[0] in ("bin", "un", "cast", "field", "variant", "tuple"):
                    return tuple(_stable(x) if isinstance(x, tuple) else x for x in t)
                return t
            _atoms = [(a[0], tuple(_stable(x) if isinstance(x, tuple) else x for x in a[1]), a[2]) + tuple(a[3:]) for a in _G0.guard_atoms(b, site.bb, prog)]
            if _atoms and not _P0.feasible([a for a in _atoms if a[0] != "lowered"]):
                return "assertion restating a dominating check (its failure edge contradicts a condition established above): unreachable"
        except Exception:
            pass
    if site.kind == "panic":
        # `if let Err(e) = tx.send(x).await { panic!(..) }`: the let-else / match spelling of `.expect(..)` on a local channel send (A3)
        from engine import guards as _G
        for a in _G.guard_atoms(b, site.bb, prog):
            if a[0] == "is_ok" and a[2] is False and isinstance(a[1][0], tuple):
                calls = [x[1] for x in mir.walk(a[1][0]) if isinstance(x, tuple) and x and x[0] == "call"]
                if any(("mpsc" in c or "oneshot" in c) and c.endswith(("::send", "Sender<T>::send")) for c in calls):
                    return "panic on the Err arm of a local channel send (peer task owns the receiver for the node's lifetime; not input dependent)"
    if site.kind == "index" and t is not None and t[0] == "call" and len(t[2]) == 2:
        # `if xs.len() == k { xs[c] }` with c < k, `if !xs.is_empty() { xs[0] }`: a constant index under a dominating length test on the same collection
        from engine import guards as _G
        base, ix = K.peel(t[2][0]), K.peel(t[2][1])
        c0 = K.const_eval(ix) if isinstance(ix, tuple) else None
        if c0 is not None:
            for a in _G.guard_atoms(b, site.bb, prog):
                if a[0] == "eq" and a[2] is True and len(a[1]) == 2:
                    for l, r in ((a[1][0], a[1][1]), (a[1][1], a[1][0])):
                        l = K.peel(l)
                        if isinstance(l, tuple) and l and l[0] == "call" and l[1].rsplit("::", 1)[-1] == "len" and l[2] and K.peel(l[2][0]) == base:
                            k = K.const_eval(r)
                            if k is not None and c0 < k:
                                return "constant index %d under the dominating test len() == %d on the same collection" % (c0, k)
                if c0 == 0 and a[0] == "bool" and a[2] is False and isinstance(a[1][0], tuple) and a[1][0][0] == "call" and a[1][0][1].rsplit("::", 1)[-1] == "is_empty" and a[1][0][2] and K.peel(a[1][0][2][0]) == base:
                    return "index 0 under the dominating test !is_empty() on the same collection"
    if site.kind == "index" and t is not None and t[0] == "call" and len(t[2]) == 2:
        # `self.xs[..self.n()]` where n() is `self.xs.len() - c` (a slice that ends c elements before the end of the very collection it is taken from)
        base, ix = K.peel(t[2][0]), K.peel(t[2][1])
        if isinstance(ix, tuple) and ix and ix[0] == "agg" and str(ix[1]).endswith(("ops::range::RangeTo", "ops::range::Range")) and isinstance(base, tuple) and base and base[0] == "field":
            end = K.peel(dict(ix[3]).get("end"))
            start = dict(ix[3]).get("start")
            if (start is None or K.const_eval(start) == 0) and isinstance(end, tuple) and end and end[0] == "call" and end[1] in prog.bodies and len(end[2]) == 1:
                cb = prog.bodies[end[1]]
                rt = K.peel(cb.local_term(0))
                # Sub / checked / saturating of len(self.<field>) and a constant
                ok = False
                for y in mir.walk(rt):
                    if isinstance(y, tuple) and y and ((y[0] == "bin" and y[1].startswith("Sub")) or (y[0] == "call" and y[1].rsplit("::", 1)[-1] in ("saturating_sub", "wrapping_sub"))):
                        ops = (y[2], y[3]) if y[0] == "bin" else tuple(y[2][:2])
                        l0 = K.peel(ops[0])
                        if isinstance(l0, tuple) and l0 and l0[0] == "call" and l0[1].rsplit("::", 1)[-1] == "len" and l0[2] and K.is_field(l0[2][0], base[2]) and K.const_eval(ops[1]) is not None:
                            ok = True
                if ok:
                    return "slice up to %s(): the length of the same collection minus a constant" % end[1].rsplit("::", 1)[-1]
    if site.kind == "method" and site.what.endswith("copy_from_slice") and t is not None and t[0] == "call" and len(t[2]) == 2:
        # `buf[a..b].copy_from_slice(&x.to_le_bytes())` with b - a == size of the integer: both lengths are constants and equal
        dst, src = K.peel(t[2][0]), K.peel(t[2][1])
        dlen = None
        for y in mir.walk(dst):
            if isinstance(y, tuple) and y and y[0] == "agg" and str(y[1]).endswith(("ops::range::Range", "ops::range::RangeTo")):
                f = dict(y[3])
                a0 = K.const_eval(f.get("start")) if f.get("start") is not None else 0
                b0 = K.const_eval(f.get("end")) if f.get("end") is not None else None
                if a0 is not None and b0 is not None:
                    dlen = b0 - a0
        slen = None
        if isinstance(src, tuple) and src and src[0] == "call" and src[1].rsplit("::", 1)[-1] in ("to_le_bytes", "to_be_bytes", "to_ne_bytes") and len(src) > 3:
            tm = b.blocks[src[3]]["term"]
            m_ = re.match(r"^\[u8; (\d+)\]$", b.local_ty(tm["dst"]["l"]).strip())
            if m_:
                slen = int(m_.group(1))
        if dlen is not None and slen is not None and dlen == slen:
            return "copy of %d bytes into a constant %d-byte range" % (slen, dlen)
    if site.kind == "method" and site.what.endswith("div_ceil") and t is not None and t[0] == "call" and len(t[2]) == 2:
        d = K.peel(t[2][1])
        v = K.const_eval(d)
        if v is not None and v != 0:
            return "div_ceil by the non-zero constant %s" % v
        if isinstance(d, tuple) and d and d[0] == "bin" and d[1].startswith("Shl") and K.const_eval(d[2]) not in (None, 0):
            return "div_ceil by a power of two (c << i, c != 0)"
    if site.kind == "arith" and site.what == "add_assign Stake" and t is not None and t[0] == "call" and len(t[2]) == 2:
        # `let mut s = Stake::default(); for v in .. { s += v.stake }`: the loop spelling of `.map(|v| v.stake).sum::<Stake>()` - the same
        # additions in the same order; the sum of the stakes of distinct validators is at most the total stake, which EpochInfo::new summed
        acc, add = K.peel(t[2][0]), K.peel(t[2][1])
        if isinstance(acc, tuple) and acc and acc[0] == "local" and K.is_field(add, "stake") and "ValidatorInfo" in str(add[3] if len(add) > 3 else ""):
            bb = t[3] if len(t) > 3 else None
            inloop = [nodes for (_h, nodes) in b.loops() if bb in nodes]
            inits = [d for d in b.defs().get(acc[1], []) if not any(d[1] in nodes for nodes in inloop)]
            if inloop and inits and all(d[0] == "call" and mir.strip_generics(d[3].get("callee", "")).rsplit("::", 1)[-1] in ("default", "new") for d in inits):
                return "running sum of ValidatorInfo.stake in a loop, starting from zero: the arithmetic of Iterator::sum::<Stake>() over the same elements (" + STAKE_SUM_SHORT + ")"
    if site.kind == "assert" and site.what == "Overflow:Sub" and t is not None:
        a, c = K.peel(t[1][0]), K.peel(t[1][1])
        # x - x % c  (and x - (x & m)): the subtrahend never exceeds x
        if isinstance(c, tuple) and c and c[0] == "bin" and (c[1].startswith("Rem") or c[1] == "BitAnd") and (K.peel(c[2]) == a or (c[1] == "BitAnd" and K.peel(c[3]) == a)):
            return "x - (x %% c) / x - (x & m): the subtrahend is at most x"
    if site.kind in ("assert",) and site.what in ("DivisionByZero", "RemainderByZero") and site.cond is not None:
        c = site.cond            # Eq(divisor, 0), expected false
        if c[0] == "bin" and c[1] == "Eq":
            v = K.const_eval(c[2])
            if v is not None and v != 0:
                return "division by the non-zero constant %s" % v
    return None


P = "disseminator::rotor::sampling_strategy::"
SAFETY = "defensive 'consensus safety violation' check: fires only if two conflicting certificates were both admitted, i.e. >= 20% of the stake signed conflicting votes (outside the fault assumption of every property here)"
DBG_WATERMARK = "debug assertion slot >= first_unpruned_slot: PoolImpl::add_cert/add_vote reject slots below the watermark before add_valid_cert (C08 O8.5); the release path returns early"
STAKE_SUM = "sum of stakes of distinct validators (each counted once per class, C04) <= total stake, which fits u64 (EpochInfo::new sums it)"

TABLE = {
    # ---- slice / number methods with a precondition (found when the matching of `<impl [T]>` / `<impl usize>` method paths was repaired, round 10)
    ("consensus::block_producer::produce_slice_payload", "method", "slice::copy_from_slice"):
        (1, "buffer[0..8] <- u64::to_le_bytes(): 8 bytes on both sides; the buffer starts with 8 reserved bytes (extend([0; 8]))"),
    ("shredder::SliceCommitment::new", "method", "slice::copy_from_slice"):
        (3, "constant ranges of the [u8; SLICE_COMMITMENT_LEN] buffer (8, 8 and 32 bytes) filled from u64::to_le_bytes() twice and the 32-byte slice root"),
    ("crypto::merkle::MerkleTree::new", "method", "num::ilog2"): (1, "nodes.len() > 0: assert!(!nodes.is_empty()) on the line before (non-empty leaves, see the entry for that assertion)"),
    ("shredder::reed_solomon::ReedSolomonCoder::shred", "method", "slice::chunks"):
        (2, "chunk size shred_bytes = (len + padding) / DATA_SHREDS >= 2 for every admitted payload length (C11 O11.6 evaluates this arithmetic for all 32 768 lengths)"),
    ("shredder::reed_solomon::ReedSolomonCoder::shred", "method", "slice::split_at"):
        (1, "payload.split_at(boundary): boundary = len - (last_shreds_bytes - padding) <= len for every admitted length (C11 O11.6 evaluates it); the spelling `payload[..boundary]` / `payload[boundary..]` is the reviewed index pair"),
    ("types::stake::Stake::div_ceil", "method", "num::div_ceil"): (1, "divisor = number of bins: PartitionSampler::new returns early for num_bins == 0 (its only caller)"),
    # ---- blockstore
    ("<consensus::blockstore::BlockstoreImpl as consensus::blockstore::Blockstore>::get_block", "panic", "panicking::assert_failed"):
        (1, "debug assertion stored hash == requested hash: dissemination data is keyed by slot and compared, repair data is filed under the requested hash and completes only with that hash (C14 O14.3)"),
    ("<consensus::pool::PoolImpl as consensus::pool::Pool>::add_block::{closure#0}", "panic", "panicking::panic"):
        (1, "block.slot > parent.slot: every BlockInfo comes from try_reconstruct_block, which rejects parents not in an earlier slot (C13 O13.2/O13.5)"),
    ("consensus::blockstore::slot_block_data::BlockData::add_own_slice", "panic", "panicking::panic_fmt"):
        (4, "own slices only (leader fast path, fed by the local block producer): debug consistency checks, 'added after last slice' and unreachable!() on own-block reconstruction are not reachable from network input"),
    ("consensus::blockstore::slot_block_data::BlockData::add_own_slice", "panic", "panicking::assert_failed"): (1, "own slices only (debug assertion slice.slot == slot)"),
    ("consensus::blockstore::slot_block_data::BlockData::add_shred", "panic", "panicking::assert_failed"):
        (1, "debug assertion header.slot == self.slot: BlockData is looked up by the shred's own header.slot (slot_data_mut(shred.payload().header.slot))"),
    ("consensus::blockstore::slot_block_data::BlockData::mark_last_slice", "panic", "panicking::panic"): (1, "debug assertion last_slice.is_none(): called only from the `None if is_last` arm / own-slice path behind assert"),
    ("consensus::blockstore::slot_block_data::BlockData::try_reconstruct_block", "unwrap", "Option::expect"):
        (2, "slices.len() == last+1 with keys <= last (mark_last_slice retains <= last) implies slice 0 present; first slice has a parent (try_reconstruct_slice rejects otherwise, C13 O13.2)"),
    ("consensus::blockstore::slot_block_data::BlockData::try_reconstruct_slice", "unwrap", "Option::expect"): (1, "called right after the shred was inserted into self.shreds[index]"),
    ("consensus::blockstore::slot_block_data::SlotBlockData::add_shred_from_dissemination", "panic", "panicking::assert_failed"): (1, "debug assertion: slot data is looked up by the shred's own slot"),
    ("consensus::blockstore::slot_block_data::SlotBlockData::add_shred_from_repair", "panic", "panicking::assert_failed"): (1, "debug assertion: slot data is looked up by the shred's own slot"),
    # ---- block producer (local timers / own blocks)
    ("consensus::block_producer::BlockProducer::produce_block_parent_not_ready::{closure#0}", "panic", "panicking::assert_failed"): (1, "parent_slot == slot.prev(): the optimistic parent is disseminated_block_hash(slot.prev()) chosen by wait_for_first_slot"),
    ("consensus::block_producer::BlockProducer::produce_block_parent_not_ready::{closure#0}", "panic", "panicking::panic"):
        (3, "window-start assertion on the locally computed slot; duration bookkeeping asserts on local timers; unreachable!() after the loop over a constant slice range"),
    ("consensus::block_producer::BlockProducer::produce_block_parent_ready::{closure#0}", "panic", "panicking::panic"): (2, "duration bookkeeping on local timers; unreachable!() after the loop over a constant slice range"),
    ("consensus::block_producer::BlockProducer::shred_and_disseminate::{closure#0}", "unwrap", "Result::expect"):
        (1, "shredding an own slice: produce_slice_payload bounds the payload by MAX_DATA_PER_SLICE (transactions above MAX_TRANSACTION_SIZE are dropped, O10.3)"),
    ("consensus::block_producer::BlockProducer::shred_and_disseminate::{closure#0}", "panic", "panicking::panic_fmt"): (2, "own block: completes exactly with its last slice (slices produced in order by this task)"),
    ("consensus::block_producer::apply_parent_ready", "unwrap", "Result::expect"): (1, "oneshot from the pool's parent-ready tracker, which lives as long as the pool (local resource)"),
    ("consensus::block_producer::produce_slice_payload::{closure#0}", "unwrap", "Result::expect"):
        (1, "receive() on the transaction network: only a local socket error (UdpNetwork::receive drops undecodable datagrams, it does not return them as errors)"),
    ("consensus::block_producer::produce_slice_payload::{closure#0}", "index", "Vec<u8>[Range<usize>]"): (1, "buffer[0..8]: the buffer starts with 8 reserved bytes (extend([0; 8]))"),
    ("consensus::block_producer::wait_for_first_slot::{closure#0}", "panic", "panicking::panic"): (1, "window-start assertion on a locally computed slot"),
    ("consensus::block_producer::wait_for_first_slot::{closure#0}", "unwrap", "Result::expect"): (1, "oneshot from the pool's parent-ready tracker (local resource)"),
    # ---- certificates built from stored votes
    ("consensus::cert::FastFinalCert::new", "unwrap", "Result::expect"): (1, "votes are SlotVotes::notar_votes(h) of one slot state: same slot, same hash"),
    ("consensus::cert::FinalCert::new", "unwrap", "Result::expect"): (1, "votes are SlotVotes::final_votes() of one slot state: same slot"),
    ("consensus::cert::NotarCert::new", "unwrap", "Result::expect"): (1, "votes are SlotVotes::notar_votes(h) of one slot state: same slot, same hash"),
    ("consensus::cert::NotarFallbackCert::new", "unwrap", "Result::expect"): (1, "votes are notar_votes(h) / notar_fallback_votes(h) of one slot state: same slot, same hash"),
    ("consensus::cert::SkipCert::new", "unwrap", "Result::expect"): (1, "votes are skip_votes() / skip_fallback_votes() of one slot state: same slot"),
    ("consensus::cert::FastFinalCert::try_new", "assert", "BoundsCheck"): (2, "votes[0]: called only behind is_strong_quorum(stake) with the crossing vote stored first (C03 O3.1): at least one vote"),
    ("consensus::cert::FinalCert::try_new", "assert", "BoundsCheck"): (1, "votes[0]: called only behind is_quorum(stake) with the crossing vote stored first (C03 O3.1)"),
    ("consensus::cert::NotarCert::try_new", "assert", "BoundsCheck"): (2, "votes[0]: called only behind is_quorum(stake) with the crossing vote stored first (C03 O3.1)"),
    ("consensus::cert::NotarFallbackCert::try_new", "unwrap", "Option::expect"): (1, "at least one vote: called only behind is_quorum(notar+nf stake) with the crossing vote stored first (C03 O3.1)"),
    ("consensus::cert::SkipCert::try_new", "unwrap", "Option::expect"): (1, "at least one vote: called only behind is_quorum(skip+sf stake) with the vote stored first"),
    ("consensus::cert::FastFinalCert::try_new::{closure#0}", "assert", "BoundsCheck"): (1, "validators[signer]: stored votes carry validated signers (C09 O9.2)"),
    ("consensus::cert::FinalCert::try_new::{closure#0}", "assert", "BoundsCheck"): (1, "validators[signer]: stored votes carry validated signers (C09 O9.2)"),
    ("consensus::cert::NotarCert::try_new::{closure#0}", "assert", "BoundsCheck"): (1, "validators[signer]: stored votes carry validated signers (C09 O9.2)"),
    ("consensus::cert::NotarFallbackCert::try_new::{closure#0}", "assert", "BoundsCheck"): (1, "validators[signer]: stored votes carry validated signers (C09 O9.2)"),
    ("consensus::cert::NotarFallbackCert::try_new::{closure#1}", "assert", "BoundsCheck"): (1, "validators[signer]: stored votes carry validated signers (C09 O9.2)"),
    ("consensus::cert::SkipCert::try_new::{closure#0}", "assert", "BoundsCheck"): (1, "validators[signer]: stored votes carry validated signers (C09 O9.2)"),
    ("consensus::cert::SkipCert::try_new::{closure#1}", "assert", "BoundsCheck"): (1, "validators[signer]: stored votes carry validated signers (C09 O9.2)"),
    ("crypto::aggsig::AggregateSignature::new", "unwrap", "Option::expect"): (1, "non-empty: certificates are built from >= 1 stored vote (see XCert::try_new)"),
    ("crypto::aggsig::AggregateSignature::new", "panic", "panicking::panic_fmt"): (3, "index < num_bits = validators.len() (validated signers); no duplicate signer: one stored vote per validator and class (C04)"),
    ("crypto::aggsig::AggregateSignature::new", "index", "BitVec[usize]"): (1, "bit_idx < num_bits asserted on the line before"),
    ("crypto::aggsig::AggregateSignature::new", "unwrap", "Result::expect"): (1, "blst add_signature with sig_groupcheck=false is infallible"),
    ("crypto::aggsig::AggregateSignature::new::{closure#0}", "panic", "panicking::panic_fmt"): (1, "sigs and indices are two maps over the same vote slice (aggsig_from_votes)"),
    ("crypto::aggsig::AggregateSignature::verify_bytes::{closure#0}", "assert", "BoundsCheck"): (1, "signers() < bitmask.len() == pks.len() (length check dominates, C09 O9.7)"),
    # ---- epoch info
    ("consensus::epoch_info::EpochInfo::leader", "assert", "RemainderByZero"): (1, "validators.len() > 0: epoch configuration (ValidatorEpochInfo::new asserts own_id < len)"),
    ("consensus::epoch_info::EpochInfo::validator", "index", "Vec<ValidatorInfo>[usize]"): (1, "every caller passes a validated / locally derived index (checked per call site by O10.2)"),
    # ---- pool
    ("consensus::pool::PoolImpl::add_valid_cert::{closure#0}", "unwrap", "Option::expect"): (1, "Notar/NotarFallback arm: Cert::block_hash() is Some for these variants (Cert::block_hash match)"),
    ("consensus::pool::PoolImpl::send_parent_ready_events::{closure#0}", "panic", "panicking::panic"): (1, "debug assertion: the tracker announces pairs only for window-start slots (C07 O7.2)"),
    ("consensus::pool::finality_tracker::FinalityTracker::add_parent", "panic", "panicking::panic"):
        (2, "block.slot > parent.slot (C13 O13.2) ; same block id registered with another parent: block id is the double-Merkle root over the slices which contain the parent, so a second parent needs a hash collision"),
    ("consensus::pool::finality_tracker::FinalityTracker::handle_implicitly_finalized", "panic", "panicking::panic"): (1, "source_slot > parent slot: parents come from add_parent (block.slot > parent.slot)"),
    ("consensus::pool::finality_tracker::FinalityTracker::handle_implicitly_finalized", "panic", "panicking::panic_fmt"): (2, SAFETY),
    ("consensus::pool::finality_tracker::FinalityTracker::handle_implicitly_finalized", "panic", "panicking::assert_failed"): (2, SAFETY),
    # (no watermark assertion in mark_fast_finalized: it is called for the SECOND tracker-relevant certificate one notar vote can create - Notar, then FastFinal -
    #  and handling the first may have moved the watermark past the slot: D19, fixed in 88c56c6; C10 O10.1p keeps it out)
    ("consensus::pool::finality_tracker::FinalityTracker::mark_fast_finalized", "panic", "panicking::assert_failed"): (2, SAFETY),
    ("consensus::pool::finality_tracker::FinalityTracker::mark_fast_finalized", "panic", "panicking::panic_fmt"): (1, SAFETY),
    ("consensus::pool::finality_tracker::FinalityTracker::mark_finalized", "panic", "panicking::panic"): (1, DBG_WATERMARK),
    ("consensus::pool::finality_tracker::FinalityTracker::mark_finalized", "panic", "panicking::panic_fmt"): (1, SAFETY),
    ("consensus::pool::finality_tracker::FinalityTracker::mark_notarized", "panic", "panicking::panic"): (1, DBG_WATERMARK),
    ("consensus::pool::finality_tracker::FinalityTracker::mark_notarized", "panic", "panicking::assert_failed"): (2, SAFETY),
    ("consensus::pool::parent_ready_tracker::parent_ready_state::ParentReadyState::add_to_ready", "panic", "panicking::panic"):
        (1, "tracker invariant: a (slot, parent) pair is propagated once - mark_notar_fallback / mark_skip return early when already marked and the backward scan excludes the marked slot's own blocks (tests no_double_counting_*)"),
    ("consensus::pool::parent_ready_tracker::parent_ready_state::ParentReadyState::wait_for_parent_ready", "panic", "panicking::panic"):
        (2, "Ready is only constructed with one id (smallvec![id]); a second waiter for the same slot would be a second block producer task (single local caller)"),
    ("consensus::pool::parent_ready_tracker::parent_ready_state::ParentReadyState::wait_for_parent_ready", "index", "SmallVec<[(Slot, DoubleMerkleRoot); 1]>[usize]"): (1, "non-empty asserted on the line before"),
    ("consensus::pool::slot_state::SlotState::add_vote", "panic", "panicking::panic"): (1, "notar-fallback vote for this hash not yet stored: should_ignore_vote filters it (C04 O4.2)"),
    ("consensus::pool::slot_state::SlotState::add_vote", "arith", "add_assign Stake"): (1, STAKE_SUM),
    ("consensus::pool::slot_state::SlotState::check_safe_to_notar", "arith", "add Stake"): (1, "notar[h] + skip: disjoint voters (skip and notar from one validator is slashable and refused) <= total stake"),
    ("consensus::pool::slot_state::SlotState::count_finalize_stake", "arith", "add_assign Stake"): (1, STAKE_SUM),
    ("consensus::pool::slot_state::SlotState::count_notar_fallback_stake", "arith", "add_assign Stake"): (1, STAKE_SUM),
    ("consensus::pool::slot_state::SlotState::count_notar_fallback_stake", "arith", "add Stake"): (1, "nf[h] + notar[h]: a validator's notar and notar-fallback for the same block are not both counted (NotarNotarFallback filter)"),
    ("consensus::pool::slot_state::SlotState::count_notar_stake", "arith", "add_assign Stake"): (2, STAKE_SUM),
    ("consensus::pool::slot_state::SlotState::count_notar_stake", "arith", "sub Stake"): (1, "notar_or_skip - top_notar: top_notar = max_h notar[h] and every notar[h] is included in notar_or_skip"),
    ("consensus::pool::slot_state::SlotState::count_notar_stake", "arith", "add Stake"): (1, "nf[h] + notar[h] (as above)"),
    ("consensus::pool::slot_state::SlotState::count_skip_stake", "arith", "add_assign Stake"): (2, STAKE_SUM),
    ("consensus::pool::slot_state::SlotState::count_skip_stake", "arith", "add Stake"): (1, "skip + skip_fallback: a validator's skip and skip-fallback are not both counted (SkipSkipFallback filter)"),
    ("consensus::pool::slot_state::SlotState::count_skip_stake", "arith", "sub Stake"): (1, "notar_or_skip - top_notar (as above)"),
    ("consensus::pool::slot_state::SlotState::notify_parent_certified", "panic", "panicking::panic_fmt"):
        (1, "callers: add_block right after notify_parent_known; notify_waiting_child for children registered by add_block (their slot state cannot be pruned while the parent's slot is above the watermark)"),
    ("consensus::pool::sorted_vec::SortedVecMap::get::{closure#0}", "index", "SmallVec<[(K, V); 1]>[usize]"): (1, "index returned by binary_search Ok(i) on the same vector"),
    ("consensus::pool::sorted_vec::SortedVecMap::get_mut", "index", "SmallVec<[(K, V); 1]>[usize]"): (1, "index returned by binary_search Ok(i) on the same vector"),
    ("consensus::pool::sorted_vec::SortedVecMap::get_or_insert_with", "index", "SmallVec<[(K, V); 1]>[usize]"): (1, "index is the found position or the position just inserted at"),
    # ---- votor
    ("consensus::votor::Votor::broadcast::{closure#0}", "unwrap", "Result::expect"): (1, "local socket error on broadcast is deliberately fatal (documented); not triggered by received data"),
    ("consensus::votor::Votor::set_timeouts", "panic", "panicking::panic"): (1, "callers pass first_slot_in_window() / a ParentReady slot (window start by C07 O7.2) / Slot::new(0)"),
    ("consensus::votor::Votor::set_timeouts::{closure#0}", "arith", "add Duration"): (1, "sum of two protocol constants"),
    ("consensus::votor::Votor::try_final::{closure#0}", "panic", "panicking::panic"): (1, "callers are behind should_ignore_pool_event / the stale-event guards (C05 O5.4/O5.9): slot >= first_unpruned_slot()"),
    ("consensus::votor::Votor::try_notar::{closure#0}", "panic", "panicking::panic"): (1, "callers are behind the stale-event guards (C05 O5.9); pending slots are retained state (>= first_unpruned after prune)"),
    ("consensus::votor::Votor::try_skip_window::{closure#0}", "panic", "panicking::panic"): (1, "callers are behind should_ignore_pool_event / the stale-event guards (C05 O5.4/O5.9)"),
    # ---- merkle
    ("crypto::merkle::DoubleMerkleRoot::short_hex", "index", "[u8][RangeTo<usize>]"): (1, "[..4] of a 32-byte hash"),
    ("crypto::merkle::MerkleTree::create_proof", "panic", "panicking::panic"):
        (2, "index < leaves: blockstore callers pass a slice index for which get_slice_root / get_last_slice_index answered (try_build_response returns None before create_double_merkle_proof otherwise: C14 O14.4 index-established + callers); shredder passes 0..TOTAL_SHREDS over a TOTAL_SHREDS-leaf tree"),
    ("crypto::merkle::MerkleTree::create_proof", "index", "SmallVec<[(u32, u32); 32]>[usize]"): (1, "levels[0] exists: trees have >= 1 leaf (MerkleTree::new asserts)"),
    ("crypto::merkle::MerkleTree::create_proof", "assert", "BoundsCheck"): (1, "EMPTY_ROOTS[h], h < height <= MAX_MERKLE_TREE_HEIGHT (leaf count fits u32 / const asserts on TOTAL_SHREDS, MAX_SLICES_PER_BLOCK)"),
    ("crypto::merkle::MerkleTree::create_proof", "index", "Vec<Hash>[usize]"): (1, "offset + (i^1) < offset + len by the branch condition"),
    ("crypto::merkle::MerkleTree::derive_hash_root_last", "assert", "BoundsCheck"): (2, "EMPTY_ROOTS[height]: proof.len() <= EMPTY_ROOTS.len() checked first (C15 O15.2)"),
    ("crypto::merkle::MerkleTree::get_root", "unwrap", "Option::expect"): (1, "trees have >= 1 node (MerkleTree::new asserts non-empty)"),
    ("crypto::merkle::MerkleTree::new", "panic", "panicking::panic"): (1, "non-empty leaves: slice trees have TOTAL_SHREDS leaves, block trees >= 1 slice (slices.len() == last+1 >= 1)"),
    ("crypto::merkle::MerkleTree::new", "unwrap", "Result::expect"): (1, "leaf count fits u32 (<= TOTAL_SHREDS / MAX_SLICES_PER_BLOCK)"),
    ("crypto::merkle::MerkleTree::new", "method", "Iterator::step_by"): (1, "step_by(2): constant non-zero step"),
    ("crypto::merkle::MerkleTree::new", "index", "Vec<Hash>[usize]"): (3, "i, i+1 within [left, right) by the loop bounds and the i+1 == right test"),
    ("crypto::merkle::MerkleTree::new", "assert", "BoundsCheck"): (1, "EMPTY_ROOTS[h], h < ceil(log2(leaves)) <= MAX_MERKLE_TREE_HEIGHT (const asserts)"),
    # ---- dissemination
    ("disseminator::rotor::Rotor::broadcast_if_relay::{closure#0}::{closure#1}", "assert", "BoundsCheck"): (1, "validators[i] for i in 0..validators.len()"),
    ("disseminator::rotor::Rotor::sample_relay", "assert", "BoundsCheck"): (1, "committee has TOTAL_SHREDS entries, ShredIndex < TOTAL_SHREDS (C17 O17.4)"),
    ("disseminator::rotor::Rotor::sample_relays", "unwrap", "Result::expect"): (1, "seed = 4 x 8 bytes"),
    ("disseminator::turbine::TurbineTree::new", "panic", "panicking::assert_failed"): (1, "seed = 16 + 8 + 8 bytes (constant lengths)"),
    ("disseminator::turbine::TurbineTree::new", "unwrap", "Result::expect"): (1, "seed is 32 bytes (asserted above)"),
    ("disseminator::turbine::TurbineTree::new", "index", "Vec<ValidatorIndex>[usize]"): (1, "validator_indices[0]: non-empty validator set (configuration)"),
    ("disseminator::turbine::TurbineTree::new", "unwrap", "Option::expect"): (1, "own id is a member of the epoch's validator set (ValidatorEpochInfo::new asserts)"),
    ("disseminator::turbine::TurbineTree::new", "assert", "DivisionByZero"): (1, "fanout is configuration (> 0)"),
    ("disseminator::turbine::TurbineTree::new::{closure#3}", "index", "Vec<ValidatorIndex>[usize]"): (1, "parent position (own_pos-1)/fanout < own_pos < len"),
    ("disseminator::turbine::weighted_shuffle::WeightedShuffle::new", "panic", "panicking::panic"): (2, "debug assertions on tree geometry computed from the validator count (ported from Solana's WeightedShuffle)"),
    ("disseminator::turbine::weighted_shuffle::WeightedShuffle::new", "arith", "add_assign Stake"): (1, "guarded by sum.checked_add(weight) on the total"),
    ("disseminator::turbine::weighted_shuffle::WeightedShuffle::remove", "panic", "panicking::panic"): (2, "debug assertions of the Fenwick-tree invariant (weight removed was added before)"),
    ("disseminator::turbine::weighted_shuffle::WeightedShuffle::remove", "arith", "sub_assign Stake"): (2, "removes a weight that was added (tree invariant)"),
    ("disseminator::turbine::weighted_shuffle::WeightedShuffle::remove", "index", "Vec<[Stake; 16]>[usize]"): (1, "index < tree.len() by the parent-index walk (debug assertion only)"),
    ("disseminator::turbine::weighted_shuffle::WeightedShuffle::remove", "assert", "BoundsCheck"): (1, "offset = (index-1) & 15 < 16"),
    ("disseminator::turbine::weighted_shuffle::WeightedShuffle::search", "panic", "panicking::panic"): (2, "debug assertions: val drawn from 0..weight, tree non-empty when weight > 0"),
    ("disseminator::turbine::weighted_shuffle::WeightedShuffle::search", "unwrap", "Option::expect"): (1, "val < subtree weight (tree invariant)"),
    ("disseminator::turbine::weighted_shuffle::WeightedShuffle::search::{closure#0}", "arith", "sub_assign Stake"): (1, "val >= node checked by the find predicate"),
    ("disseminator::turbine::weighted_shuffle::WeightedShuffle::shuffle::{closure#0}", "unwrap", "Result::expect"): (1, "sample_single(0, len) with len > 0 (is_empty checked)"),
    ("disseminator::turbine::weighted_shuffle::WeightedShuffle::shuffle::{closure#0}", "method", "Vec::swap_remove"): (1, "index < zeros.len() (sampled from 0..len)"),
    # ---- networks
    ("<network::udp::UdpNetwork<S, R> as network::Network>::send_to_many::{closure#0}", "panic", "panicking::panic_fmt"): (1, "encoded size <= MTU: worst case over the wire type graph (C19 O19.5)"),
    ("network::udp::UdpNetwork::send_serialized::{closure#0}", "panic", "panicking::panic_fmt"): (1, "encoded size <= MTU (C19 O19.5)"),
    ("network::udp::UdpNetwork::send_serialized::{closure#0}", "panic", "panicking::assert_failed"): (1, "UDP send_to sends a datagram whole or fails"),
    ("network::simulated::SimulatedNetwork::send_serialized::{closure#0}", "panic", "panicking::panic_fmt"): (1, "encoded size <= MTU (C19 O19.5)"),
    ("network::udp::UdpNetwork::recv_batch::{closure#0}", "index", "Vec<[u8; 1500]>[usize]"): (1, "i < number of datagrams returned by recv_into <= scratch.len()"),
    ("network::udp::UdpNetwork::recv_batch::{closure#0}", "index", "[u8; 1500][RangeTo<usize>]"): (1, "len is the kernel-reported datagram length <= buffer size (MSG_TRUNC not requested)"),
    ("network::udp::recvmmsg::recv_into::{closure#0}", "index", "Vec<mmsghdr>[RangeTo<usize>]"): (1, "r = recvmmsg return value <= vlen = msgs.len()"),
    ("network::udp::sendmmsg::send_to_many_linux::{closure#0}::{closure#1}::{closure#0}", "index", "Vec<SockAddr>[usize]"): (1, "sent + i < sockaddrs.len() by the chunk loop"),
    ("network::simulated::core::SimulatedNetworkCore::new::{closure#0}", "unwrap", "Option::expect"): (2, "heap peeked non-empty under the same lock; channel exists for a registered node (simulation only)"),
    ("network::simulated::core::SimulatedNetworkCore::send::{closure#0}", "method", "Duration::from_secs_f64"): (1, "jitter drawn from a bounded non-negative distribution (simulation only)"),
    ("network::simulated::core::SimulatedNetworkCore::send::{closure#0}", "arith", "add_assign Duration"): (1, "bounded simulated latency"),
    ("network::simulated::core::SimulatedNetworkCore::send::{closure#0}", "arith", "add Instant"): (1, "now + bounded simulated latency"),
    ("network::simulated::token_bucket::TokenBucket::wait_for::{closure#0}", "method", "Duration::from_secs_f64"): (1, "tokens > bucket on this branch; refill_rate > 0 (simulation configuration)"),
    # ---- repair
    ("repair::Repair::handle_response::{closure#0}", "panic", "panicking::panic_fmt"):
        (2, "Shred requests are issued only after the slice root (SliceRoot arm) and the last-slice index (LastSliceRoot arm) were recorded; these maps are never pruned"),
    ("repair::Repair::handle_response::{closure#0}", "panic", "panicking::assert_failed"):
        (1, "repaired block hash == requested hash: all slice roots and the slice count are proven against the requested hash and is_last markers are checked against the proven count (C14 O14.1/O14.3), so a different root needs a SHA-256 collision"),
    ("repair::Repair::send_request::{closure#0}", "arith", "add Instant"): (1, "now + constant timeout"),
    # ---- shredder
    ("shredder::SliceCommitment::new", "index", "[u8; 49][Range<usize>]"): (3, "constant ranges within the 49-byte buffer; copy_from_slice lengths 8/8/32 are fixed-size sources (C12 O12.2)"),
    ("shredder::assemble_output_shreds::{closure#0}", "unwrap", "Option::expect"): (1, "fill_missing_shreds fills all TOTAL_SHREDS entries (data.len()+coding.len() == TOTAL_SHREDS asserted)"),
    ("shredder::decrypt_payload", "method", "Vec::split_off"): (1, "ciphertext_len = len - KEY_BYTES via checked_sub"),
    ("shredder::decrypt_payload", "unwrap", "Result::expect"): (1, "tail has exactly KEY_BYTES bytes"),
    ("shredder::fill_missing_shreds", "panic", "panicking::assert_failed"): (1, "RegularShredder (the only one the node uses): RS coder yields DATA_SHREDS data + CODING_OUTPUT_SHREDS coding = TOTAL_SHREDS (C11 O11.1)"),
    ("shredder::fill_missing_shreds", "unwrap", "Option::expect"): (1, "index < TOTAL_SHREDS by the assert above"),
    ("shredder::reed_solomon::ReedSolomonCoder::deshred", "unwrap", "Result::expect"):
        (4, "reset: shard size non-zero and even (ValidatedShreds::try_new, evaluated: C11 O11.7 / O10.1e) and reconfigured on every call (O11.9); add_*: equal sizes, distinct in-range indices (array positions, kind == position checked); decode: >= DATA_SHREDS shards (O11.2)"),
    ("shredder::reed_solomon::ReedSolomonCoder::deshred", "assert", "BoundsCheck"): (1, "received[i], i = index of a data shred < DATA_SHREDS (data_shred_payloads takes the first DATA_SHREDS positions; position == index asserted in try_new)"),
    ("shredder::reed_solomon::ReedSolomonCoder::deshred", "unwrap", "Option::expect"): (1, "every missing original shard is restored by a successful decode"),
    ("shredder::reed_solomon::ReedSolomonCoder::deshred", "index", "Vec<u8>[usize]"): (1, "marker_idx = len - padding via checked_sub, padding >= 1"),
    ("shredder::reed_solomon::ReedSolomonCoder::encode_coding_from_data", "index", "Vec<Vec<u8>>[usize]"): (1, "DATA_SHREDS entries asserted on the line before"),
    ("shredder::reed_solomon::ReedSolomonCoder::encode_coding_from_data", "panic", "panicking::assert_failed"): (1, "deshred pushes one entry per data shard (loop over received[0..DATA_SHREDS])"),
    ("shredder::reed_solomon::ReedSolomonCoder::encode_coding_from_data", "unwrap", "Result::expect"): (3, "same shard size and count as the successful decode"),
    ("shredder::reed_solomon::ReedSolomonCoder::shred", "unwrap", "Result::expect"): (2, "shard size even, positive and <= MAX_DATA_PER_SHRED for every payload length <= MAX_DATA_PER_SLICE (evaluated, C11 O11.6; gate O11.3)"),
    ("shredder::reed_solomon::ReedSolomonCoder::shred", "index", "[u8][RangeFrom<usize>]"): (1, "boundary <= payload.len() for every payload length (evaluated, C11 O11.6)"),
    ("shredder::reed_solomon::ReedSolomonCoder::shred", "index", "[u8][RangeTo<usize>]"): (1, "boundary <= payload.len() for every payload length (evaluated, C11 O11.6)"),
    ("shredder::reed_solomon::ReedSolomonCoder::shred::{closure#0}", "unwrap", "Result::expect"): (1, "exactly DATA_SHREDS chunks of the shard size for every payload length (evaluated, C11 O11.6)"),
    ("shredder::validated_shred::ValidatedShred::new_validated", "panic", "panicking::assert_failed"): (1, "debug assertion: proofs come from the tree whose root is passed (fill_missing_shreds)"),
    ("shredder::validated_shreds::ValidatedShreds::any_shred", "unwrap", "Option::expect"): (1, "try_new returns None for an empty set"),
    ("shredder::validated_shreds::ValidatedShreds::coding_shred_payloads::{closure#0}::{closure#0}", "panic", "panicking::panic_fmt"): (1, "kind == position checked in try_new"),
    ("shredder::validated_shreds::ValidatedShreds::data_shred_payloads::{closure#0}::{closure#0}", "panic", "panicking::panic_fmt"): (1, "kind == position checked in try_new"),
    ("shredder::validated_shreds::ValidatedShreds::try_new", "panic", "panicking::assert_failed"):
        (2, "data+coding == TOTAL_SHREDS: associated consts (C11 O11.1); shred_index == array position: BlockData stores at slice_shreds[*shred_index]"),
    ("<shredder::pool::ShredderGuard<S> as core::ops::deref::DerefMut>::deref_mut", "unwrap", "Option::expect"): (1, "guard holds the shredder until dropped (local resource)"),
    ("<shredder::pool::ShredderGuard<S> as core::ops::deref::Deref>::deref", "unwrap", "Option::expect"): (1, "guard holds the shredder until dropped (local resource)"),
    ("shredder::reed_solomon::ReedSolomonCoder::new", "panic", "panicking::panic"): (1, "num_coding is an associated const of the shredder (<= TOTAL_SHREDS, C11 O11.1)"),
    ("shredder::reed_solomon::ReedSolomonCoder::new", "unwrap", "Result::expect"): (2, "constant Reed-Solomon dimensions (DATA_SHREDS, CODING_OUTPUT_SHREDS, MAX_DATA_PER_SHRED)"),
    # ---- types
    ("types::fraction::Fraction::is_met", "panic", "panicking::panic_fmt"): (1, "debug assertion total_stake != 0: epoch configuration"),
    ("types::slot::Slot::next", "unwrap", "Option::expect"): (1, "slots on the pool/votor paths are bounded by finalized + 2*SLOTS_PER_EPOCH (add_cert/add_vote window) or are local timer slots"),
    ("types::slot::Slot::prev", "unwrap", "Option::expect"): (1, "callers: try_notar's non-window-start branch (slot >= 1) and the block producer's local slots"),
    ("types::slot::Slot::windows", "method", "Iterator::step_by"): (1, "constant non-zero step"),
    # ---- samplers (shared with C17)
    ("<" + P + "DecayingAcceptanceSampler as " + P + "SamplingStrategy>::sample_info", "index", "Vec<ValidatorInfo>[usize]"): (1, "see C17 O17.3"),
    ("<" + P + "StakeWeightedSampler as " + P + "SamplingStrategy>::sample_info", "index", "Vec<ValidatorInfo>[usize]"): (1, "see C17 O17.3"),
    ("<" + P + "TurbineSampler as " + P + "SamplingStrategy>::sample_info", "index", "Vec<ValidatorInfo>[usize]"): (1, "see C17 O17.3"),
    ("<" + P + "UniformSampler as " + P + "SamplingStrategy>::sample_info", "index", "Vec<ValidatorInfo>[usize]"): (1, "see C17 O17.3"),
    ("<" + P + "FaitAccompli1Sampler<F> as " + P + "QuorumSamplingStrategy>::sample_quorum", "panic", "panicking::assert_failed"): (1, "see C17 O17.3"),
    ("<" + P + "PartitionSampler as " + P + "QuorumSamplingStrategy>::sample_quorum", "index", "Vec<ValidatorIndex>[usize]"): (1, "see C17 O17.3"),
    ("<" + P + "TurbineSampler as " + P + "SamplingStrategy>::sample", "panic", "panicking::panic_fmt"): (1, "see C17 O17.3"),
    (P + "DecayingAcceptanceSampler::sample_one", "index", "Vec<usize>[usize]"): (2, "see C17 O17.3"),
    (P + "DecayingAcceptanceSampler::sample_one", "panic", "panicking::panic_fmt"): (1, "see C17 O17.3"),
}
