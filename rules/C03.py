"""C03 — certificates a node emits are valid, vote-justified and timely (structural necessary conditions)."""
from engine import guards as G
from engine import mir
from . import common as K
from . import detectors as D
from .common import CERT, POOL, SLOT_STATE, VOTOR, fshort

EXPLANATION = (
    "Decides O3.1-O3.6 on the MIR of consensus::pool (slot_state.rs, pool.rs), consensus::cert and consensus::votor: "
    "the incoming vote is stored before any call that aggregates stored votes into a certificate; every certificate "
    "construction is guarded by the quorum predicate assigned to its type over the stake counters of that type and by "
    "'no certificate of this type yet'; the aggregated vote sets are the stored votes of the matching kind(s) for the "
    "same block hash; signer bitmask and stake derive from the same vote slices; every created certificate is stored, "
    "announced (CertCreated) and broadcast. Does NOT decide BLS validity nor set-equality of signers over all histories."
)

SV = SLOT_STATE + "SlotVotes"
SVS = SLOT_STATE + "SlotVotedStake"
SC = SLOT_STATE + "SlotCertificates"
SS = SLOT_STATE + "SlotState"

# protocol table: cert kind -> (constructors, quorum predicate, stake counter fields, vote readers (in arg order), "already have one" field)
CERT_TABLE = {
    "Notar": dict(ctors=["NotarCert::new", "NotarCert::try_new"], quorum="is_quorum", stakes={"notar"}, readers=["notar_votes"], once="notar"),
    "NotarFallback": dict(ctors=["NotarFallbackCert::new", "NotarFallbackCert::try_new"], quorum="is_quorum", stakes={"notar", "notar_fallback"},
                          readers=["notar_votes", "notar_fallback_votes"], once=None),
    "Skip": dict(ctors=["SkipCert::new", "SkipCert::try_new"], quorum="is_quorum", stakes={"skip", "skip_fallback"}, readers=["skip_votes", "skip_fallback_votes"], once="skip"),
    "FastFinal": dict(ctors=["FastFinalCert::new", "FastFinalCert::try_new"], quorum="is_strong_quorum", stakes={"notar"}, readers=["notar_votes"], once="fast_finalize"),
    "Final": dict(ctors=["FinalCert::new", "FinalCert::try_new"], quorum="is_quorum", stakes={"finalize"}, readers=["final_votes"], once="finalize"),
}
READER_FIELD = {"notar_votes": "notar", "notar_fallback_votes": "notar_fallback", "skip_votes": "skip", "skip_fallback_votes": "skip_fallback", "final_votes": "finalize"}
EPOCH = "alpenglow::consensus::epoch_info::EpochInfo::"


def cert_sites(prog, kind, module=POOL):
    out = []
    for b in K.bodies_in(prog, module):
        for c in b.calls_to([CERT + x for x in CERT_TABLE[kind]["ctors"]]):
            out.append(c)
    return out


def ob_store_before_aggregate(run, oid):
    prog = run.program("lib")
    o = run.ob(oid, "the incoming vote is stored before any call that reads the stored votes of that kind",
               "otherwise the threshold-crossing vote is counted in the stake but missing from the aggregated signer set: the emitted "
               "certificate fails validation at every receiver (and the node's own last-arriving notar vote is invisible to safe-to-skip)", floor=5)
    b = prog.body(SS + "::add_vote")
    if b is None:
        o.missing("SlotState::add_vote")
        return
    res = D.store_before_readers(prog, b, SV)
    for f in K.adt_fields(prog, SV) or []:
        if f not in res:
            o.fail("%s|SlotVotes.%s|no-store" % (fshort(b.defpath), f), "SlotState::add_vote never stores into SlotVotes.%s" % f, b.span)
    for f, sts in sorted(res.items()):
        for (sbb, ssp, bad, nread) in sts:
            key = "%s|SlotVotes.%s" % (fshort(b.defpath), f)
            if bad:
                for c in bad:
                    o.fail(key + "|read-before-store|" + fshort(c.name), "%s (reads stored %s votes, e.g. to aggregate a certificate) runs before the vote is stored" % (fshort(c.name), f),
                           c.span, {"store_site": ssp, "reader": c.name})
            else:
                o.ok(key, "store into SlotVotes.%s precedes every reader of it on its path (%d reader call(s) after)" % (f, nread), ssp)


def ob_thresholds_creation(run, oid):
    """O1.3 / O3.2 creation side"""
    prog = run.program("lib")
    o = run.ob(oid, "every certificate construction in the pool is guarded by its type's quorum predicate over that type's stake counters",
               "a certificate created below its threshold is rejected by every receiver; one created against the wrong counter certifies unsupported blocks", floor=6)
    for kind, spec in CERT_TABLE.items():
        sites = cert_sites(prog, kind)
        if not sites:
            o.missing("construction of %sCert in consensus::pool" % kind)
        for c, key in K.ordinal_keys(sites, lambda c: "%s|%sCert" % (fshort(c.body.defpath), kind)):
            b, bb = c.body, c.bb
            atoms = G.guard_atoms(b, bb, prog)
            found = None
            wrong = []
            for a in atoms:
                if a[0] == "bool" and a[2] is True and a[1][0][0] == "call" and a[1][0][1].startswith(EPOCH + "is_"):
                    nm = a[1][0][1][len(EPOCH):]
                    if nm == spec["quorum"]:
                        fs0 = set(n for (ow, n) in b.provenance(a[1][0][2][1])["fields"] if ow == SVS)
                        if found is None or fs0 == spec["stakes"]:
                            found = a
                    else:
                        wrong.append(nm)
            if not found:
                o.fail(key + "|quorum", "%sCert constructed without a dominating %s(..) == true guard (found: %s)" % (kind, spec["quorum"], wrong or "none"), c.span,
                       {"guards": G.atoms_show(atoms)})
                continue
            def _own_quorum(a, spec=spec, b=b):
                # the quorum predicate of THIS certificate type applied to THIS type's stake counters (another type's quorum test standing in front
                # of the construction is a further condition, not the guard)
                if not (a[0] == "bool" and a[2] is True and a[1][0][0] == "call" and a[1][0][1] == EPOCH + spec["quorum"]):
                    return False
                fs_ = set(n for (ow, n) in b.provenance(a[1][0][2][1])["fields"] if ow == SVS)
                return fs_ == spec["stakes"]
            rec = [_own_quorum,
                   lambda a: a[0] == "is_some" and a[2] is False and K.mentions_field(a[1][0], spec["once"] or "-", "SlotCertificates"),
                   lambda a, kind=kind: kind == "NotarFallback" and a[0] == "bool" and a[2] is False and a[1][0][0] == "call" and a[1][0][1].endswith("SlotState::is_notar_fallback")]
            extra = D.extra_guards(prog, b, bb, rec)
            o.check(not extra, key + "|no-extra-condition", "no further condition delays the certificate ('exists as soon as the votes reach the threshold')", c.span, {"extra": G.atoms_show(extra)})
            stake_term = found[1][0][2][1]
            pv = b.provenance(stake_term)
            fs = set(n for (ow, n) in pv["fields"] if ow == SVS)
            o.check(fs == spec["stakes"], key + "|stake-counters", "%s(..) is applied to the %s stake counter(s)" % (spec["quorum"], "+".join(sorted(spec["stakes"]))), c.span,
                    {"stake_term": mir.show(stake_term), "counters": sorted(fs)})
            if len(spec["stakes"]) == 2:
                # the two counters are combined by addition only
                ops = [t[1] for t in mir.walk(stake_term) if isinstance(t, tuple) and t and t[0] == "bin"] + [t[1] for t in mir.calls_in(stake_term)]
                addish = [x for x in ops if x in ("Add", "AddWithOverflow") or x.endswith("Add>::add") or x.endswith("::add")]
                subish = [x for x in ops if x in ("Sub", "Mul", "Div") or x.endswith("::sub") or x.endswith("::mul") or x.endswith("::max") or x.endswith("::min")]
                o.check(bool(addish) and not subish, key + "|stake-sum", "the two counters are summed", c.span, {"ops": ops})


def ob_once(run, oid):
    prog = run.program("lib")
    o = run.ob(oid, "a certificate is created only when none of its type (for that block, for notar-fallback) is stored; received duplicates are rejected before add_valid_cert",
               "otherwise a second, different certificate of the same type is created/announced for a slot", floor=7)
    for kind, spec in CERT_TABLE.items():
        for c, key in K.ordinal_keys(cert_sites(prog, kind), lambda c: "%s|%sCert" % (fshort(c.body.defpath), kind)):
            b, bb = c.body, c.bb
            if spec["once"]:
                g = G.has_guard(prog, b, bb, pred="is_some", polarity=False, fields=[spec["once"]], owner="SlotCertificates", depth=0)
                o.check(g is not None, key + "|none-yet", "guarded by certificates.%s.is_none()" % spec["once"], c.span, {"guards": K.show_atoms(prog, b, bb)})
            else:
                g = G.has_guard(prog, b, bb, pred="bool", polarity=False, calls=["SlotState::is_notar_fallback"])
                o.check(g is not None, key + "|none-yet", "guarded by !is_notar_fallback(block_hash)", c.span, {"guards": K.show_atoms(prog, b, bb)})
    # received certificates: duplicate check per variant
    fam = prog.family("<" + POOL + "PoolImpl as " + POOL + "Pool>::add_cert")
    sites = [c for b in fam for c in b.calls_to(POOL + "PoolImpl::add_valid_cert")]
    if not sites:
        o.missing("call of add_valid_cert in Pool::add_cert")
    want = {"Notar": "notar", "NotarFallback": "notar_fallback", "Skip": "skip", "FastFinal": "fast_finalize", "Final": "finalize"}
    for c in sites:
        b = c.body
        atoms = G.guard_atoms(b, c.bb, prog)
        dup = [a for a in atoms if a[0] == "bool" and a[2] is False and a[1][0][0] == "local"]
        if not dup:
            o.fail("Pool::add_cert|add_valid_cert|duplicate-guard", "add_valid_cert is not guarded by the duplicate check", c.span, {"guards": G.atoms_show(atoms)})
            continue
        seen = {}
        for cand in dup:
            l = cand[1][0][1]
            for d in b.defs().get(l, []):
                dbb = d[1]
                vs = [a for a in G.guard_atoms(b, dbb, prog) if a[0] == "variant"]
                term = b.call_term(dbb, d[3]) if d[0] == "call" else b.rvalue_term(d[3]["rv"])
                fs = G.field_names(G.deep_fields(prog, term, 0), "SlotCertificates")
                if not fs and isinstance(term, tuple) and term and term[0] == "const" and term[1] == "bool" and term[2]:
                    # `Cert::X(_) => matches!(certs.x, Some(_))` lowered into the flag itself: true in the block guarded by the test
                    for a2 in G.guard_atoms(b, dbb, prog):
                        for x2 in a2[1]:
                            if isinstance(x2, tuple):
                                fs = fs | G.field_names(G.deep_fields(prog, x2, 0), "SlotCertificates")
                if not fs and isinstance(term, tuple) and term and term[0] == "local":
                    # `matches!(certs.x, Some(_))`: a temporary set to true in the arm guarded by the test on certs.x
                    for d2 in b.defs().get(term[1], []):
                        if d2[0] == "stmt":
                            t2 = b.rvalue_term(d2[3]["rv"])
                            if isinstance(t2, tuple) and t2 and t2[0] == "const" and t2[1] == "bool" and t2[2]:
                                for a2 in G.guard_atoms(b, d2[1], prog):
                                    for x2 in a2[1]:
                                        if isinstance(x2, tuple):
                                            fs = fs | G.field_names(G.deep_fields(prog, x2, 0), "SlotCertificates")
                if not fs:
                    continue
                for a in vs:
                    for v in a[1][1]:
                        # a short-circuit `a || b` has one definition per operand: the arm's read set is the union over all of them
                        prev = seen.get(v)
                        if prev is not None:
                            keep = prev[1] if (isinstance(term, tuple) and term and term[0] in ("const", "local")) else term
                            seen[v] = (frozenset(prev[0]) | frozenset(fs), keep, dbb)
                        else:
                            seen[v] = (frozenset(fs), term, dbb)
        # NotarFallback: duplicate only for the SAME block (several blocks of one slot can be notar-fallback-certified)
        nf = seen.get("NotarFallback")
        if nf is not None:
            term = nf[1]
            cl = [x for x in mir.walk(term) if isinstance(x, tuple) and x and x[0] == "closure"] if isinstance(term, tuple) else []
            per_hash = False
            for x in cl:
                cb = prog.bodies.get(x[1])
                if cb is not None and sum(1 for c2 in cb.calls() if c2.name.endswith("block_hash")) >= 2 and any(c2.name.rsplit("::", 1)[-1] in ("eq", "ne") for c2 in cb.calls()):
                    per_hash = True
            if not per_hash and isinstance(term, tuple):
                per_hash = K.mentions_call(term, "is_notar_fallback") or (K.mentions_call(term, "contains") and K.mentions_call(term, "block_hash"))
            if not per_hash and isinstance(term, tuple) and K.mentions_field(term, "notar_fallback"):
                # `.iter().map(|c| c.block_hash()).any(|h| h == nf_cert.block_hash())`: some closure of the chain compares with the received
                # certificate's block hash, and the held certificates' hashes are what is compared
                per_hash = D.closure_compares_capture(prog, term, lambda t: K.mentions_call(t, "block_hash") or K.mentions(t, lambda x: x[0] == "variant" and x[2] == "NotarFallback")) and any(
                    any(c2.name.endswith("block_hash") for c2 in fb.calls()) for x in mir.walk(term) if isinstance(x, tuple) and x and x[0] == "closure" for fb in prog.family(x[1]))
            if not per_hash:
                # explicit search loop: every `flag = true` in the NotarFallback arm is behind block_hash(held) == block_hash(received)
                trues = []
                for bb2, i2, dst2, rv2, sp2 in b.assignments():
                    if dst2["p"] or rv2["k"] != "use" or "k" not in rv2["a"] or str(rv2["a"]["k"].get("int")) != "1" or rv2["a"]["k"].get("ty") != "bool":
                        continue
                    ats = G.guard_atoms(b, bb2, prog)
                    if any(a[0] == "variant" and a[1][1] == frozenset(["NotarFallback"]) for a in ats):
                        by_hash = any(a[0] == "eq" and a[2] is True and all(K.mentions_call(x, "block_hash") for x in a[1]) and any(K.mentions_field(x, "notar_fallback") for x in a[1]) for a in ats)
                        trues.append(by_hash)
                per_hash = bool(trues) and all(trues)
            o.check(per_hash, "Pool::add_cert|duplicate|NotarFallback|per-block", "a received notar-fallback certificate is a duplicate only if one for the same block hash is held", c.span,
                    {"test": mir.show(term)[:160] if isinstance(term, tuple) else None})
        for v, f in want.items():
            got = seen.get(v)
            o.check(got is not None and f in got[0], "Pool::add_cert|duplicate|%s" % v, "Cert::%s is a duplicate iff certificates.%s already holds one" % (v, f), c.span,
                    {"reads": sorted(got[0]) if got else None})
            # "iff": a held certificate of ANOTHER type never makes a received one a duplicate (a notar-fallback certificate for block B is not
            # subsumed by a notarization certificate of the same slot: it may be for another block, and the standstill bundle relies on it)
            if got is not None and f in got[0]:
                o.check(set(got[0]) == {f}, "Pool::add_cert|duplicate|%s|own-type-only" % v,
                        "whether a received Cert::%s is a duplicate depends on certificates.%s alone" % (v, f), c.span, {"reads": sorted(got[0])})


def ob_inputs(run, oid):
    prog = run.program("lib")
    o = run.ob(oid, "each certificate aggregates exactly the stored votes of its kind(s), filtered by the block hash whose stake crossed the threshold",
               "aggregating another vote set produces a certificate whose signatures do not match its payload, or certifies another block", floor=11)
    for kind, spec in CERT_TABLE.items():
        for c, key in K.ordinal_keys(cert_sites(prog, kind), lambda c: "%s|%sCert" % (fshort(c.body.defpath), kind)):
            b = c.body
            hashes = []
            for i, rd in enumerate(spec["readers"]):
                t = K.peel(b.operand_term(c.args[i]))
                mv = D.memo_value(prog, b, t)
                if mv is not None:
                    t = K.peel(mv)      # `memo.get_or_insert_with(|| self.votes.reader(hash))`: the memoised reader call
                ok = isinstance(t, tuple) and t[0] == "call" and t[1] == SV + "::" + rd
                o.check(ok, key + "|arg%d" % i, "argument %d is SlotVotes::%s(..) of this slot" % (i, rd), c.span, {"arg": mir.show(t)})
                if ok and len(t[2]) > 1:
                    hashes.append(t[2][1])
            if hashes:
                same = all(h == hashes[0] for h in hashes)
                o.check(same, key + "|same-hash", "all vote readers are keyed by the same block hash", c.span, {"hashes": [mir.show(h) for h in hashes]})
                # and the stake guard is keyed by that hash too
                for a in G.guard_atoms(b, c.bb, prog):
                    if a[0] == "bool" and a[2] is True and a[1][0][0] == "call" and a[1][0][1] == EPOCH + spec["quorum"]:
                        st = a[1][0][2][1]
                        keyterms = [x[2][1] for x in mir.calls_in(st) if x[1].startswith(POOL + "sorted_vec::SortedVecMap") and len(x[2]) > 1]
                        o.check(bool(keyterms) and all(k == hashes[0] for k in keyterms), key + "|stake-hash", "the stake counter(s) compared are those of the same block hash", c.span,
                                {"keys": [mir.show(k) for k in keyterms], "hash": mir.show(hashes[0])})
    # readers
    for rd, fld in READER_FIELD.items():
        fam = prog.family(SV + "::" + rd)
        if not fam:
            o.missing("SlotVotes::" + rd)
            continue
        reads = set()
        for b in fam:
            reads |= set(n for (_bb, ow, n, _sp) in b.field_reads() if ow == SV)
        o.check(reads == {fld}, "SlotVotes::%s|reads" % rd, "SlotVotes::%s reads exactly SlotVotes.%s" % (rd, fld), fam[0].span, {"reads": sorted(reads)})
        if rd in ("notar_votes", "notar_fallback_votes"):
            uses = False
            for b in fam:
                for c in b.calls():
                    if (c.name.endswith("::eq") or c.name.endswith("::ne") or c.name.endswith("BTreeMap::<K, V, A>::get") or c.name.endswith("BTreeMap::get")):
                        if any(K.mentions_name(b.operand_term(a), "block_hash") for a in c.args):
                            uses = True
            o.check(uses, "SlotVotes::%s|filters-by-hash" % rd, "SlotVotes::%s selects by the requested block hash" % rd, fam[0].span)


def ob_try_new(run, oid):
    prog = run.program("lib")
    o = run.ob(oid, "XCert::try_new derives the signer bitmask(s) and the declared stake from the same vote slices, each half from its own slice",
               "a bitmask built from other votes than those aggregated makes the certificate unverifiable; swapped halves fail domain separation", floor=5)
    halves = {
        "NotarCert": {"agg_sig": ["votes"]},
        "FastFinalCert": {"agg_sig": ["votes"]},
        "FinalCert": {"agg_sig": ["votes"]},
        "NotarFallbackCert": {"agg_sig_notar": ["notar_votes"], "agg_sig_notar_fallback": ["nf_votes"]},
        "SkipCert": {"agg_sig_skip": ["skip_votes"], "agg_sig_skip_fallback": ["sf_votes"]},
    }
    for ty, fields in halves.items():
        b = prog.body(CERT + ty + "::try_new")
        if b is None:
            o.missing(ty + "::try_new")
            continue
        aggs = b.aggregates(CERT + ty)
        if not aggs:
            o.fail("%s::try_new|construct" % ty, "no construction of %s in try_new" % ty, b.span)
        params = [b.local_name(i) for i in range(1, b.argc + 1)]
        for (bb, rv, sp, dst) in aggs:
            fm = dict(zip(rv["fields"], rv["ops"]))
            all_params = set()
            for f, _want in fields.items():
                pv = b.provenance(b.operand_term(fm[f]))
                # positional: the i-th half comes from the i-th vote-slice parameter only
                idx = list(fields.keys()).index(f)
                mine = params[idx]
                others = set(params[:len(fields)]) - {mine}
                ok = mine in pv["params"] and not (others & pv["params"])
                ok = ok and any(x.endswith("aggsig_from_votes") for x in pv["calls"])
                o.check(ok, "%s::try_new|%s" % (ty, f), "%s.%s is aggregated (aggsig_from_votes) from parameter #%d only" % (ty, f, idx), sp,
                        {"params": sorted(pv["params"]), "calls": sorted(K.fshort(x) for x in pv["calls"])[:8]})
                all_params |= pv["params"]
            pv = b.provenance(b.operand_term(fm["stake"]))
            o.check(set(params[:len(fields)]) <= pv["params"], "%s::try_new|stake" % ty, "%s.stake sums over all aggregated vote slices" % ty, sp, {"params": sorted(pv["params"])})
    # aggsig_from_votes: signature and signer index of the same vote
    b = prog.body(CERT + "aggsig_from_votes")
    if b is None:
        o.missing("cert::aggsig_from_votes")
    else:
        fam = prog.family(CERT + "aggsig_from_votes")
        cs = set()
        for x in fam:
            cs |= x.mentioned_fns()
        o.check(any(c.endswith("SignedVote::sig") for c in cs) and any(c.endswith("SignedVote::signer") for c in cs) and any("AggregateSignature::new" in c for c in cs),
                "aggsig_from_votes|sig+signer", "aggsig_from_votes feeds (vote.sig(), vote.signer()) pairs into AggregateSignature::new", b.span)


def ob_announce(run, oid):
    prog = run.program("lib")
    o = run.ob(oid, "created => stored => announced (CertCreated) => broadcast",
               "a certificate that is created but not broadcast does not help other nodes (and is not 'emitted' at all)", floor=5)
    # (1) certs returned by SlotState::add_vote reach add_valid_cert
    fam = prog.family("<" + POOL + "PoolImpl as " + POOL + "Pool>::add_vote")
    done = False
    for b in fam:
        av = b.calls_to(SS + "::add_vote")
        avc = b.calls_to(POOL + "PoolImpl::add_valid_cert")
        if not av:
            continue
        done = True
        o.check(bool(avc), "Pool::add_vote|add_valid_cert", "Pool::add_vote calls add_valid_cert", b.span)
        for c in avc:
            pv = b.provenance(b.operand_term(c.args[1]))
            o.check(SS + "::add_vote" in pv["calls"], "Pool::add_vote|add_valid_cert|provenance", "the certificates stored are those returned by SlotState::add_vote", c.span,
                    {"calls": sorted(fshort(x) for x in pv["calls"])[:6]})
        # the iteration over the created certs is always reached after SlotState::add_vote
        iters = []
        for c in b.calls():
            if c.name.endswith("IntoIterator>::into_iter") or c.name.endswith("::into_iter"):
                pv = b.provenance(b.operand_term(c.args[0]))
                if SS + "::add_vote" in pv["calls"]:
                    iters.append(c.bb)
        o.check(bool(iters) and b.always_followed_by(av[0].bb, iters), "Pool::add_vote|iterates-created-certs", "every path after SlotState::add_vote iterates its created certificates", av[0].span)
    if not done:
        o.missing("call of SlotState::add_vote in Pool::add_vote")
    # (2) add_valid_cert: stored, then announced
    for b in prog.family(POOL + "PoolImpl::add_valid_cert"):
        if not b.is_closure:
            continue
        st = b.calls_to(SS + "::add_cert")
        o.check(bool(st) and b.always_followed_by(0, [c.bb for c in st]), "add_valid_cert|stores", "every path through add_valid_cert stores the certificate (SlotState::add_cert)", b.span)
        ev = [bb for (bb, rv, sp, dst) in b.aggregates(POOL + "PoolEvent", "CertCreated")]
        sends = [c.bb for c in b.calls_to(POOL + "PoolImpl::send_votor_event") if any(K.mentions(b.operand_term(a), lambda t: t[0] == "agg" and t[2] == "CertCreated") for a in c.args)]
        o.check(bool(sends) and b.always_followed_by(0, sends), "add_valid_cert|announces", "every path through add_valid_cert sends PoolEvent::CertCreated(cert)", b.span,
                {"witness_path_avoiding": b.path_avoiding(0, sends) if sends else None})
    # (3) votor broadcasts
    for b in prog.family(VOTOR + "Votor::handle_cert_created"):
        if not b.is_closure:
            continue
        bc = [c.bb for c in b.calls_to(VOTOR + "Votor::broadcast")]
        o.check(bool(bc) and b.always_followed_by(0, bc), "handle_cert_created|broadcasts", "every path through handle_cert_created broadcasts the certificate", b.span)
    hp = [b for b in prog.family(VOTOR + "Votor::handle_pool_event") if b.is_closure]
    for b in hp:
        cs = b.calls_to(VOTOR + "Votor::handle_cert_created")
        ok = False
        for c in cs:
            if any(a[0] == "variant" and a[1][1] == frozenset(["CertCreated"]) for a in G.guard_atoms(b, c.bb, prog)):
                ok = True
        o.check(ok, "handle_pool_event|CertCreated", "the CertCreated arm hands the certificate to handle_cert_created", b.span)
    # SlotState::add_cert stores each kind in its own slot
    b = prog.body(SS + "::add_cert")
    if b is None:
        o.missing("SlotState::add_cert")
    else:
        want = {"Notar": "notar", "NotarFallback": "notar_fallback", "Skip": "skip", "FastFinal": "fast_finalize", "Final": "finalize"}
        got = {}
        for (bb, owner, name, rv, sp, dst) in b.field_writes():
            if owner == SC:
                for a in G.guard_atoms(b, bb, prog):
                    if a[0] == "variant":
                        for v in a[1][1]:
                            got.setdefault(v, set()).add(name)
        for (bb, owner, name, sp, _l, _pl) in b.mut_borrows_of_fields():
            if owner == SC:
                for a in G.guard_atoms(b, bb, prog):
                    if a[0] == "variant":
                        for v in a[1][1]:
                            got.setdefault(v, set()).add(name)
        for v, f in want.items():
            o.check(got.get(v) == {f}, "SlotState::add_cert|%s" % v, "Cert::%s is stored in certificates.%s only" % (v, f), b.span, {"got": sorted(got.get(v, []))})
        # ... and ALWAYS stored: the only certificate add_cert may drop is a notar-fallback certificate for a block that already has one
        # (the same predicate the creation guards use - if storing is skipped under a wider test, the creation guard keeps firing: the
        # certificate is created and broadcast again with every further vote)
        sites = [(bb, sp) for (bb, owner, name, rv, sp, dst) in b.field_writes() if owner == SC]
        sites += [(c.bb, c.span) for c in b.calls() if c.name.rsplit("::", 1)[-1] in ("push", "insert", "extend") and c.args and K.mentions_field(b.operand_term(c.args[0]), "notar_fallback", "SlotCertificates")]
        for (bb, sp), key in K.ordinal_keys(sites, lambda x: "SlotState::add_cert|store"):
            rec = [lambda a: a[0] == "variant" and a[1][1] <= set(K.CERT_KINDS),
                   lambda a: a[0] == "bool" and a[2] is False and isinstance(a[1][0], tuple) and a[1][0][0] == "call" and a[1][0][1] == SS + "::is_notar_fallback"]
            extra = D.extra_guards(prog, b, bb, rec)
            o.check(not extra, key + "|always", "stored unless (notar-fallback only) one for the same block is already held - no other condition", sp, {"extra": G.atoms_show(extra)})


def check(run):
    from . import detectors as _DL
    _DL.ob_loop_exits(run, "O3.12", ['consensus::pool'], 'a loop over votes / certificates / pending blocks that stops early leaves certificates uncreated, unannounced or unsent')
    D.ob_state_mutations(run, "O3.7", ['consensus::pool::slot_state::SlotState', 'consensus::pool::slot_state::SlotVotes', 'consensus::pool::slot_state::SlotVotedStake', 'consensus::pool::slot_state::SlotCertificates'], 'votes, stake counters and certificates are the record every certificate is justified by: an extra overwrite/removal makes emitted certificates unjustified or repeated')
    ob_store_before_aggregate(run, "O3.1")
    ob_thresholds_creation(run, "O3.2")
    ob_once(run, "O3.3")
    ob_inputs(run, "O3.4")
    ob_try_new(run, "O3.5")
    ob_announce(run, "O3.6")
    # "signers are exactly validators whose matching votes the node accepted (each counted once)": what is counted is decided by
    # the admission filters - their order in Pool::add_vote, the decision tables and the recording of every admitted vote
    from . import C04
    C04.check(run, prefix="O3.8")
    # "every certificate a node creates and broadcasts is one every other node accepts": the certificate has to survive the wire
    # (hand-written signature / bitmask encoders and decoders agree; decoder bounds admit everything the encoder emits)
    from . import C19
    C19.check(run, prefix="O3.9")
    # "as soon as / only when the threshold is reached": the quorum predicates the creation guards call are the exact fractions,
    # compared exactly (a strict `>` at exactly 80% neither creates nor accepts the fast-finalization certificate)
    from . import C01, C09
    C01.ob_constants(run, "O3.10a")
    C01.ob_is_met(run, "O3.10b")
    # "its aggregate signature verifies at every other node": check_sig accepts exactly when every present half verifies
    C09.ob_sig_table(run, "O3.11")
    C09.ob_signature_decoding(run, "O3.14")
    # the per-block stake counters compared with the thresholds live in pool::sorted_vec
    from . import C06
    C06.ob_sorted_vec(run, "O3.13")
