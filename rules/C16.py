"""C16 — all nodes agree on shred routing (structural part)."""
from engine import effects
from engine import guards as G
from engine import mir
from . import common as K
from . import detectors as DET
from .common import A, fshort

EXPLANATION = (
    "Decides O16.1-O16.5: no ambient nondeterminism (thread/OS RNG, wall clock, environment, hash-order iteration, thread "
    "ids) is reachable in the call graph from relay / tree computation (Rotor::sample_relay(s), TurbineTree::new, "
    "Turbine::get_tree), from any sample/sample_quorum implementation, or from any sampler constructor reachable from a "
    "Rotor/Turbine constructor; the per-call RNG seed is built only from (slot, slice) resp. (label, slot, shred index); the "
    "caches are memoisation (key looked up = key inserted = seed inputs, value inserted = value returned); relays/children "
    "are computed from epoch_info.validators() and the sampled order only, the relay broadcast excludes exactly the relay "
    "itself and the leader; forwarding on the receive path is unconditional. Thorough tier repeats O16.1 over the binaries' "
    "cfg (extra constructor callers). Does NOT decide that every shred reaches everyone exactly once."
)

D = A + "disseminator::"
A_NET = K.A + "network::"
ROTOR = D + "rotor::Rotor"
TURB = D + "turbine::Turbine"
TREE = D + "turbine::TurbineTree"
SS = D + "rotor::sampling_strategy::"


def sampling_roots(prog):
    roots = set()
    for d in prog.bodies:
        if d.startswith("<" + SS) and (d.endswith("::sample_quorum") or d.endswith("::sample") or d.endswith("::sample_info")):
            roots.add(d)
        if d.startswith(SS) and (d.endswith("::sample_one") or d.endswith("::reset")):
            roots.add(d)
    return roots


def constructor_roots(prog):
    roots = set()
    for d, b in prog.bodies.items():
        if b.is_closure:
            continue
        if d.startswith(ROTOR + "::new") or d == ROTOR + "::with_sampler" or d.startswith(TURB + "::new") or d == TURB + "::with_fanout":
            roots.add(d)
        # every sampler constructor (new*, into_quorum_strategy)
        if d.startswith(SS) and (d.rsplit("::", 1)[-1].startswith("new") or d.endswith("::into_quorum_strategy") or d.endswith("::minimize_f")):
            roots.add(d)
        if d.startswith(D + "turbine::weighted_shuffle::") and d.rsplit("::", 1)[-1].startswith("new"):
            roots.add(d)
    return roots


def ob_no_ambient(run, oid, cfg="lib"):
    prog = run.program(cfg)
    o = run.ob(oid, "no ambient nondeterminism on the routing path nor in sampler constructors (cfg %s)" % cfg,
               "two nodes (or two instances on one node) that draw from the thread RNG / clock / hash order assign different relays or tree positions: shreds are lost or duplicated in a fault-free run", floor=10)
    routing = {ROTOR + "::sample_relay", ROTOR + "::sample_relays", TREE + "::new", TURB + "::get_tree"}
    for r in sorted(routing):
        if r not in prog.bodies:
            o.missing(r)
    groups = (("routing", routing), ("sampling", sampling_roots(prog)), ("constructors", constructor_roots(prog)))
    for gname, roots in groups:
        for r in sorted(roots):
            if r not in prog.bodies:
                continue
            U, eff = effects.reachable_effects(prog, [r])
            if not eff:
                o.ok("%s|%s" % (gname, fshort(r)), "no ambient effect among %d reachable bodies" % len(U), prog.bodies[r].span)
            for d, es in sorted(eff.items()):
                for (e, callee, sp, bb) in es:
                    chain = prog.call_chain([r], d)
                    o.fail("%s|%s|%s|%s" % (gname, fshort(r), e, fshort(d)), "%s (%s) reachable from %s" % (e, callee, fshort(r)), sp,
                           {"call_chain": [fshort(x) for x in chain] if chain else None})


def ob_seed(run, oid):
    prog = run.program("lib")
    o = run.ob(oid, "the per-call RNG is seeded only from (slot, slice) resp. (constant label, slot, shred index)",
               "a seed that ignores one of its inputs repeats relays across slices; a seed with extra inputs (own id, time) differs between nodes", floor=6)
    # parameters are identified by position (sample_relays(&self, slot, slice); TurbineTree::new(validators, fanout, own_id, slot, shred)),
    # so that renaming a parameter changes nothing
    for fn, want_pos, forbid_pos in ((ROTOR + "::sample_relays", (2, 3), ()), (TREE + "::new", (4, 5), (1, 2, 3))):
        b = prog.body(fn)
        if b is None:
            o.missing(fn)
            continue
        want = set(b.local_name(i) for i in want_pos if i <= b.argc)
        forbid = set(b.local_name(i) for i in forbid_pos if i <= b.argc)
        if len(want) != len(want_pos):
            o.fail("%s|from_seed|signature" % fshort(fn), "expected at least %d parameters" % max(want_pos), b.span)
            continue
        fs = [c for c in b.calls() if c.name.endswith("SeedableRng::from_seed") or c.name.endswith("::from_seed")]
        if len(fs) != 1:
            o.fail("%s|from_seed|count" % fshort(fn), "expected exactly one from_seed call, found %d" % len(fs), b.span)
            continue
        c = fs[0]
        pv = b.provenance(b.operand_term(c.args[0]), depth=10)
        params = pv["params"]
        fields = set(n for (_ow, n) in pv["fields"])
        names = set(b.local_name(i) for i in range(1, b.argc + 1))
        used = params & names
        ok = want <= used and not (used & forbid) and not (used - want - {"self"}) and not fields
        o.check(ok, "%s|from_seed|provenance" % fshort(fn), "seed is built from parameters {%s} only" % ", ".join(sorted(want)), c.span, {"params": sorted(used), "fields": sorted(fields), "consts": sorted(map(str, pv["consts"]))[:6]})
        # the seeded rng is what the sampler / shuffle draws from
        users = [x for x in b.calls() if x.name.endswith("sample_quorum") or x.name.endswith("WeightedShuffle::shuffle") or x.name.endswith("::shuffle")]
        ok = False
        for u in users:
            for a in u.args:
                if any(isinstance(t, tuple) and t and t[0] == "call" and t[1].endswith("from_seed") for t in mir.walk(b.operand_term(a))):
                    ok = True
        o.check(ok, "%s|uses-seeded-rng" % fshort(fn), "the committee / shuffle is drawn from that seeded RNG", c.span)

    # RNGs created while *constructing* a sampler (not per call) must be seeded by constants only: every node constructs the
    # sampler from the same validator set and must obtain the same object
    n = 0
    for d in sorted(prog.reachable_from(sorted(constructor_roots(prog)))):
        cb = prog.bodies[d]
        if cb.generated:
            continue
        for c in cb.calls():
            if c.name.endswith("::from_seed") or c.name.endswith("::seed_from_u64"):
                n += 1
                pv = cb.provenance(cb.operand_term(c.args[0]), depth=10)
                impure = sorted(x for x in pv["calls"] if not x.rsplit("::", 1)[-1] in ("to_le_bytes", "to_be_bytes", "from", "into", "clone"))
                ok = bool(pv["consts"]) and not pv["params"] and not pv["upvars"] and not pv["fields"] and not impure
                o.check(ok, "%s|construction-seed|constant" % fshort(d), "an RNG used while constructing a sampler is seeded from constants only", c.span,
                        {"consts": sorted(map(str, pv["consts"]))[:4], "calls": impure[:4], "params": sorted(pv["params"]), "fields": sorted(map(str, pv["fields"]))[:4]})
    o.check(n >= 1, "constructors|seeded-rngs-found", "%d seeded RNG(s) in sampler constructors examined" % n, "")


def _cache_follows_inputs(prog, o):
    """Turbine: the fanout is an input of every cached tree but not part of the cache key, so a new fanout needs a new cache"""
    found = 0
    for d, b in sorted(prog.bodies.items()):
        if b.generated or not d.startswith(TURB.rsplit("::", 1)[0]):
            continue
        # (a) field assignment self.fanout = x
        for (bb, ow, name, rv, sp, dst) in b.field_writes():
            if ow == TURB and name == "fanout":
                found += 1
                fresh = [wb for (wb, ow2, n2, rv2, _sp2, _d2) in b.field_writes() if ow2 == TURB and n2 == "tree_cache" and any(x.endswith("Cache::new") for x in b.provenance(b.rvalue_term(rv2))["calls"])]
                ok = bool(fresh) and (b.always_followed_by(bb, fresh) or any(b.dominates(w, bb) for w in fresh))
                o.check(ok, "%s|fanout-write|fresh-cache" % fshort(d), "a changed fanout comes with a freshly created tree cache on the same path", sp)
        # (b) struct literal / struct update
        for (bb, rv, sp, dst) in b.aggregates(TURB):
            ops = dict(zip(rv.get("fields", []), rv.get("ops", [])))
            if "fanout" not in ops or "tree_cache" not in ops:
                continue
            found += 1
            cache_pv = b.provenance(b.operand_term(ops["tree_cache"]))
            fresh = any(x.endswith("Cache::new") for x in cache_pv["calls"]) and (TURB, "tree_cache") not in cache_pv["fields"]
            fan = b.operand_term(ops["fanout"])
            copied = K.is_field(K.peel(fan), "fanout") if hasattr(K, "is_field") else False
            o.check(fresh or copied, "%s|construct|fresh-cache" % fshort(d), "a Turbine built with another fanout gets a freshly created tree cache (a carried-over cache only together with the fanout it was filled under)", sp,
                    {"fanout": mir.show(fan)[:60]})
    o.check(found >= 2, "Turbine|fanout-sites", "%d site(s) that set Turbine.fanout examined" % found, "")


def ob_batched_send(run, oid):
    """UdpNetwork::send_to_many (Linux sendmmsg path): which destinations a chunk is sent to"""
    prog = run.program("lib")
    o = run.ob(oid, "the batched send walks the destination list: each chunk (and each retry after a short write) takes its addresses at the current progress offset",
               "a relay / tree node sends to up to thousands of validators in chunks: a chunk that starts at the beginning of the list again re-sends to the first destinations and never reaches the rest",
               floor=1)
    fam = [b for d, b in prog.bodies.items() if d.startswith(A_NET + "udp::sendmmsg::send_to_many_linux")]
    if not fam:
        o.ok("sendmmsg|absent", "no sendmmsg fast path on this target / tree", "", nontrivial=False)
        return
    uses = []
    for b in fam:
        for c in b.calls():
            last = c.name.rsplit("::", 1)[-1]
            ts = [b.operand_term(a) for a in c.args]
            if not ts or not K.mentions(ts[0], lambda x: x[0] == "upvar" and "sockaddr" in str(x[1]).lower()) and not K.mentions(ts[0], lambda x: x[0] in ("local", "param") and "sockaddr" in str(x[2] if len(x) > 2 else "").lower()):
                continue
            if last in ("index", "get", "get_unchecked"):
                off = ts[1] if len(ts) > 1 else None
                okk = off is not None and K.mentions(off, lambda x: x[0] == "upvar") and K.mentions(off, lambda x: x[0] == "param")
                po = K.peel(off) if off is not None else None
                if not okk and isinstance(po, tuple) and po and po[0] == "agg" and str(po[1]).endswith(("ops::range::Range", "ops::range::RangeFrom")):
                    # `addrs[sent..sent + n]`: a sub-slice that starts at the progress counter (a local the loop keeps advancing, or a captured one)
                    st = K.peel(dict(po[3]).get("start"))
                    okk = isinstance(st, tuple) and st and ((st[0] == "local" and len(b.defs().get(st[1], [])) > 1) or st[0] == "upvar")
                uses.append((c, okk, "indexed at " + mir.show(off)[:60]))
            elif last in ("iter", "into_iter", "as_slice", "deref"):
                # an iterator over the list: must be advanced by the progress counter (skip / slice from offset)
                chain = [x for fb in fam for x in fb.calls() if x.name.rsplit("::", 1)[-1] in ("skip", "index") and any(K.mentions(fb.operand_term(a), lambda y: y[0] == "upvar") for a in x.args[1:2])]
                uses.append((c, bool(chain), "iterated" + (" from an offset" if chain else " from the start")))
    # the conversion of the caller's addresses happens once, outside the chunk loop: not a per-chunk use
    per_chunk = [u for u in uses if u[0].body.defpath.count("{closure") >= 2]
    o.check(bool(per_chunk), "send_to_many_linux|destinations|found", "%d per-chunk use(s) of the destination list examined" % len(per_chunk), fam[0].span)
    for (c, okk, how), key in K.ordinal_keys(per_chunk, lambda u: "send_to_many_linux|destinations"):
        o.check(okk, key + "|at-progress-offset", "the chunk's destinations are taken at the progress offset (offset + position in chunk)", c.span, {"how": how})


def ob_cache(run, oid):
    prog = run.program("lib")
    o = run.ob(oid, "the relay / tree caches are memoisation: looked-up key = inserted key = seed inputs; inserted value = computed value = returned value",
               "a cache keyed by fewer inputs than the seed returns another (slot, slice)'s committee", floor=2)
    for fn, cache_field, key_pos in ((ROTOR + "::sample_relays", "relay_cache", (2, 3)), (TURB + "::get_tree", "tree_cache", (2, 3))):
        b = prog.body(fn)
        if b is None:
            o.missing(fn)
            continue
        key_names = set(b.local_name(i) for i in key_pos if i <= b.argc)
        gets = [c for c in b.calls() if c.name.endswith("Cache::get") and K.is_field(b.operand_term(c.args[0]), cache_field)]
        ins = [c for c in b.calls() if c.name.endswith("Cache::insert") and K.is_field(b.operand_term(c.args[0]), cache_field)]
        ok = len(gets) == 1 and len(ins) == 1
        det = {}
        if ok:
            kg = K.peel(b.operand_term(gets[0].args[1]))
            ki = K.peel(b.operand_term(ins[0].args[1]))
            names = set(b.local_name(i) for i in range(1, b.argc + 1))
            pg = b.provenance(kg)["params"] & names
            pi = b.provenance(ki)["params"] & names
            det = {"lookup": sorted(pg), "insert": sorted(pi)}
            ok = pg == key_names and pi == key_names
        o.check(bool(ok), "%s|cache-key" % fshort(fn), "cache key is (%s) for both lookup and insert" % ", ".join(sorted(key_names)), b.span, det)
        if len(ins) == 1:
            v = b.provenance(b.operand_term(ins[0].args[2]))
            ok = any(x.endswith("sample_quorum") or x.endswith("TurbineTree::new") for x in v["calls"])
            o.check(ok, "%s|cache-value" % fshort(fn), "the inserted value is the freshly computed committee / tree", ins[0].span)
    _cache_follows_inputs(prog, o)


def ob_relay_set(run, oid):
    prog = run.program("lib")
    o = run.ob(oid, "relay broadcast goes to every validator except the relay itself and the leader; tree children are taken by position from the shuffled order",
               "excluding anyone else loses shreds; including the leader/relay duplicates them", floor=3)
    fam = prog.family(ROTOR + "::broadcast_if_relay")
    # the recipient filter: a closure of the async body whose every captured value is compared (!=) with the candidate index;
    # the captured values are the sampled relay and the slot's leader (identified by where they come from, not by name)
    excl = []
    filt = None
    from engine import paths
    for b in fam:
        if b.is_closure and "closure#0}::{closure" in b.defpath:
            try:
                tt = paths.bool_truth_table(b, prog)
            except Exception:
                tt = None
            if tt is None:
                continue
            terms, table = tt
            ups = set()
            eqs = 0
            for t in terms:
                if isinstance(t, tuple) and t and t[0] == "eq":
                    eqs += 1
                    for side in t[1]:
                        for x in mir.walk(side):
                            if isinstance(x, tuple) and x and x[0] == "upvar":
                                ups.add(x[1])
            # the filter keeps a candidate exactly when it differs from every captured value
            keeps_only_all_different = eqs == len(terms) and all(v == (not any(asg)) for asg, v in table.items())
            if ups and keeps_only_all_different:
                filt = b
                excl = sorted(ups)
    srcs = {}
    if filt is not None:
        for pb in fam:
            for (bb, i, dst, rv, sp) in pb.assignments():
                t = pb.rvalue_term(rv)
                if isinstance(t, tuple) and t and t[0] == "closure" and t[1] == filt.defpath:
                    for (nm, ot) in t[2]:
                        pv = pb.provenance(ot, depth=8)
                        srcs[nm] = "relay" if any(x.endswith("::sample_relay") for x in pv["calls"]) else "leader" if any(x.endswith("EpochInfo::leader") for x in pv["calls"]) else "other"
    ok = filt is not None and len(excl) == 2 and sorted(srcs.get(n, "?") for n in excl) == ["leader", "relay"] and len(filt.captures) == 2
    o.check(ok, "broadcast_if_relay|excludes", "the recipient filter excludes exactly the sampled relay and the slot's leader", fam[0].span if fam else "", {"excluded": {n: srcs.get(n) for n in excl}})
    main = [b for b in fam if b.is_closure and b.defpath.endswith("broadcast_if_relay::{closure#0}")]
    for b in main:
        snd = [c for c in b.calls() if c.callee.endswith("Network::send_to_many")]
        # ... and nobody else: the recipient list passes through exactly that one narrowing step (a second filter - by stake, by liveness, .. -
        # withholds shreds from validators that still have to reconstruct and vote)
        for c in snd:
            rt = b.operand_term(c.args[2]) if len(c.args) > 2 else None
            narrowing = [x[1].rsplit("::", 1)[-1] for x in (mir.walk(rt) if rt is not None else []) if isinstance(x, tuple) and x and x[0] == "call"
                         and x[1].rsplit("::", 1)[-1] in ("filter", "filter_map", "take", "skip", "take_while", "skip_while", "step_by", "retain", "dedup", "truncate")]
            o.check(narrowing in (["filter"], ["filter_map"]), "broadcast_if_relay|single-filter", "the recipients are all validators minus what ONE filter excludes (the relay and the leader)", c.span, {"narrowing_steps": narrowing})
        for c in snd:
            g = [a for a in G.guard_atoms(b, c.bb, prog) if a[0] == "eq" and a[2] is True and any(K.mentions_call(x, "own_id") for x in a[1]) and any(K.mentions_call(x, "sample_relay") for x in a[1])]
            o.check(bool(g), "broadcast_if_relay|only-relay", "only the sampled relay broadcasts", c.span, {"guards": K.show_atoms(prog, b, c.bb)[:4]})
        ld = [c for c in b.calls() if c.name.endswith("EpochInfo::leader")]
        for c in ld:
            o.check(K.mentions_field(b.operand_term(c.args[1]), "slot", "SliceHeader"), "broadcast_if_relay|leader-of-slot", "the excluded leader is leader(shred.slot)", c.span)
    sr = prog.body(ROTOR + "::sample_relay")
    if sr is None:
        o.missing("Rotor::sample_relay")
    else:
        cs = sr.calls_to(ROTOR + "::sample_relays")
        ok = len(cs) == 1
        if ok:
            a1, a2 = sr.operand_term(cs[0].args[1]), sr.operand_term(cs[0].args[2])
            ok = K.mentions_field(a1, "slot", "SliceHeader") and K.mentions_field(a2, "slice_index", "SliceHeader")
        o.check(bool(ok), "sample_relay|inputs", "relays are sampled for (shred.slot, shred.slice_index)", sr.span)
        idx = [it for (_bb, _len, it, _sp) in sr.bounds_checks()] + [sr.operand_term(c.args[1]) for c in sr.calls() if c.callee == "core::ops::index::Index::index"]
        ok = bool(idx) and all(K.mentions_field(it, "shred_index", "ShredPayload") for it in idx)
        o.check(ok, "sample_relay|index", "and indexed by the shred's index", sr.span)
    tb = prog.body(TREE + "::new")
    if tb is not None:
        for (bb, rv, sp, dst) in tb.aggregates(TREE):
            fm = dict(zip(rv["fields"], [tb.operand_term(x) for x in rv["ops"]]))
            pv = tb.provenance(fm["children"])
            ok = any(x.endswith("Iterator::skip") for x in pv["calls"]) and any(x.endswith("Iterator::take") for x in pv["calls"]) and any(x.endswith("shuffle") for x in pv["calls"])
            o.check(ok, "TurbineTree::new|children", "children = shuffled order .skip(own_pos*fanout+1).take(fanout)", sp)
            # ... for EVERY position: no shortcut that makes deeper layers leaves (the children value has a single definition, computed
            # unconditionally from the shuffled order)
            ct = fm["children"]
            alt = []
            if isinstance(ct, tuple) and ct and ct[0] == "local":
                filled = tb.inplace_sources(ct[1])
                for d in tb.defs().get(ct[1], []):
                    t = tb.call_term(d[1], d[3]) if d[0] == "call" else tb.rvalue_term(d[3]["rv"])
                    if filled and isinstance(t, tuple) and t and t[0] == "call" and t[1].rsplit("::", 1)[-1] in ("new", "with_capacity", "default"):
                        continue        # `let mut children = Vec::new();` then filled by a loop over the skip/take iterator
                    pv2 = tb.provenance(t)
                    if not (any(x.endswith("Iterator::skip") for x in pv2["calls"]) and any(x.endswith("Iterator::take") for x in pv2["calls"])):
                        alt.append(mir.show(t)[:80])
                # every element the iterator yields is kept: the filling calls are unconditional inside the loop
                for c2 in tb.calls():
                    if c2.name.rsplit("::", 1)[-1] in ("push", "extend", "insert", "push_back") and c2.args:
                        rt = tb.operand_term(c2.args[0])
                        if K.mentions(rt, lambda x: x[0] == "local" and x[1] == ct[1]):
                            ex2 = DET.extra_guards(prog, tb, c2.bb, [])
                            if ex2:
                                alt.append("conditional fill: " + ", ".join(G.atoms_show(ex2))[:80])
            sk = [c for c in tb.calls() if c.name.endswith("Iterator::skip")]
            extra = DET.extra_guards(prog, tb, sk[0].bb, []) if sk else ["no skip call"]
            o.check(not alt and not extra, "TurbineTree::new|children|every-position", "the children are computed the same way for every position in the tree (no layer is cut off)", sp,
                    {"other_definitions": alt, "conditions": G.atoms_show(extra) if sk else extra})
            # the offset formula: own_pos * fanout + 1, fanout children
            if sk:
                off = tb.operand_term(sk[0].args[1])
                tk = [c for c in tb.calls() if c.name.endswith("Iterator::take")]
                okf = False
                a = off[1] if isinstance(off, tuple) and off[0] == "field" and off[2] == "0" else off
                if isinstance(a, tuple) and a[0] == "bin" and a[1].startswith("Add") and K.const_eval(a[3]) == 1:
                    m = a[2][1] if isinstance(a[2], tuple) and a[2][0] == "field" and a[2][2] == "0" else a[2]
                    okf = isinstance(m, tuple) and m[0] == "bin" and m[1].startswith("Mul") and any(K.is_arg(tb, x, 2) for x in m[2:4])
                okf = okf and bool(tk) and K.is_arg(tb, tb.operand_term(tk[0].args[1]), 2)
                o.check(okf, "TurbineTree::new|children|offset", "offset = own_pos * fanout + 1, fanout children taken", sk[0].span, {"offset": mir.show(off)[:120]})
            pr = tb.provenance(fm["root"])
            o.check(any(x.endswith("shuffle") for x in pr["calls"]), "TurbineTree::new|root", "root = first of the shuffled order", sp)


def ob_forward(run, oid):
    prog = run.program("lib")
    o = run.ob(oid, "the receive path forwards every validated shred before (and independently of) leader check and blockstore result",
               "a relay that forwards only what it could store, or not when it is the leader's peer, breaks dissemination for everyone behind it", floor=6)
    fam = [b for b in prog.family(A + "consensus::Alpenglow::handle_disseminator_shred") if b.is_closure and b.defpath.endswith("handle_disseminator_shred::{closure#0}")]
    if not fam:
        o.missing("Alpenglow::handle_disseminator_shred")
    for b in fam:
        fw = [c for c in b.calls() if c.callee.endswith("Disseminator::forward")]
        add = [c for c in b.calls() if c.callee.endswith("Blockstore::add_shred_from_dissemination")]
        o.check(len(fw) == 1 and len(add) == 1, "handle_disseminator_shred|calls", "forwards and ingests", b.span)
        for c in fw:
            atoms = G.guard_atoms(b, c.bb, prog)
            bad = [a for a in atoms if (a[0] == "eq" and any(K.mentions_call(x, "own_id") for x in a[1])) or any(K.mentions_call(x, "add_shred_from_dissemination") for x in a[1] if isinstance(x, tuple))]
            o.check(not bad, "handle_disseminator_shred|forward|unconditional", "forward is not guarded by the leader test nor by the blockstore result", c.span, {"guards": G.atoms_show(atoms)[:6]})
            g = [a for a in atoms if a[0] == "is_ok" and a[2] is True and K.mentions_call(a[1][0], "ValidatedShred::try_new")]
            o.check(bool(g), "handle_disseminator_shred|forward|validated", "only validated shreds are forwarded", c.span)
            if add:
                o.check(b.dominates(c.bb, add[0].bb), "handle_disseminator_shred|forward|first", "forwarding precedes blockstore ingestion", c.span)

    # Turbine: a node forwards to ALL its children in the tree, for the tree of this (slot, index in slot)
    tf = [b for b in prog.family(TURB + "::forward_shred") if b.is_closure and b.defpath.endswith("forward_shred::{closure#0}")]
    if not tf:
        o.missing("Turbine::forward_shred")
    for b in tf:
        snd = [c for c in b.calls() if c.callee.endswith("Network::send_to_many")]
        ok = len(snd) == 1
        det = {}
        if ok:
            c = snd[0]
            t = b.operand_term(c.args[2])
            pv = b.provenance(t, depth=8)
            calls = sorted(set(x.rsplit("::", 1)[-1] for x in pv["calls"]))
            det = {"calls": calls}
            narrowing = [x for x in calls if x in ("filter", "filter_map", "take", "skip", "take_while", "skip_while", "step_by", "retain", "dedup")]
            ok = any(x.endswith("get_children") for x in pv["calls"]) and not narrowing and not DET.extra_guards(prog, b, c.bb, [])
        o.check(ok, "Turbine::forward_shred|all-children", "the shred goes to every child of this node in the tree (no filter, no condition)", snd[0].span if snd else b.span, det)
        gt = [c for c in b.calls() if c.name == TURB + "::get_tree"]
        ok = len(gt) == 1 and K.mentions_field(b.operand_term(gt[0].args[1]), "slot", "SliceHeader") and K.mentions_call(b.operand_term(gt[0].args[2]), "index_in_slot")
        o.check(ok, "Turbine::forward_shred|tree-of-this-shred", "the tree is the one for (shred.slot, shred.index_in_slot())", gt[0].span if gt else b.span)


def ob_leader_sends_to_root_only(run, oid):
    """Turbine: the leader hands a shred to the root of its tree - once - and to nobody else; everyone else gets it down the tree"""
    prog = run.program("lib")
    o = run.ob(oid, "Turbine::send_shred_to_root performs exactly one network send (to the tree's root) and forwards to nobody",
               "'exactly once under Turbine': the leader is itself a node of the tree and will forward the shred when it comes down to it; if it also serves its children when "
               "sending, they receive every shred twice", floor=1)
    fam = prog.family(A + "disseminator::turbine::Turbine::send_shred_to_root")
    if not fam:
        o.missing("Turbine::send_shred_to_root")
        return o
    sends = [c for b in fam for c in b.calls() if c.name.rsplit("::", 1)[-1] in ("send", "send_to_many", "forward", "forward_shred", "broadcast") and "{closure" not in c.name and ("Network" in c.name or "Turbine" in c.name or "network" in c.name)]
    o.check(len(sends) == 1 and sends[0].name.rsplit("::", 1)[-1] == "send", "send_shred_to_root|one-send", "one Network::send, nothing else leaves the node here", fam[0].span, {"calls": [c.name[-50:] for c in sends]})
    return o


def ob_constructible(run, oid):
    """'for every validator count and stake distribution, both Rotor constructors': nothing is disseminated by a node whose Rotor / Turbine
    cannot be constructed. The panic sites reachable from the disseminators' constructors (and from the samplers they build) are the
    reviewed ones of C17 (same table, same reasons); an unreviewed one is reported here under C16's own id."""
    from engine import panics
    from . import C17 as _C17
    from . import panic_review as _PR
    prog = run.program("lib")
    o = run.ob(oid, "both Rotor constructors and Turbine's can be run for every validator set: every panic site reachable from them is reviewed",
               "a constructor that panics for an ordinary validator set (e.g. five equal stakes) leaves the node without a disseminator: no shred it leads or relays reaches anyone", floor=10)
    roots = sorted(d for d, b in prog.bodies.items() if not b.is_closure and (d.startswith(ROTOR + "::new") or d.startswith(TURB + "::new") or d == TURB + "::with_fanout"))
    if len(roots) < 3:
        o.missing("Rotor::new / Rotor::new_fa1 / Turbine::new")
    nb, ns = panics.review(o, prog, roots, _C17.REVIEWED, fshort, auto=_PR.auto)
    run.notes.append("%s: %d bodies reachable from %d disseminator constructors, %d panic sites" % (oid, nb, len(roots), ns))


def check(run):
    ob_batched_send(run, "O16.8")
    ob_leader_sends_to_root_only(run, "O16.9")
    from . import detectors as _DS
    _DS.ob_structural_impls(run, "O16.7", ['disseminator::', 'types::'], 'cache keys and relay comparisons use the derived equality / order of slots and indices')
    from . import detectors as _DL
    _DL.ob_loop_exits(run, "O16.6", ['disseminator'], 'every recipient / child has to be sent to: a loop that stops early leaves part of the tree without the shred')
    DET.ob_state_mutations(run, "O16.6", ['disseminator::rotor::Rotor', 'disseminator::turbine::Turbine'], 'routing state (samplers, caches) is fixed after construction')
    ob_no_ambient(run, "O16.1", "lib")
    if run.tier == "thorough":
        ob_no_ambient(run, "O16.1b", "bins")
    ob_seed(run, "O16.2")
    ob_cache(run, "O16.3")
    ob_relay_set(run, "O16.4")
    ob_forward(run, "O16.5")
    ob_constructible(run, "O16.10")
