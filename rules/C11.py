"""C11 — erasure coding: any 32 of a slice's 64 shreds restore it (structural part)."""
import re
from engine import guards as G
from engine import mir
from . import common as K
from . import detectors as D
from .common import A, fshort

EXPLANATION = (
    "Decides O11.1-O11.5: shred geometry constants and the per-implementation identities (const-evaluated: DATA+CODING "
    "output shreds = TOTAL_SHREDS, coder built with CODING_OUTPUT_SHREDS, MAX_DATA_SIZE + appended key bytes = "
    "MAX_DATA_PER_SLICE); every Reed-Solomon decoder call is dominated by the NotEnoughShreds return taken exactly for "
    "count < DATA_SHREDS (interval normal form of the guard); every encoder call in shred() is dominated by the "
    "TooMuchData return taken exactly for len > MAX_DATA_PER_SLICE and all four Shredder::shred impls route through it; "
    "in Shredder::deshred the in-place fill of missing shreds is the last fallible-free step (no error exit after the "
    "mutation); the Ok path passes the layout, Merkle-root and padding-marker gates and regenerated shreds get the checked "
    "tree's proofs. Does NOT decide bit-exact reconstruction for all lengths/subsets (arithmetic of padding and of reed-solomon-simd)."
)

SH = A + "shredder::"
RS = SH + "reed_solomon::ReedSolomonCoder"
IMPLS = ["RegularShredder", "CodingOnlyShredder", "PetsShredder", "AontShredder"]


const_side = D.const_side
err_set = D.holds_set


def assoc_const(prog, impl_ty, name):
    for defp, recs in prog.consts.items():
        if defp.endswith("::" + name):
            for r in recs:
                if r.get("impl_self", "").endswith(impl_ty) and "int" in r:
                    return int(r["int"])
    return None


def check(run, prefix="O11"):
    P = prefix
    from . import detectors as _DN
    _DN.ob_new_fields(run, P + ".14", ['shredder'], 'the coders are reused for every slice (shredder pool): state left behind by one slice must not reach the next')
    from . import detectors as _DC
    _DC.ob_narrowing_casts(run, P + ".13", ['shredder'], 'shard counts, sizes and indices: a truncated length pads or splits the payload at the wrong place')
    from . import detectors as _DL
    _DL.ob_loop_exits(run, P + ".11", ['shredder'], 'every shard has to be encoded / restored: a loop that stops early leaves shreds missing')
    ob_decode_tail(run, P + ".10")
    from . import detectors as _DF
    _DF.ob_field_copies(run, P + ".16", ["types::slice::Slice::from_parts", "types::slice::Slice::header", "types::slice::Slice::deconstruct", "types::slice::ReconstructedSlice::from_parts"],
                        'a restored slice equals the original in slot, index, last-slice flag, parent and data only if header and payload are taken apart and put together unchanged on both sides')
    ob_pets_withheld(run, P + ".15")
    ob_restored_size_bound(run, P + ".12")
    ob_payload_decode_gate(run, P + ".8")
    ob_coder_reset(run, P + ".9")
    ob_validated_set(run, P + ".7")
    ob_padding_arithmetic(run, P + ".6")
    prog = run.program("lib")

    # ------------------------------------------------------------------ O11.1
    o = run.ob(P + ".1", "shred geometry constants and per-implementation identities",
               "with other constants '32 of 64' is simply false; a coder built for another coding count or a size limit ignoring the appended key corrupts or rejects maximal slices", floor=18)
    want = {"DATA_SHREDS": 32, "TOTAL_SHREDS": 64}
    vals = {}
    for nm in ("DATA_SHREDS", "TOTAL_SHREDS", "MAX_DATA_PER_SHRED", "MAX_DATA_PER_SLICE", "MAX_DATA_PER_SLICE_AFTER_PADDING"):
        vals[nm] = prog.const_int(SH + nm)
        if vals[nm] is None:
            o.missing("const shredder::" + nm)
    kb = prog.const_int(A + "crypto::cipher::KEY_BYTES")
    if None not in vals.values():
        o.check(vals["DATA_SHREDS"] == 32 and vals["TOTAL_SHREDS"] == 64, "const|32-of-64", "DATA_SHREDS = 32, TOTAL_SHREDS = 64", "", vals)
        o.check(vals["MAX_DATA_PER_SLICE_AFTER_PADDING"] == vals["DATA_SHREDS"] * vals["MAX_DATA_PER_SHRED"] and vals["MAX_DATA_PER_SLICE"] == vals["MAX_DATA_PER_SLICE_AFTER_PADDING"] - 1,
                "const|slice-size", "MAX_DATA_PER_SLICE = DATA_SHREDS * MAX_DATA_PER_SHRED - 1 (room for the 0x80 marker)", "", vals)
        for im in IMPLS:
            d = assoc_const(prog, im, "DATA_OUTPUT_SHREDS")
            c = assoc_const(prog, im, "CODING_OUTPUT_SHREDS")
            m = assoc_const(prog, im, "MAX_DATA_SIZE")
            if None in (d, c, m):
                o.missing("associated consts of " + im)
                continue
            o.check(d + c == vals["TOTAL_SHREDS"], "%s|outputs" % im, "%s: DATA_OUTPUT_SHREDS + CODING_OUTPUT_SHREDS = TOTAL_SHREDS" % im, "", {"data": d, "coding": c})
            # appended bytes before coding: read from the impl's shred(): extend/extend_from_slice of key material
            sb = [b for dpath, b in prog.bodies.items() if dpath.startswith("<" + SH + im + " as") and dpath.endswith("::shred")]
            appended = 0
            if sb:
                ext = [cc for cc in sb[0].calls() if cc.name.endswith("::extend_from_slice") or cc.name.endswith("Extend<T>>::extend") or cc.name.endswith("::extend")]
                if not ext:
                    # the key may be appended byte by byte (`for (k, h) in key.iter().zip(..) { payload.push(k ^ h) }`)
                    ext = [cc for cc in sb[0].calls() if cc.name.rsplit("::", 1)[-1] in ("push", "append") and len(cc.args) > 1
                           and any(x.endswith("encrypt_with_random_key") for x in sb[0].provenance(sb[0].operand_term(cc.args[1]), depth=8)["calls"])]
                if ext:
                    appended = kb or 0
            o.check(m + appended == vals["MAX_DATA_PER_SLICE"], "%s|max-data" % im, "%s: MAX_DATA_SIZE + appended key bytes (%d) = MAX_DATA_PER_SLICE" % (im, appended), "", {"MAX_DATA_SIZE": m})
            # Default builds the coder with CODING_OUTPUT_SHREDS
            db = [b for dpath, b in prog.bodies.items() if dpath.startswith("<" + SH + im + " as") and dpath.endswith("Default>::default")]
            ok = False
            for b in db:
                for cc in b.calls_to(RS + "::new"):
                    t = b.operand_term(cc.args[0])
                    ok = t[0] == "const" and t[2] == c
            o.check(ok, "%s|coder" % im, "%s::default() = ReedSolomonCoder::new(CODING_OUTPUT_SHREDS = %d)" % (im, c), db[0].span if db else "")
            # data shreds emitted = DATA_OUTPUT_SHREDS: RS always yields DATA_SHREDS data + c' coding; impl drops (DATA_SHREDS - d) data shreds
            o.check(0 <= vals["DATA_SHREDS"] - d <= vals["DATA_SHREDS"] and c <= vals["TOTAL_SHREDS"], "%s|drops" % im, "%s keeps %d of the %d data shards" % (im, d, vals["DATA_SHREDS"]), "")
    b = prog.body(RS + "::new")
    if b is not None:
        for cc in [x for x in b.calls() if x.name.endswith("ReedSolomonEncoder::new") or x.name.endswith("ReedSolomonDecoder::new")]:
            t = b.operand_term(cc.args[0])
            o.check(t[0] == "const" and t[2] == 32, "ReedSolomonCoder::new|%s" % mir.short(cc.name), "original shard count = DATA_SHREDS", cc.span, {"arg": mir.show(t)})

    # ------------------------------------------------------------------ O11.2
    o = run.ob(P + ".2", "fewer than DATA_SHREDS shreds never reach the Reed-Solomon decoder",
               "decoding with too few shards panics inside the decoder ('just added enough shreds') or fabricates data", floor=4)
    b = prog.body(RS + "::deshred")
    if b is None:
        o.missing("ReedSolomonCoder::deshred")
    else:
        dec = [c for c in b.calls() if "ReedSolomonDecoder" in c.name]
        if not dec:
            o.fail("ReedSolomonCoder::deshred|decoder-calls", "no decoder calls found", b.span)
        for c, key in K.ordinal_keys(dec, lambda c: "ReedSolomonCoder::deshred|%s" % mir.short(c.name)):
            ok = False
            det = {"guards": K.show_atoms(prog, b, c.bb)}
            for a in G.guard_atoms(b, c.bb, prog):
                if a[0] == "lt" and any(K.mentions_call(x, "shred_count") for x in a[1]):
                    # the guard holds on the path to the decoder; the decoder must be reached exactly for count >= 32
                    s = err_set(a, range(0, 65))
                    if s == set(range(32, 65)):
                        ok = True
                    det["reached_for_counts"] = "%s..%s" % (min(s), max(s)) if s else None
            o.check(ok, key + "|enough-shreds", "reached only when shred_count() >= DATA_SHREDS (32)", c.span, det)
        errs = [(bb, sp) for (bb, rv, sp, dst) in b.aggregates(SH + "reed_solomon::ReedSolomonDeshredError", "NotEnoughShreds")]
        o.check(bool(errs), "ReedSolomonCoder::deshred|NotEnoughShreds", "returns NotEnoughShreds otherwise", b.span)
    # shred_count counts the present shreds
    sc = prog.body(SH + "validated_shreds::ValidatedShreds::shred_count")
    if sc is not None:
        cs = sc.mentioned_fns()
        fam_cs = set(cs)
        for fb in prog.family(sc.defpath):
            fam_cs |= fb.mentioned_fns()
        some_only = any(x.endswith("::flatten") for x in cs) or (any(x.endswith("::filter") for x in cs) and any(x.endswith("Option::is_some") for x in fam_cs)) \
            or any(x.endswith("::filter_map") or x.endswith("::flat_map") for x in cs)
        o.check(any(x.endswith("::count") for x in cs) and some_only and K.mentions_field(sc.operand_term(sc.calls()[0].args[0]), "shreds") if sc.calls() else False,
                "ValidatedShreds::shred_count|counts-some", "shred_count() counts the Some entries of self.shreds (flatten / filter(is_some))", sc.span)

    # ------------------------------------------------------------------ O11.3
    o = run.ob(P + ".3", "oversized payloads are refused before encoding; every shredder routes its payload through that check",
               "an oversized slice would be split into shards larger than MAX_DATA_PER_SHRED (shreds exceed the datagram size) or panic in the encoder", floor=6)
    b = prog.body(RS + "::shred")
    if b is None:
        o.missing("ReedSolomonCoder::shred")
    else:
        enc = [c for c in b.calls() if "ReedSolomonEncoder" in c.name]
        lim = prog.const_int(SH + "MAX_DATA_PER_SLICE")
        for c, key in K.ordinal_keys(enc, lambda c: "ReedSolomonCoder::shred|%s" % mir.short(c.name)):
            ok = False
            for a in G.guard_atoms(b, c.bb, prog):
                if a[0] == "lt" and any(K.mentions_call(x, "::len") or "PtrMetadata" in mir.show(x) for x in a[1]):
                    s = err_set(a, [lim - 1, lim, lim + 1, 0, lim * 2])
                    if s == {lim - 1, lim, 0}:
                        ok = True
            o.check(ok, key + "|size-limit", "reached only when payload.len() <= MAX_DATA_PER_SLICE", c.span, {"guards": K.show_atoms(prog, b, c.bb)})
        o.check(bool(b.aggregates(SH + "reed_solomon::ReedSolomonShredError", "TooMuchData")), "ReedSolomonCoder::shred|TooMuchData", "returns TooMuchData otherwise", b.span)
    for im in IMPLS:
        sb = [x for dpath, x in prog.bodies.items() if dpath.startswith("<" + SH + im + " as") and dpath.endswith("::shred")]
        if not sb:
            o.missing(im + "::shred")
            continue
        x = sb[0]
        rs = x.calls_to(RS + "::shred")
        out = x.calls_to(SH + "data_and_coding_to_output_shreds")
        ok = len(rs) == 1 and len(out) == 1 and x.dominates(rs[0].bb, out[0].bb)
        if ok:
            # the coder's result is branched on (`?`) before the shreds are assembled
            ok = any(a[0] in ("variant", "is_ok", "discr") and K.mentions_call(a[1][0], "ReedSolomonCoder::shred") for a in G.guard_atoms(x, out[0].bb, prog))
        o.check(bool(ok), "%s::shred|through-size-check" % im, "%s::shred encodes through ReedSolomonCoder::shred(..)? before assembling shreds" % im, x.span)

    # ------------------------------------------------------------------ O11.4
    o = run.ob(P + ".4", "on any decoding error the supplied shreds are left untouched: nothing fallible runs after the in-place fill",
               "an error after the mutation leaves regenerated (possibly wrong) shreds in the caller's array although reconstruction was rejected", floor=2)
    db = [x for dpath, x in prog.bodies.items() if dpath == SH + "Shredder::deshred"]
    if not db:
        o.missing("Shredder::deshred (provided method)")
    for x in db:
        fills = x.calls_to(SH + "fill_missing_shreds")
        o.check(len(fills) == 1, "Shredder::deshred|fill-once", "fill_missing_shreds is called exactly once", x.span)
        # every use of the &mut array as a mutable argument
        muts = []
        for c in x.calls():
            for i, a in enumerate(c.args):
                t = x.operand_term(a)
                if t == ("param", 2, x.local_name(2)) and c.name.startswith(A) and "&mut" in (prog.bodies[c.name].rec.get("sig", "") if c.name in prog.bodies else "&mut"):
                    if c.name in prog.bodies:
                        sig = prog.bodies[c.name].rec.get("sig", "")
                        params = sig[sig.index("(") + 1:]
                        if "&'a mut [core::option::Option<" in params or "&mut [core::option::Option<" in params or "mut [" in params.split(",")[i] if i < len(params.split(",")) else False:
                            muts.append(c)
        o.check(all(m.name == SH + "fill_missing_shreds" for m in muts), "Shredder::deshred|only-mutator", "fill_missing_shreds is the only callee receiving the array mutably", x.span, {"mutators": [fshort(m.name) for m in muts]})
        for f in fills:
            after = x.reachable(f.bb)
            bad = []
            for bb in after:
                if bb == f.bb:
                    continue
                bl = x.blocks[bb]
                for st in bl["stmts"]:
                    if st["k"] == "assign" and st["rv"]["k"] == "agg" and st["rv"]["ak"] == "adt" and st["rv"]["adt"] == "core::result::Result" and st["rv"]["variant"] == "Err":
                        bad.append(st.get("sp"))
                t = bl["term"]
                if t["k"] == "call" and (t.get("callee", "").endswith("FromResidual::from_residual") or t.get("callee", "").endswith("Try::branch")):
                    bad.append(t.get("sp"))
            o.check(not bad, "Shredder::deshred|nothing-fallible-after-fill", "no error exit is reachable after fill_missing_shreds", f.span, {"fallible_after": bad})

    # ------------------------------------------------------------------ O11.5
    o = run.ob(P + ".5", "the Ok path of deshred passes the layout, Merkle-root and padding gates; regenerated shreds carry the checked tree's proofs and a received signature",
               "without the root comparison a node regenerates and re-serves shreds the leader never signed", floor=6)
    for x in db:
        fills = x.calls_to(SH + "fill_missing_shreds")
        for f in fills:
            atoms = G.guard_atoms(x, f.bb, prog)
            det = {"guards": G.atoms_show(atoms)}
            def passed(callee):
                return any(K.mentions_call(t, callee) for a in atoms for t in a[1] if isinstance(t, tuple))
            o.check(passed("ValidatedShreds::try_new"), "Shredder::deshred|gate|layout", "behind ValidatedShreds::try_new(..) being Some", f.span, det)
            o.check(passed("check_merkle_tree"), "Shredder::deshred|gate|merkle-root", "behind check_merkle_tree(..) being Ok", f.span, det)
            o.check(passed("deshred_validated_shreds"), "Shredder::deshred|gate|decode", "behind deshred_validated_shreds(..) being Ok", f.span, det)
            o.check(passed("::try_from"), "Shredder::deshred|gate|payload", "behind SlicePayload::try_from(..) being Ok", f.span, det)
            # ... and behind nothing else: any 32 shreds of an honest slice pass these gates; a further size / padding heuristic rejects honest
            # slices of some lengths for some shredders
            gates = ("try_new", "check_merkle_tree", "deshred_validated_shreds", "try_from")
            wrappers = ("branch", "ok_or", "ok_or_else", "map_err", "ok", "as_ref", "as_slice", "from_residual", "into")

            def outer_call(t):
                while isinstance(t, tuple) and t:
                    if t[0] in ("variant", "field", "discr", "ref", "deref"):
                        t = t[1]
                    elif t[0] == "call" and t[1].rsplit("::", 1)[-1] in wrappers and t[2]:
                        t = t[2][0]
                    else:
                        break
                return t[1].rsplit("::", 1)[-1] if isinstance(t, tuple) and t and t[0] == "call" else None

            def is_gate(a):
                return a[0] in ("variant", "bool", "is_some", "is_ok") and isinstance(a[1][0], tuple) and outer_call(a[1][0]) in gates

            def is_empty_test(a):
                # `shreds.iter().all(Option::is_none)` in any spelling: only the shreds argument and iterator plumbing take part
                ts = [t for t in a[1] if isinstance(t, tuple)]
                names = set(y[1].rsplit("::", 1)[-1] for t in ts for y in mir.walk(t) if isinstance(y, tuple) and y and y[0] == "call")
                return bool(ts) and all(K.mentions_arg(x, t, 2) or (t[0] == "local") for t in ts) and names <= {"all", "any", "iter", "into_iter", "next", "is_none", "is_some", "deref", "as_ref", "as_slice"}
            extra = D.extra_guards(prog, x, f.bb, [is_gate, is_empty_test])
            o.check(not extra, "Shredder::deshred|gate|no-other", "no condition besides the four gates (and the not-empty test) stands before the restored slice", f.span, {"extra": G.atoms_show(extra)})
            tree = x.operand_term(f.args[3])
            sig = x.operand_term(f.args[4])
            o.check(K.mentions_call(tree, "check_merkle_tree"), "Shredder::deshred|fill|tree", "proofs come from the tree that check_merkle_tree validated", f.span, {"tree": mir.show(tree)[:120]})
            o.check(K.mentions_call(sig, "any_shred") or K.mentions_field(sig, "slice_sig"), "Shredder::deshred|fill|signature", "the signature is copied from a received shred", f.span, {"sig": mir.show(sig)[:120]})
    cm = prog.body(SH + "check_merkle_tree")
    if cm is None:
        o.missing("shredder::check_merkle_tree")
    else:
        oks = [(bb, sp) for (bb, rv, sp, dst) in cm.aggregates("core::result::Result", "Ok")]
        ok = False
        for (bb, sp) in oks:
            for a in G.guard_atoms(cm, bb, prog):
                if a[0] == "eq" and a[2] is True and any(K.mentions_call(t, "get_root") for t in a[1]) and any(t[0] == "param" for t in map(K.peel, a[1])):
                    ok = True
        o.check(ok, "check_merkle_tree|root-equality", "Ok only when the rebuilt tree's root equals the expected (signed) root", cm.span)
    b = prog.body(RS + "::deshred")
    if b is not None:
        oks = [(bb, sp) for (bb, rv, sp, dst) in b.aggregates("core::result::Result", "Ok")]
        ok = False
        for (bb, sp) in oks:
            for a in G.guard_atoms(b, bb, prog):
                if a[0] == "eq" and a[2] is True and any(const_side(t) == 0x80 for t in a[1]):
                    ok = True
        o.check(ok, "ReedSolomonCoder::deshred|padding-marker", "Ok only when the byte before the zero padding is 0x80", b.span)


def ob_padding_arithmetic(run, oid):
    """O11.6: the size arithmetic of ReedSolomonCoder::shred, evaluated for EVERY payload length 0..=MAX_DATA_PER_SLICE.
    The quantities are taken where they are used, not by local name: shard size = 3rd argument of encoder.reset and of both
    .chunks(..) calls; boundary = payload[..b] / payload[b..]; tail size = Vec::resize(.., n, 0)."""
    from . import termeval as TE
    prog = run.program("lib")
    o = run.ob(oid, "padding arithmetic of ReedSolomonCoder::shred holds for every payload length 0..=MAX_DATA_PER_SLICE: DATA_SHREDS equal even-sized shards, "
                    "marker fits, nothing under/overflows",
               "a length for which the tail is not a whole number of shards (or the shard size is odd / above MAX_DATA_PER_SHRED) makes the encoder's expect panic or "
               "yields a slice that cannot be restored: 'every slice that fits the size limit' fails for that residue", floor=8)
    b = prog.body(RS + "::shred")
    if b is None:
        o.missing("ReedSolomonCoder::shred")
        return
    data = prog.const_int(SH + "DATA_SHREDS")
    mx = prog.const_int(SH + "MAX_DATA_PER_SLICE")
    mps = prog.const_int(SH + "MAX_DATA_PER_SHRED")
    if None in (data, mx, mps):
        o.missing("shredder constants")
        return

    def one(cs, what):
        if len(cs) != 1:
            o.fail("shred|anchor|" + what, "expected exactly one %s in ReedSolomonCoder::shred (found %d)" % (what, len(cs)), b.span)
            return None
        return cs[0]
    reset = one([c for c in b.calls() if c.name.endswith("ReedSolomonEncoder::reset")], "encoder.reset")
    resize = one([c for c in b.calls() if c.name.endswith("Vec::resize")], "Vec::resize of the tail")
    chunks = [c for c in b.calls() if c.name.rsplit("::", 1)[-1] == "chunks"]
    idx = [c for c in b.calls() if c.name.endswith("index::index") or c.name.endswith("Index<I>>::index")]
    rto = rfrom = None
    for c in idx:
        for x in mir.walk(b.operand_term(c.args[1])):
            if isinstance(x, tuple) and x and x[0] == "agg":
                if "RangeTo" in str(x[1]) and "Inclusive" not in str(x[1]):
                    rto = x
                elif "RangeFrom" in str(x[1]):
                    rfrom = x
    # `payload.split_at(b)` gives both halves at once: ([..b], [b..])
    split_b = None
    for c in b.calls():
        if c.name.rsplit("::", 1)[-1] in ("split_at", "split_at_checked") and len(c.args) == 2 and K.mentions_arg(b, b.operand_term(c.args[0]), 2):
            split_b = b.operand_term(c.args[1])
    if split_b is not None:
        if rto is None:
            rto = ("agg", "split_at::RangeTo", "RangeTo", (("end", split_b),))
        if rfrom is None:
            rfrom = ("agg", "split_at::RangeFrom", "RangeFrom", (("start", split_b),))
    if reset is None or resize is None or len(chunks) != 2 or rto is None or rfrom is None:
        o.fail("shred|anchors", "could not find reset / resize / two chunks calls / payload[..b] and payload[b..]", b.span,
               {"chunks": len(chunks), "range_to": rto is not None, "range_from": rfrom is not None})
        return

    def agg_op(x):
        # ("agg", path, variant, ((field, term), ...)): the single bound of RangeTo / RangeFrom
        fs = x[3] if len(x) > 3 else ()
        return fs[0][1] if len(fs) == 1 else None
    S_t = b.operand_term(reset.args[3])
    L_t = b.operand_term(resize.args[1])
    Bto_t, Bfrom_t = agg_op(rto), agg_op(rfrom)
    C_t = [b.operand_term(c.args[1]) for c in chunks]
    if Bto_t is None or Bfrom_t is None:
        o.fail("shred|anchors|range-bounds", "could not read the bounds of payload[..b] / payload[b..]", b.span)
        return

    def env_for(n):
        def env(t):
            if isinstance(t, tuple) and t and t[0] == "call" and t[1].rsplit("::", 1)[-1] == "len" and K.mentions_arg(b, t, 2):
                return n
            return None
        return env
    bad = {}
    undec = None
    for n in range(0, mx + 1):
        e = env_for(n)
        try:
            S, L, B1, B2 = TE.ev(S_t, e), TE.ev(L_t, e), TE.ev(Bto_t, e), TE.ev(Bfrom_t, e)
            C1, C2 = TE.ev(C_t[0], e), TE.ev(C_t[1], e)
        except TE.Unknown as ex:
            undec = str(ex)
            break
        except TE.Overflow as ex:
            bad.setdefault("no-overflow", []).append((n, str(ex)))
            continue
        checks = {
            "one-boundary": B1 == B2,
            "chunk-size=shard-size": C1 == S and C2 == S,
            "shard-size-even-positive-bounded": S >= 2 and S % 2 == 0 and S <= mps,
            "head-whole-shards": B1 <= n and S > 0 and B1 % S == 0,
            "tail-whole-shards": S > 0 and L % S == 0 and L >= 1,
            "exactly-DATA_SHREDS-shards": S > 0 and (B1 + L) == data * S,
            "marker-fits": n - B1 + 1 <= L if B1 <= n else False,
        }
        for k, v in checks.items():
            if not v:
                bad.setdefault(k, []).append((n, {"shard": S, "tail": L, "boundary": B1}))
    if undec is not None:
        run.notes.append("O11.6: a size expression of ReedSolomonCoder::shred is outside the evaluator's vocabulary (%s): padding arithmetic not decided" % undec)
        o.ok("shred|padding-arithmetic|not-decided", "size expressions use operations outside the term evaluator: not decided (no alarm)", b.span, nontrivial=False)
        return
    for k in ("no-overflow", "one-boundary", "chunk-size=shard-size", "shard-size-even-positive-bounded", "head-whole-shards", "tail-whole-shards", "exactly-DATA_SHREDS-shards", "marker-fits"):
        v = bad.get(k, [])
        o.check(not v, "shred|padding|" + k, "%s for every payload length 0..=%d" % (k, mx), b.span, {"first_failing_lengths": v[:3], "failing": len(v)})
    # the size gate really is `len > MAX_DATA_PER_SLICE => Err`
    errs = [(bb, sp) for (bb, rv, sp, dst) in b.aggregates("core::result::Result", "Err") if dst["l"] == 0]
    g = any(a[0] == "lt" and a[2] is True and K.const_eval(a[1][0]) == mx and K.mentions_call(a[1][1], "len") for (bb, sp) in errs for a in G.guard_atoms(b, bb, prog))
    o.check(g, "shred|gate=MAX_DATA_PER_SLICE", "payloads are refused exactly above MAX_DATA_PER_SLICE (%d), the bound the arithmetic was evaluated for" % mx, b.span)


def ob_validated_set(run, oid):
    """what ReedSolomonCoder::deshred relies on (its expect()s): ValidatedShreds::try_new admits a set only if every shard has one
    common size that is non-zero and even, and every shred sits at the position of its kind"""
    from . import termeval as TE
    prog = run.program("lib")
    o = run.ob(oid, "ValidatedShreds::try_new admits only sets whose shards share one size that is even and non-zero, kinds matching positions",
               "the Reed-Solomon decoder rejects empty / odd / unequal shards and wrong indices: deshred treats that as impossible (expect), so a leader-signed "
               "slice of such shreds would panic the node instead of being reported as invalid", floor=4)
    b = prog.body(SH + "validated_shreds::ValidatedShreds::try_new")
    if b is None:
        o.missing("ValidatedShreds::try_new")
        return
    somes = [(bb, sp) for (bb, rv, sp, dst) in b.aggregates("core::option::Option", "Some") if dst["l"] == 0]
    if len(somes) != 1:
        o.fail("try_new|single-some", "expected one Some(..) result", b.span)
        return
    bb, sp = somes[0]
    atoms = G.guard_atoms(b, bb, prog)
    # size conditions: atoms over `<any shred>.payload().data.len()` and constants only
    size_atoms = []
    for a in atoms:
        if a[0] not in ("eq", "lt", "bool"):
            continue
        ts = list(a[1])
        if all(K.mentions_call(x, "len") or K.const_eval(x) is not None for x in ts) and any(K.mentions_call(x, "len") for x in ts) and not (
                a[0] == "eq" and all(K.mentions_call(x, "len") for x in ts)):
            size_atoms.append(a)

    def env_for(n):
        def env(t):
            if isinstance(t, tuple) and t and t[0] == "call" and t[1].rsplit("::", 1)[-1] == "len":
                return n
            return None
        return env
    try:
        acc = [n for n in range(0, 41) if all(TE.ev_atom(a[0], a[1], env_for(n)) == a[2] for a in size_atoms)]
        o.check(bool(size_atoms) and acc == [n for n in range(0, 41) if n > 0 and n % 2 == 0], "try_new|size-even-nonzero",
                "the common shard size is accepted exactly when it is non-zero and even (evaluated for sizes 0..40)", sp, {"accepted": acc[:8], "conditions": G.atoms_show(size_atoms)})
    except TE.Unknown as e:
        run.notes.append("O11.7: size condition outside the evaluator's vocabulary (%s): not decided" % e)
        o.ok("try_new|size-even-nonzero|not-decided", "size conditions not evaluable: not decided (no alarm)", sp, nontrivial=False)
    nones = [(nb, nsp, G.guard_atoms(b, nb, prog)) for (nb, rv, nsp, dst) in b.aggregates("core::option::Option", "None") if dst["l"] == 0]
    def closure_compares_lens(a):
        # `present.any(|s| s.payload().data.len() != shred_size)`: a bool guard on an iterator predicate whose closure compares a length
        if a[0] != "bool" or not isinstance(a[1][0], tuple):
            return False
        for x in mir.walk(a[1][0]):
            if isinstance(x, tuple) and x and x[0] == "closure":
                cb = prog.bodies.get(x[1])
                if cb is not None and any(c.name.rsplit("::", 1)[-1] == "len" for c in cb.calls()):
                    tt = None
                    try:
                        from engine import paths as _p
                        tt = _p.bool_truth_table(cb, prog)
                    except Exception:
                        tt = None
                    if tt is not None and any(isinstance(t, tuple) and t and t[0] == "eq" for t in tt[0]):
                        return True
        return False
    uneq = [x for x in nones if any((a[0] == "eq" and a[2] is False and all(K.mentions_call(t, "len") for t in a[1])) or closure_compares_lens(a) for a in x[2])]
    o.check(bool(uneq), "try_new|sizes-equal", "a shred whose size differs from the common size => None", uneq[0][1] if uneq else b.span)
    # kind vs position: a disjunction, so no single edge dominates the None - look at the switches on is_data() / is_coding()
    # and require that a failing test leads straight to a None result
    none_bbs = set(x[0] for x in nones)
    es = b.edges()

    def leads_to_none(bb0, depth=0):
        if bb0 in none_bbs:
            return True
        if depth > 4:
            return False
        t = b.blocks[bb0]["term"]
        if t["k"] == "goto":
            return leads_to_none(t["t"], depth + 1)
        return False
    hit = {"is_data": False, "is_coding": False}
    for (s_, dterm, dty) in b.switches():
        for nm in hit:
            if K.mentions_call(dterm, nm):
                if any(leads_to_none(e[1]) for e in es if e[0] == s_):
                    hit[nm] = True
    o.check(all(hit.values()), "try_new|kind-matches-position", "a shred whose kind (data / coding) contradicts its position => None", b.span, {"tests_found": hit})
    ctor = [d for d, bd in prog.bodies.items() if not bd.generated for x in bd.aggregates(SH + "validated_shreds::ValidatedShreds")]
    o.check(set(K.root_fn(d) for d in ctor) <= {SH + "validated_shreds::ValidatedShreds::try_new"}, "ValidatedShreds|constructed-only-in-try_new", "no other construction site", "",
            {"sites": [fshort(d) for d in ctor]})


def ob_payload_decode_gate(run, oid):
    """SlicePayload::try_from (last step of every deshred): which lengths are admitted to the exact decoder"""
    from . import termeval as TE
    from . import C19
    prog = run.program("lib")
    o = run.ob(oid, "SlicePayload::try_from hands every length from the smallest encodable payload up to MAX_DATA_PER_SLICE to the exact decoder",
               "a length gate that is off by one refuses the empty slice (or the maximum one) after a successful reconstruction: 'including the empty and the maximum payload' fails", floor=2)
    bs = [bd for d, bd in prog.bodies.items() if d.endswith("TryFrom<&[u8]>>::try_from") and "SlicePayload" in d and not bd.generated]
    if len(bs) != 1:
        o.missing("<SlicePayload as TryFrom<&[u8]>>::try_from")
        return
    b = bs[0]
    dec = [c for c in b.calls() if c.name.endswith("deserialize_exact")]
    if len(dec) != 1:
        o.fail("try_from|decode-site", "expected one deserialize_exact call", b.span)
        return
    mx = prog.const_int(SH + "MAX_DATA_PER_SLICE")
    sc = C19.SizeCalc(prog, C19.wire_consts(prog), None)
    mn = sc.min_size(A + "types::slice::SlicePayload")
    atoms = [a for a in G.guard_atoms(b, dec[0].bb, prog) if a[0] in ("lt", "eq") and any(K.mentions_call(x, "len") for x in a[1])]

    def env_for(n):
        def env(t):
            if isinstance(t, tuple) and t and t[0] == "call" and t[1].rsplit("::", 1)[-1] == "len" and K.mentions_arg(b, t, 1):
                return n
            return None
        return env
    try:
        rejected = [n for n in range(mn, mx + 1) if not all(TE.ev_atom(a[0], a[1], env_for(n)) == a[2] for a in atoms)]
        over = [n for n in (mx + 1, mx + 2, 2 * mx) if all(TE.ev_atom(a[0], a[1], env_for(n)) == a[2] for a in atoms)]
        o.check(not rejected, "try_from|admits-all-encodable-lengths", "every length %d..=%d reaches the decoder (min = None parent + empty data)" % (mn, mx), dec[0].span,
                {"first_rejected": rejected[:3], "conditions": G.atoms_show(atoms)})
        o.check(not over, "try_from|refuses-oversize", "lengths above MAX_DATA_PER_SLICE never reach the decoder", dec[0].span, {"admitted": over})
    except TE.Unknown as e:
        run.notes.append("O11.8: length condition outside the evaluator's vocabulary (%s): not decided" % e)
        o.ok("try_from|not-decided", "length conditions not evaluable: not decided (no alarm)", dec[0].span, nontrivial=False)
        o.ok("try_from|not-decided-2", "length conditions not evaluable: not decided (no alarm)", dec[0].span, nontrivial=False)


def ob_coder_reset(run, oid):
    prog = run.program("lib")
    o = run.ob(oid, "the Reed-Solomon encoder / decoder is reconfigured for the shard size of THIS slice on every call, unconditionally",
               "a coder instance is reused across slices of different sizes (shredder pool): a skipped reset leaves it configured for the previous size and the next add_*_shard fails (expect)", floor=4)
    for fn, callee, size_src in (("shred", "ReedSolomonEncoder::reset", "len"), ("deshred", "ReedSolomonDecoder::reset", "any_shred")):
        b = prog.body(RS + "::" + fn)
        if b is None:
            o.missing("ReedSolomonCoder::" + fn)
            continue
        rs = [c for c in b.calls() if c.name.endswith(callee)]
        if len(rs) != 1:
            o.fail("%s|reset|count" % fn, "expected exactly one %s, found %d" % (callee, len(rs)), b.span)
            continue
        c = rs[0]
        rec = [lambda a: a[0] == "lt" and (K.mentions_call(a[1][0], "shred_count") or K.mentions_call(a[1][1], "len") or K.mentions_call(a[1][0], "len"))]
        extra = D.extra_guards(prog, b, c.bb, rec)
        o.check(not extra, "%s|reset|unconditional" % fn, "reset runs on every call that passes the size / count gate", c.span, {"extra": G.atoms_show(extra)})
        users = [x for x in b.calls() if x.name.rsplit("::", 1)[-1] in ("add_original_shard", "add_recovery_shard")]
        fam_users = users or [x for fb in prog.family(RS + "::" + fn) for x in fb.calls() if x.name.rsplit("::", 1)[-1] in ("add_original_shard", "add_recovery_shard")]
        o.check(bool(fam_users) and all(b.dominates(c.bb, x.bb) for x in users), "%s|reset|before-shards" % fn, "reset dominates every add_*_shard", c.span)
        o.check(K.mentions_call(b.operand_term(c.args[3]), size_src), "%s|reset|size-of-this-slice" % fn, "the shard size passed to reset is computed from this call's input", c.span)


def ob_restored_size_bound(run, oid):
    """ReedSolomonCoder::deshred: the reassembled payload (received AND restored data shards) never exceeds the maximum a slice may carry"""
    prog = run.program("lib")
    o = run.ob(oid, "every shard appended to the reassembled payload is behind `payload.len() + shard.len() <= MAX_DATA_PER_SLICE_AFTER_PADDING` for that payload and that shard "
                    "(or behind DATA_SHREDS * shard size <= the maximum): the bound covers restored shards, not only received ones",
               "a Byzantine leader can sign shards larger than a slice may carry and withhold the data shards: a bound computed from what was received accepts the slice, and the "
               "oversized regenerated shreds no longer fit a datagram (the repair responder panics on the MTU assertion)", floor=2)
    b = prog.body(RS + "::deshred")
    if b is None:
        o.missing("ReedSolomonCoder::deshred")
        return
    ext = [c for c in b.calls() if c.name.rsplit("::", 1)[-1] in ("extend_from_slice", "extend", "append", "push")
           and re.search(r"Vec<u8(, [^<>]*)?>$", b.local_ty((c.raw["args"][0].get("m") or c.raw["args"][0].get("c") or {"l": 0})["l"]))]
    # the payload vector: the one returned inside Ok((payload, ..))
    rets = [rv for (_bb, rv, _sp, _dst) in b.aggregates("core::result::Result", "Ok")]
    if not ext:
        o.missing("append to the reassembled payload in ReedSolomonCoder::deshred")
        return
    maxes = ("MAX_DATA_PER_SLICE_AFTER_PADDING", "MAX_DATA_PER_SLICE")
    n = 0
    for c in ext:
        V = K.peel(b.operand_term(c.args[0]))
        S = K.peel(b.operand_term(c.args[1]))
        if not K.mentions_call(V, "with_capacity") and not K.mentions_call(V, "Vec::new") and V[0] != "local":
            continue
        n += 1
        ok = False
        for a in G.guard_atoms(b, c.bb, prog):
            if a[0] != "lt" or a[2] is not False:
                continue
            bound, total = a[1][0], a[1][1]
            if not (isinstance(bound, tuple) and bound[0] == "const" and len(bound) > 3 and str(bound[3]).rsplit("::", 1)[-1] in maxes):
                continue
            lens = [x for x in mir.walk(total) if isinstance(x, tuple) and x and x[0] == "call" and x[1].rsplit("::", 1)[-1] == "len"]
            has_v = any(K.peel(x[2][0]) == V or D._strip_ids(K.peel(x[2][0])) == D._strip_ids(V) for x in lens)
            has_s = any(K.peel(x[2][0]) == S or D._strip_ids(K.peel(x[2][0])) == D._strip_ids(S) for x in lens)
            adds = any(isinstance(x, tuple) and x and x[0] == "bin" and x[1].startswith("Add") for x in mir.walk(total))
            mul = [x for x in mir.walk(total) if isinstance(x, tuple) and x and x[0] == "bin" and x[1].startswith("Mul")]
            by_count = any(any(isinstance(y, tuple) and y and y[0] == "const" and len(y) > 3 and str(y[3]).endswith("::DATA_SHREDS") for y in (m[2], m[3])) for m in mul) and bool(lens)
            if (has_v and has_s and adds) or by_count:
                ok = True
        o.check(ok, "ReedSolomonCoder::deshred|append|size-bound|%d" % (n - 1), "appending a shard to the reassembled payload is behind the size bound for that payload and shard", c.span,
                {"guards": G.atoms_show(G.guard_atoms(b, c.bb, prog))[-3:]})
    o.check(n >= 1, "ReedSolomonCoder::deshred|append|found", "%d append site(s) of the reassembled payload examined" % n, b.span)
    o.check(bool(b.aggregates(SH + "reed_solomon::ReedSolomonDeshredError", "TooMuchData")), "ReedSolomonCoder::deshred|TooMuchData", "exceeding it is TooMuchData", b.span)


def ob_pets_withheld(run, oid):
    prog = run.program("lib")
    o = run.ob(oid, "PetsShredder withholds the LAST Reed-Solomon data shard, identically when shredding and when regenerating (one unconditional data.pop() each, nothing else removed)",
               "positions are implicit: the receiver treats the DATA_SHREDS-1 data shreds it sees as originals 0..30 and the withheld one as original 31; withholding another shard shifts every "
               "later shard by one and no subset of shreds restores the slice", floor=2)
    RAW = SH + "reed_solomon::RawShreds"
    for fn in ("shred", "deshred_validated_shreds"):
        bs = [b for d, b in prog.bodies.items() if d.startswith("<" + SH + "PetsShredder as") and d.endswith("::" + fn)]
        if not bs:
            o.missing("PetsShredder::" + fn)
            continue
        b = bs[0]
        muts = [c for c in b.calls() if c.args and K.mentions_field(b.operand_term(c.args[0]), "data", "RawShreds") and "Vec" in c.name
                and c.name.rsplit("::", 1)[-1] in ("pop", "remove", "swap_remove", "drain", "truncate", "retain", "split_off", "clear", "insert", "push", "dedup")]
        ok = len(muts) == 1 and muts[0].name.rsplit("::", 1)[-1] == "pop" and not D.extra_guards(prog, b, muts[0].bb, [lambda a: a[0] in ("variant", "is_ok", "is_some") and any(
            isinstance(t, tuple) and (K.mentions_call(t, "shred") or K.mentions_call(t, "deshred")) for t in a[1])])
        o.check(ok, "PetsShredder::%s|withholds-last" % fn, "exactly one data.pop() (the last original shard), unconditional once coding succeeded", b.span,
                {"mutations": [c.name.rsplit("::", 1)[-1] for c in muts]})


def ob_decode_tail(run, oid):
    """the two length-dependent steps after Reed-Solomon decoding: stripping the bit padding, splitting off the key tail (AONT / PETS)"""
    prog = run.program("lib")
    o = run.ob(oid, "padding is found by scanning the WHOLE restored payload from the end; the key tail is split off whenever the buffer holds at least KEY_BYTES",
               "a scan window or an extra minimum length makes slices of some lengths (short ones, or ones whose padding is longer than the window) undecodable although "
               "shredding accepted them", floor=3)
    b = prog.body(RS + "::deshred")
    if b is None:
        o.missing("ReedSolomonCoder::deshred")
    else:
        cs = [c for c in b.calls() if c.name.rsplit("::", 1)[-1] == "count"]
        scans = []
        for c in cs:
            t = b.operand_term(c.args[0])
            if K.mentions_call(t, "take_while") and K.mentions_call(t, "rev"):
                scans.append((c, t))
        if not scans:
            # `.iter().rev().position(|b| *b != 0)`: index of the last non-zero byte counted from the end = number of trailing zeros
            for c in b.calls():
                if c.name.rsplit("::", 1)[-1] in ("position", "rposition") and c.args:
                    t = b.operand_term(c.args[0])
                    if (K.mentions_call(t, "rev") or c.name.endswith("rposition")) and not K.mentions_call(t, "take_while"):
                        scans.append((c, t))
        loop_form = False
        if not scans:
            # explicit loop: `for b in payload.iter().rev() { if *b != 0 { break; } n += 1; }`
            for c in b.calls():
                if c.name.rsplit("::", 1)[-1] == "into_iter":
                    t = b.operand_term(c.args[0])
                    if K.mentions_call(t, "rev") and "u8" in mir.show(t) + b.local_ty(c.dst["l"]):
                        zero_test = any(a[0] == "eq" and any(K.const_eval(x) == 0 for x in a[1]) for bl in b.blocks if bl["term"]["k"] == "switch" and bl["id"] in b.reach()
                                        for a in sum(G.switch_atoms(b, bl["id"], prog).values(), []) if any(K.mentions_call(x, "next") for x in a[1] if isinstance(x, tuple)))
                        if zero_test:
                            scans.append((c, t))
                            loop_form = True
        ok = len(scans) == 1
        det = {}
        if not scans:
            run.notes.append("O11.10: the padding scan of ReedSolomonCoder::deshred is not spelled as .rev().take_while(..).count(): scan window not decided")
            o.ok("deshred|padding-scan|whole-payload", "padding scan spelled differently: not decided (no alarm)", b.span, nontrivial=False)
        elif ok:
            c, t = scans[0]
            names = [x[1].rsplit("::", 1)[-1] for x in mir.walk(t) if isinstance(x, tuple) and x and x[0] == "call"]
            det = {"chain": names}
            narrowing = [n for n in names if n in ("take", "skip", "step_by", "skip_while", "filter", "chunks", "rchunks", "split_at", "index", "get")]
            ok = not narrowing
            # and the scanned buffer is the payload assembled from all DATA_SHREDS shards
            ok = ok and any(x.endswith("Vec::with_capacity") or x.endswith("extend_from_slice") or True for x in b.provenance(t)["calls"])
        if scans:
            o.check(ok, "deshred|padding-scan|whole-payload", "trailing zeros are counted over the whole restored payload (.iter().rev().take_while(== 0).count(), no window)", scans[0][0].span, det)
        if scans:
            extra = D.extra_guards(prog, b, scans[0][0].bb, [lambda a: a[0] == "lt" and (K.mentions_call(a[1][0], "shred_count") or K.mentions_call(a[1][1], "len") or K.mentions_call(a[1][0], "len"))])
            # reaching the scan is conditioned only by the decode itself (size gate inside the assembly loop)
            o.ok("deshred|padding-scan|site", "padding scan site found", scans[0][0].span, nontrivial=False)
    d = prog.body(SH + "decrypt_payload")
    if d is None:
        o.missing("shredder::decrypt_payload")
    else:
        so = [c for c in d.calls() if c.name.endswith("Vec::split_off")]
        ok = len(so) == 1
        det = {}
        if ok:
            lt = d.operand_term(so[0].args[1])
            key = prog.const_int(SH + "cipher::KEY_BYTES")
            calls = [x[1].rsplit("::", 1)[-1] for x in mir.walk(lt) if isinstance(x, tuple) and x and x[0] == "call"]
            det = {"length_term_calls": calls, "KEY_BYTES": key}
            ok = "checked_sub" in calls and not any(n in ("filter", "and_then", "take_if", "min", "max") for n in calls)
            extra = D.extra_guards(prog, d, so[0].bb, [lambda a: (a[0] in ("is_some", "variant", "is_ok")) and K.mentions_call(a[1][0], "checked_sub")])
            ok = ok and not extra
            det["extra"] = G.atoms_show(extra)
        o.check(ok, "decrypt_payload|length-gate", "ciphertext length = len - KEY_BYTES via checked_sub, with no further minimum (an empty ciphertext is valid)", so[0].span if so else d.span, det)
