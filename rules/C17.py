"""C17 — committee sampling always yields a well-formed, stake-respecting committee (structural part)."""
from engine import guards as G
from engine import mir, panics
from . import common as K
from . import C16
from .common import A, fshort

EXPLANATION = (
    "Decides O17.1-O17.4: every sampling strategy and constructor is a function of the validator set and the supplied "
    "RNG only (no ambient nondeterminism reachable, same effect rule as C16; no thread-local state); the decaying sampler "
    "resets its per-committee counters on every path of sample_quorum; every panic site in constructors and sample* "
    "bodies is listed with a reviewed reason (rejection budgets, construction invariants, configuration), a site whose "
    "condition is a genuine defect is reported as a finding, float-rounding dependent ones are named; Rotor indexes the "
    "committee by a ShredIndex and both constructors request TOTAL_SHREDS seats. The numerical guarantees (exact committee "
    "size, floor(f*k) seats, seat caps, zero-weight never drawn) over all distributions and seeds are NOT decided."
)

D = A + "disseminator::"
SS = D + "rotor::sampling_strategy::"
ROTOR = D + "rotor::Rotor"

P = "disseminator::rotor::sampling_strategy::"
REVIEWED = {
    ("<" + P + "DecayingAcceptanceSampler as " + P + "SamplingStrategy>::sample_info", "index", "Vec<ValidatorInfo>[usize]"): (1, "index is self.sample(rng) < validators.len() (WeightedIndex over the same vector)"),
    ("<" + P + "StakeWeightedSampler as " + P + "SamplingStrategy>::sample_info", "index", "Vec<ValidatorInfo>[usize]"): (1, "index is self.sample(rng) < validators.len() (WeightedIndex over the same vector)"),
    ("<" + P + "TurbineSampler as " + P + "SamplingStrategy>::sample_info", "index", "Vec<ValidatorInfo>[usize]"): (1, "index is self.sample(rng) < validators.len()"),
    ("<" + P + "UniformSampler as " + P + "SamplingStrategy>::sample_info", "index", "Vec<ValidatorInfo>[usize]"): (1, "index is random_range(0..validators.len())"),
    ("<" + P + "FaitAccompli1Sampler<F> as " + P + "QuorumSamplingStrategy>::sample_quorum", "panic", "panicking::assert_failed"): (1, "construction invariant: the fallback sampler is built with quorum size k - required_samples.len()"),
    ("<" + P + "PartitionSampler as " + P + "QuorumSamplingStrategy>::sample_quorum", "index", "Vec<ValidatorIndex>[usize]"): (1, "bin.sample(rng) < bin length = bin_validators[bin].len() (filled pairwise in new)"),
    ("<" + P + "TurbineSampler as " + P + "SamplingStrategy>::sample", "panic", "panicking::panic_fmt"): (1, "rejection budget MAX_TRIES_PER_SAMPLE (probabilistic; documented on the constant)"),
    ("disseminator::rotor::Rotor::sample_relay", "assert", "BoundsCheck"): (1, "committee has TOTAL_SHREDS entries (O17.4) and ShredIndex < TOTAL_SHREDS (validated on construction/decoding)"),
    ("disseminator::rotor::Rotor::sample_relays", "unwrap", "Result::expect"): (1, "seed is the concatenation of four 8-byte arrays = 32 bytes (constant lengths)"),
    (P + "DecayingAcceptanceSampler::sample_one", "index", "Vec<usize>[usize]"): (2, "sample < validators.len() = sample_count.len() (allocated in new/reset)"),
    (P + "DecayingAcceptanceSampler::sample_one", "panic", "panicking::panic_fmt"): (1, "rejection budget MAX_TRIES_PER_SAMPLE"),
    (P + "FaitAccompli1Sampler::new_with_partition_fallback", "assert", "DivisionByZero"): (2, "divisors: the configured committee size k (> 0 by configuration) and the total stake (> 0 for a validator set with positive stakes, the stated precondition; exact seat count since D23)"),
    (P + "FaitAccompli1Sampler::new_with_partition_fallback", "arith", "sub_assign Stake"): (1, "FLOAT-DEPENDENT (not decided): stake -= floor(f*k)*total/k relies on f64 rounding of stake/total*k not exceeding the exact value"),
    (P + "FaitAccompli1Sampler::new_with_stake_weighted_fallback", "assert", "DivisionByZero"): (2, "divisors: the configured committee size k (> 0 by configuration) and the total stake (> 0 for a validator set with positive stakes, the stated precondition; exact seat count since D23)"),
    (P + "FaitAccompli1Sampler::new_with_stake_weighted_fallback", "arith", "sub_assign Stake"): (1, "FLOAT-DEPENDENT (not decided): as above"),
    (P + "FaitAccompli2Sampler::minimize_f", "panic", "panicking::panic"): (1, "assert!(sum of round(f_i*k)/k <= 1.0) fails for many validator sets (e.g. three equal stakes, k = 2; k = 64 with 5, 6, 11, 13.. equal stakes): the constructor panics instead of producing a sampler", "finding"),
    (P + "FaitAccompli2Sampler::new", "index", "Vec<ValidatorInfo>[usize]"): (1, "i enumerates f, which has one entry per validator"),
    (P + "FaitAccompli2Sampler::new::{closure#2}", "index", "Vec<f64>[usize]"): (1, "i enumerates validators; f has one entry per validator"),
    (P + "FaitAccompli2Sampler::new::{closure#3}", "index", "Vec<f64>[usize]"): (1, "as above"),
    (P + "FaitAccompli2Sampler::new::{closure#4}", "index", "Vec<f64>[usize]"): (2, "as above"),
    ("types::stake::Stake::div_ceil", "method", "num::div_ceil"): (1, "divisor = number of bins: PartitionSampler::new returns early for num_bins == 0 (its only caller)"),
    (P + "PartitionSampler::new", "index", "Vec<Vec<ValidatorIndex>>[usize]"): (1, "current_bin < num_bins: incremented only under current_bin < num_bins - 1"),
    (P + "PartitionSampler::new", "index", "Vec<Vec<Stake>>[usize]"): (1, "current_bin < num_bins (as above)"),
    (P + "PartitionSampler::new", "arith", "sub Stake"): (1, "current_bin_stake <= stake_per_bin: stake_to_take = min(stake, stake_per_bin - current_bin_stake)"),
    (P + "PartitionSampler::new", "arith", "add_assign Stake"): (1, "bounded by stake_per_bin <= total stake"),
    (P + "PartitionSampler::new", "arith", "sub_assign Stake"): (1, "stake_to_take <= stake (min)"),
    (P + "PartitionSampler::new", "unwrap", "Result::expect"): (1, "stake_per_bin = total.div_ceil(num_bins) rounds up, so the last bins can stay empty (10 units in 7 bins: 2 per bin, bins 6 and 7 get nothing) and "
                                                                "WeightedIndex::new on an empty bin fails: the constructor (and with it FaitAccompli1Sampler::new_with_partition_fallback / Rotor::new_fa1) panics for many "
                                                                "validator sets with positive stakes", "finding"),
    (P + "StakeWeightedSampler::new", "unwrap", "Result::expect"): (1, "documented precondition: non-empty validator set with positive stakes"),
    (P + "TurbineSampler::new_with_fanout", "arith", "sub Stake"): (2, "stake_left = total - leader.stake (- root.stake): subtrahends are distinct members of the set summed into total"),
    (P + "TurbineSampler::new_with_fanout", "index", "Vec<f64>[usize]"): (3, "indexed by validator id < validators.len() (EpochInfo::new asserts id == position)"),
    (P + "TurbineSampler::new_with_fanout", "index", "Vec<ValidatorInfo>[usize]"): (1, "i enumerates expected_work, one entry per validator"),
    (P + "FaitAccompli2Sampler::new", "assert", "DivisionByZero"): (1, "divisor: the total stake (> 0 for a validator set with positive stakes; exact seat count since D23)"),
    (P + "TurbineSampler::new_with_fanout", "assert", "DivisionByZero"): (1, "divisor is the configured fanout (> 0 by configuration)"),
    (P + "TurbineSampler::new_with_fanout", "assert", "RemainderByZero"): (1, "divisor is the configured fanout (> 0 by configuration)"),
    ("disseminator::turbine::weighted_shuffle::WeightedShuffle::new", "panic", "panicking::panic"): (2, "debug assertions on the tree geometry computed by get_num_nodes_and_tree_size (independent of stakes)"),
    ("disseminator::turbine::weighted_shuffle::WeightedShuffle::new", "arith", "add_assign Stake"): (1, "guarded by sum.checked_add(weight) on the total: partial sums cannot overflow"),
}


def ob_rejection_budget(run, oid):
    """the reviewed reason of the two 'rejected all samples' panics is the size of the rejection budget: decide it"""
    prog = run.program("lib")
    o = run.ob(oid, "rejection sampling gives up only after MAX_TRIES_PER_SAMPLE >= 100 000 draws, and both rejection loops run over exactly that budget",
               "'always returns exactly k': a committee as large as a near-uniform validator set accepts the last seats with probability ~1/n per draw; with the "
               "reviewed budget the panic is out of reach (~1e-8 per committee of 2000), with a tenth of it it is not (~20%)", floor=3)
    v = prog.const_int(SS + "MAX_TRIES_PER_SAMPLE")
    if v is None:
        o.missing("const MAX_TRIES_PER_SAMPLE")
        return o
    o.check(v >= 100_000, "MAX_TRIES_PER_SAMPLE|at-least-reviewed", "MAX_TRIES_PER_SAMPLE >= 100 000 (the reviewed budget; more only lowers the failure probability)", "", {"value": v})
    for fn in (SS + "DecayingAcceptanceSampler::sample_one", "<" + SS + "TurbineSampler as " + SS + "SamplingStrategy>::sample"):
        b = prog.body(fn)
        if b is None:
            o.missing(fn)
            continue
        rng = [(bb, rv, sp) for (bb, rv, sp, dst) in b.aggregates() if rv.get("ak") == "adt" and rv["adt"].endswith("ops::range::Range")]
        ok = False
        for (bb, rv, sp) in rng:
            ts = [b.operand_term(x) for x in rv["ops"]]
            lo, hi = K.const_eval(ts[0]), ts[1]
            if lo == 0 and (K.mentions(hi, lambda y: isinstance(y, tuple) and y and ((y[0] == "cref" and y[1].endswith("MAX_TRIES_PER_SAMPLE")) or (y[0] == "const" and len(y) > 3 and str(y[3]).endswith("MAX_TRIES_PER_SAMPLE")))) or K.const_eval(hi) == v):
                ok = True
        is_budget = lambda y: isinstance(y, tuple) and y and ((y[0] == "cref" and y[1].endswith("MAX_TRIES_PER_SAMPLE")) or (y[0] == "const" and isinstance(y[2], int) and y[2] == v))
        if not ok:
            # `while tries < MAX_TRIES_PER_SAMPLE { .. tries += 1 }` / `loop { if tries == MAX .. }`: a counter compared with the budget decides the loop
            for bl in b.blocks:
                t = bl["term"]
                if t["k"] != "switch":
                    continue
                d = b.operand_term(t["d"])
                for y in mir.walk(d):
                    if isinstance(y, tuple) and y and y[0] == "bin" and y[1] in ("Lt", "Le", "Gt", "Ge", "Eq", "Ne") and (is_budget(K.peel(y[2])) != is_budget(K.peel(y[3]))):
                        cnt = K.peel(y[3] if is_budget(K.peel(y[2])) else y[2])
                        if isinstance(cnt, tuple) and cnt and cnt[0] == "local":
                            ok = True
        o.check(ok, "%s|loop-over-budget" % K.fshort(fn), "the rejection loop runs over the budget (`for _ in 0..MAX_TRIES_PER_SAMPLE` or a counter compared with it)", b.span, {"ranges": len(rng)})
    return o


def ob_zero_stays_zero(run, oid):
    """a validator without weight is never drawn: no sampler constructor lifts a weight off zero"""
    prog = run.program("lib")
    o = run.ob(oid, "sampling weights are never clamped from below: no max / clamp / NonZero / `+ c` between a stake (or derived weight) and the weighted index",
               "'a zero-weight validator is never drawn': WeightedIndex gives an element of weight 0 probability 0; a floor of 1 (to dodge AllWeightsZero, say) gives it a "
               "non-zero probability", floor=2)
    n = 0
    CLAMP = ("max", "clamp", "saturating_add", "checked_add", "wrapping_add", "nonzero", "new_unchecked")
    for d, b in prog.bodies.items():
        if b.generated or "::tests::" in d or not d.startswith(SS):
            continue
        # (a) stakes rewritten in place (TurbineSampler::new_with_fanout turns expected work into stakes)
        for (bb, ow, name, rv, sp, dst) in b.field_writes():
            if name == "stake" and ow.endswith("ValidatorInfo"):
                n += 1
                t = b.rvalue_term(rv)
                bad = [x[1].rsplit("::", 1)[-1] for x in mir.walk(t) if isinstance(x, tuple) and x and x[0] == "call" and x[1].rsplit("::", 1)[-1].lower() in CLAMP]
                addc = [x for x in mir.walk(t) if isinstance(x, tuple) and x and x[0] == "bin" and x[1].startswith("Add") and (K.const_eval(x[2]) or K.const_eval(x[3]))]
                o.check(not bad and not addc, "%s|stake-write|not-lifted" % K.fshort(d), "the weight written is the computed value as is (zero stays zero)", sp, {"value": mir.show(t)[:100]})
        # (b) what is handed to the weighted index
        for c in b.calls():
            if c.name.endswith("WeightedIndex<X>::new") or "WeightedIndex" in c.name and c.name.endswith("::new"):
                n += 1
                pv = b.provenance(b.operand_term(c.args[0]), depth=8)
                names = set(x.rsplit("::", 1)[-1].lower() for x in pv["calls"])
                cl_bad = []
                for fb in prog.family(d.split("::{closure")[0]):
                    if fb.is_closure:
                        cl_bad += [x.name.rsplit("::", 1)[-1] for x in fb.calls() if x.name.rsplit("::", 1)[-1].lower() in ("max", "clamp")]
                o.check(not (names & set(CLAMP)) and not cl_bad, "%s|weights|not-lifted" % K.fshort(d), "the weights handed to WeightedIndex::new are the stakes as they are", c.span, {"calls": sorted(names)[:12]})
    if n == 0:
        o.missing("stake writes / WeightedIndex::new in sampling_strategy")
    return o


def ob_derived_weights_tested(run, oid):
    """'can be constructed for every validator set with positive stakes': StakeWeightedSampler::new / PartitionSampler::new need a non-empty list
    with a positive weight (reviewed `expect`, O17.3). A constructor that hands on the list it was GIVEN inherits that from the property's premise;
    one that REWRITES the stakes first (residual stakes, derived work) has to test the rewritten weights for all-zero and fall back - D27."""
    prog = run.program("lib")
    o = run.ob(oid, "a constructor that rewrites the stakes before building a weighted sampler tests the rewritten weights for zero (and falls back to the given list)",
               "derived weights can all be zero although every stake is positive (exact multiples of total/k; expected excess work of 1 or 2 validators): "
               "WeightedIndex::new fails and the constructor panics", floor=6)
    targets = (SS + "StakeWeightedSampler::new", SS + "PartitionSampler::new")
    n = 0
    for d, b in sorted(prog.bodies.items()):
        if b.generated or "::tests::" in d or "::seeded_demo::" in d or "_demo::" in d:
            continue
        cs = [c for c in b.calls() if c.name in targets]
        if not cs:
            continue
        fam = prog.family(d.split("::{closure")[0])
        rewrites = any(name == "stake" and ow.endswith("ValidatorInfo") for fb in fam for (_bb, ow, name, _rv, _sp, _dst) in fb.field_writes()) or any(
            c2.name.rsplit("::", 1)[-1] in ("sub_assign", "add_assign", "mul_assign", "div_assign") and K.mentions_field(fb.operand_term(c2.args[0]), "stake") for fb in fam for c2 in fb.calls())
        for c, key in K.ordinal_keys(cs, lambda c: "%s|%s" % (K.fshort(d), c.name.rsplit("::", 2)[-2])):
            n += 1
            if not rewrites:
                o.ok(key + "|given-list", "the validator list is handed on as given (positive stakes are the property's premise)", c.span, nontrivial=False)
                continue
            atoms = G.guard_atoms(b, c.bb, prog)

            def zero_test(a):
                if a[0] == "bool" and any(isinstance(x, tuple) and (K.mentions_call(x, "::all") or K.mentions_call(x, "::any")) for x in a[1]):
                    return True
                if a[0] == "eq" and any(isinstance(x, tuple) and x and x[0] == "const" and str(x[2]) in ("0", "0.0", "0f64") for x in a[1]):
                    return True
                # `let mut all_zero = true; for v in list { if v.stake != 0 { all_zero = false; } }`: a flag with several definitions, one of them
                # behind a comparison of a stake
                if a[0] == "bool":
                    for x in a[1]:
                        for y in (mir.walk(x) if isinstance(x, tuple) else []):
                            if isinstance(y, tuple) and y and y[0] == "local" and len(b.defs().get(y[1], [])) >= 2:
                                for d_ in b.defs()[y[1]]:
                                    if any(a2[0] in ("eq", "lt", "le") and any(isinstance(z, tuple) and K.mentions_field(z, "stake") for z in a2[1]) for a2 in G.guard_atoms(b, d_[1], prog)):
                                        return True
                return False
            ok_ = any(zero_test(a) for a in atoms)
            if not ok_:
                # `let list = if all_zero { given } else { rewritten }; Sampler::new(list)`: the test selects the argument instead of the call
                arg = c.args[0]
                l_ = arg.get("l") if isinstance(arg, dict) else None
                if l_ is None and isinstance(arg, dict) and "p" in arg:
                    l_ = arg["p"].get("l") if isinstance(arg["p"], dict) else None
                t_ = b.operand_term(arg)
                locs = [x[1] for x in mir.walk(t_) if isinstance(x, tuple) and x and x[0] == "local"] + ([l_] if l_ is not None else [])
                for lc in locs:
                    ds = b.defs().get(lc, [])
                    if len(ds) >= 2 and all(any(zero_test(a) for a in G.guard_atoms(b, d_[1], prog)) for d_ in ds):
                        ok_ = True
            o.check(ok_, key + "|derived-weights|zero-test", "the call is on one side of an all-zero test of the rewritten weights", c.span,
                    {"guards": G.atoms_show(atoms)[:4]})
    if n == 0:
        o.missing("calls of StakeWeightedSampler::new / PartitionSampler::new")
    return o


def check(run):
    ob_derived_weights_tested(run, "O17.14")
    ob_rejection_budget(run, "O17.12")
    ob_zero_stays_zero(run, "O17.13")
    from . import detectors as _DN
    _DN.ob_new_fields(run, "O17.10", ['disseminator::rotor::sampling_strategy', 'disseminator::turbine::weighted_shuffle'], 'a sampler may depend on the validator set and the supplied RNG only: a new field read while sampling is further state')
    from . import detectors as _DC
    _DC.ob_narrowing_casts(run, "O17.9", ['disseminator::'], 'validator indices and seat counts: a truncated index selects another validator')
    from . import detectors as _DL
    _DL.ob_loop_exits(run, "O17.8", ['disseminator::rotor::sampling_strategy', 'disseminator::turbine::weighted_shuffle'], 'committee assembly loops fill every seat: a loop that stops early yields a short committee')
    prog = run.program("lib")

    # ------------------------------------------------------------------ O17.1
    C16.ob_no_ambient(run, "O17.1", "lib")
    o = run.ob("O17.1b", "no thread-local / global mutable state in the sampling module",
               "state shared between committees or instances makes the committee depend on call history", floor=1)
    tls = []
    for b in K.bodies_in(prog, SS):
        for (bb, i, dst, rv, sp) in b.assignments():
            if rv["k"] == "tls":
                tls.append((fshort(b.defpath), sp))
    o.check(not tls, "sampling_strategy|no-thread-locals", "no thread-local is referenced in sampling_strategy", "", {"sites": tls})
    # ... nor state shared between the clones of a sampler: interior-mutable fields (the decay counters) are owned, never behind Arc / Rc /
    # a static reference - a clone handed to another task must not see (or reset) this instance's counters
    import re as _re
    shared = []
    nadts = 0
    for d, r in sorted(prog.adts.items()):
        if not d.startswith(SS) and not d.startswith(D + "turbine::weighted_shuffle::"):
            continue
        nadts += 1
        for v in r["variants"]:
            for f in v["fields"]:
                ty = f["ty"]
                if _re.search(r"(Arc|Rc)<.*(Mutex|RwLock|Atomic|Cell|OnceLock)", ty) or _re.search(r"&'static\s+(std::sync|core::cell|.*Mutex|.*Atomic)", ty):
                    shared.append("%s.%s: %s" % (fshort(d), f["name"], ty.replace("alpenglow::", "")[:70]))
    o.check(not shared and nadts >= 5, "sampling_strategy|no-shared-interior-state", "no sampler field holds interior-mutable state behind Arc / Rc / 'static (%d types examined)" % nadts, "", {"fields": shared[:4]})

    # ------------------------------------------------------------------ O17.2
    o = run.ob("O17.2", "DecayingAcceptanceSampler::sample_quorum resets the per-committee counters on every path",
               "counters leaking into the next committee make sampling depend on call order (and cap validators across committees)", floor=2)
    sq = [x for d, x in prog.bodies.items() if d == "<" + SS + "DecayingAcceptanceSampler as " + SS + "QuorumSamplingStrategy>::sample_quorum"]
    if not sq:
        o.missing("DecayingAcceptanceSampler::sample_quorum")
    for b in sq:
        rs = b.calls_to(SS + "DecayingAcceptanceSampler::reset")
        draw = [c for c in b.calls() if c.name.endswith("Iterator::collect") or c.name.endswith("::collect")]
        o.check(bool(rs) and b.always_followed_by(0, [c.bb for c in rs]), "sample_quorum|resets", "every path reaches reset()", b.span)
        # draws: sample_one called in a loop of this body, or inside the closure of a map(..).collect() chain
        d_body = b.calls_to(SS + "DecayingAcceptanceSampler::sample_one")
        d_cl = [fb for fb in prog.family(b.defpath) if fb.is_closure and fb.calls_to(SS + "DecayingAcceptanceSampler::sample_one")]
        okd = bool(rs) and (bool(d_body) or (bool(d_cl) and bool(draw)))
        if okd and d_body:
            okd = all(not b.can_reach(r.bb, d.bb) or r.bb == d.bb for r in rs for d in d_body) and all(b.can_reach(d.bb, rs[0].bb) for d in d_body)
        if okd and d_cl and not d_body:
            okd = all(b.dominates(d.bb, rs[0].bb) for d in draw)
        o.check(okd, "sample_quorum|after-draws", "reset() comes after the draws (no draw is reachable once the counters were reset)", b.span)
    rb = prog.body(SS + "DecayingAcceptanceSampler::reset")
    if rb is not None:
        w = K.mutborrows_of_field(rb, "DecayingAcceptanceSampler", "sample_count") or [c for c in rb.calls() if c.name.endswith("Mutex::lock") or c.name.endswith("::lock")]
        o.check(bool(w), "reset|clears-counters", "reset() replaces sample_count", rb.span)

    # ------------------------------------------------------------------ O17.3
    o = run.ob("O17.3", "every panic site in sampler constructors and sample* bodies is reviewed",
               "'can be constructed for every validator set with positive stakes and then always returns a committee' fails at exactly these sites", floor=30)
    roots = C16.sampling_roots(prog) | C16.constructor_roots(prog) | {ROTOR + "::sample_relay", ROTOR + "::sample_relays"}
    from . import panic_review as _PR
    nb, ns = panics.review(o, prog, sorted(roots), REVIEWED, fshort, auto=_PR.auto)
    run.notes.append("O17.3: %d bodies, %d panic sites (overflow asserts out of scope); float-dependent sites are named in their reason" % (nb, ns))

    # ------------------------------------------------------------------ O17.4
    o = run.ob("O17.4", "Rotor requests TOTAL_SHREDS seats and indexes the committee by the shred index",
               "fewer seats than shreds panics in sample_relay; indexing by anything else assigns relays inconsistently", floor=3)
    total = prog.const_int(A + "shredder::TOTAL_SHREDS")
    b = prog.body(ROTOR + "::new")
    if b is None:
        o.missing("Rotor::new")
    else:
        cs = [c for c in b.calls() if c.name.endswith("into_quorum_strategy")]
        ok = len(cs) == 1 and K.peel(b.operand_term(cs[0].args[1]))[0] == "const" and K.peel(b.operand_term(cs[0].args[1]))[2] == total
        o.check(ok, "Rotor::new|seats", "quorum size = TOTAL_SHREDS (%s)" % total, b.span)
    b = prog.body(ROTOR + "::new_fa1")
    if b is None:
        o.missing("Rotor::new_fa1")
    else:
        cs = [c for c in b.calls() if c.name.endswith("new_with_partition_fallback")]
        ok = False
        if len(cs) == 1:
            t = K.peel(b.operand_term(cs[0].args[1]))
            while t[0] == "cast":
                t = K.peel(t[2])
            ok = t[0] == "const" and t[2] == total
        o.check(ok, "Rotor::new_fa1|seats", "quorum size = TOTAL_SHREDS (%s)" % total, b.span)
    sr = prog.body(ROTOR + "::sample_relay")
    if sr is not None:
        idx = [it for (_bb, _len, it, _sp) in sr.bounds_checks()]
        o.check(bool(idx) and all(K.mentions_field(it, "shred_index", "ShredPayload") for it in idx), "Rotor::sample_relay|index", "committee indexed by the shred's ShredIndex", sr.span)
    # ShredIndex invariant: constructors and decoder reject >= TOTAL_SHREDS
    for fn in (A + "shredder::shred_index::ShredIndex::new",):
        nb_ = prog.body(fn)
        if nb_ is None:
            o.missing(fn)
            continue
        oks = [(bb, sp) for (bb, rv, sp, dst) in nb_.aggregates("core::option::Option", "Some") if dst["l"] == 0]
        ok = bool(oks)
        for (bb, sp) in oks:
            g = [a for a in G.guard_atoms(nb_, bb, prog) if a[0] == "lt" and any(x[0] == "const" and x[2] == total for x in map(K.peel, a[1]))]
            ok = ok and bool(g)
        o.check(ok, "ShredIndex::new|bounded", "ShredIndex::new returns Some only below TOTAL_SHREDS", nb_.span)

    ob_fa1_phase1(run, "O17.5")
    ob_fa2_fractions(run, "O17.11")
    ob_decay_cap(run, "O17.6")
    ob_committee_size(run, "O17.7")


def ob_fa2_fractions(run, oid):
    """FaitAccompli2Sampler::minimize_f: the rounded seat fractions f_i = round(stake_i / total * k) / k"""
    from engine import paths
    prog = run.program("lib")
    o = run.ob(oid, "FA2's rounded seat fraction of a validator is an integral number of seats DIVIDED by k (f_i = round(..) / k), so that a validator sitting exactly on m/k gets "
                    "exactly the float m/k",
               "m * (1/k) can be one ulp above m/k when k is not a power of two: the validator then counts as 'above its stake' (extra probabilistic seat on top of its m deterministic "
               "ones: committee larger than k) and the sum of fractions can exceed 1 (constructor panics)", floor=1)
    cls = [b for d, b in prog.bodies.items() if d.startswith(SS + "FaitAccompli2Sampler::") and b.is_closure]
    found = 0
    for cb in cls:
        for atoms, ret, _bl in paths.decision_table(cb, prog):
            t = K.peel(ret) if ret is not None else None
            if not (isinstance(t, tuple) and t and K.mentions_call(t, "round")):
                continue
            found += 1
            ok = t[0] == "bin" and t[1] == "Div" and K.mentions_call(t[2], "round") and K.mentions(t[3], lambda x: x[0] == "upvar" or x[0] == "param") and not K.mentions_call(t[3], "round")
            o.check(ok, "minimize_f|fraction|round-div-k", "f_i = round(raw seats) / k (a division by k as the last step)", cb.span, {"term": mir.show(t)[:160]})
    o.check(found >= 1, "minimize_f|fraction|found", "%d rounded-fraction expression(s) examined" % found, cls[0].span if cls else "")


def ob_fa1_phase1(run, oid):
    """FA1 phase 1 (the floor(f*k) guaranteed seats): formula shape, unconditional, sibling constructors agree, seats always emitted"""
    from . import detectors as DET
    prog = run.program("lib")
    o = run.ob(oid, "FA1 phase 1: every validator gets floor(stake/total*k) required seats and loses that much weight, unconditionally, identically in "
                    "both constructors; sample_quorum always emits the required seats",
               "a validator holding f of the stake is guaranteed floor(f*k) seats only through required_samples: a skipped validator, another formula or a "
               "constructor deviating from its sibling silently drops the guarantee", floor=16)
    ctors = sorted(d for d in prog.bodies if (d.startswith(SS + "FaitAccompli1Sampler::new_with_") or d == SS + "FaitAccompli2Sampler::new") and "{" not in d)
    if len(ctors) < 3:
        o.missing("FaitAccompli1Sampler::new_with_* (2) and FaitAccompli2Sampler::new")
    shapes = {}
    for d in ctors:
        b = prog.bodies[d]
        key = fshort(d)
        fn = d.rsplit("::", 1)[-1]
        ext = [c for c in b.calls() if c.name.endswith("Extend<T>>::extend") or c.name.rsplit("::", 1)[-1] == "extend"]
        sub = [c for c in b.calls() if c.name.rsplit("::", 1)[-1] == "sub_assign"]
        fa2 = "FaitAccompli2Sampler" in d
        if len(ext) != 1 or (len(sub) != 1 and not fa2):
            o.fail(key + "|phase1-sites", "expected exactly one required_samples.extend (and, for FA1, one stake -=) in the constructor", b.span, {"extend": len(ext), "sub_assign": len(sub)})
            continue
        e, s = ext[0], (sub[0] if sub else None)
        et = b.operand_term(e.args[1])
        rng = [x for x in mir.walk(et) if isinstance(x, tuple) and x and x[0] == "agg" and "Range" in str(x[1])]
        # the count: end of the 0..samples range
        cnt = None
        for x in mir.walk(et):
            if isinstance(x, tuple) and x and x[0] in ("agg", "struct", "adt") and "Range" in str(x[1]):
                cnt = x
                break
        floors = [x for x in mir.walk(et) if isinstance(x, tuple) and x and x[0] == "call" and x[1].rsplit("::", 1)[-1] == "floor"]
        ok = False
        det = {"extend_arg": mir.show(et)[:300]}
        fl = None
        if len(floors) >= 1:
            fl = floors[0]
            inner = K.peel(fl[2][0])
            if inner[0] == "bin" and inner[1].startswith("Mul"):
                sides = [K.peel(inner[2]), K.peel(inner[3])]
                ks = [x for x in sides if K.mentions_arg(b, x, 2) and not K.mentions_field(x, "stake")]
                fr = [x for x in sides if x not in ks]
                if len(ks) == 1 and len(fr) == 1:
                    f = fr[0]
                    while f[0] == "cast":
                        f = K.peel(f[2])
                    if f[0] == "bin" and f[1].startswith("Div"):
                        ok = (K.mentions_field(f[2], "stake") and not K.mentions_call(f[2], "sum")
                              and K.mentions_call(f[3], "sum") and K.mentions_arg(b, f[3], 1))
        if not floors:
            # exact form: seats = (stake as u128 * k as u128 / total as u128) as u64 - an integer division IS the floor
            for x in mir.walk(et):
                if isinstance(x, tuple) and x and x[0] == "bin" and x[1].startswith("Div"):
                    num, den = K.peel(x[2]), K.peel(x[3])
                    while isinstance(num, tuple) and num and num[0] == "cast":
                        num = K.peel(num[2])
                    if isinstance(num, tuple) and num and num[0] == "field" and str(num[2]) == "0" and isinstance(num[1], tuple) and num[1][0] == "bin":
                        num = num[1]        # (a * b).0 of a checked multiplication
                    if isinstance(num, tuple) and num and num[0] == "bin" and num[1].startswith("Mul"):
                        sides = [num[2], num[3]]
                        has_stake = any(K.mentions_field(y, "stake") and not K.mentions_call(y, "sum") for y in sides)
                        has_k = any(K.mentions_arg(b, y, 2) and not K.mentions_field(y, "stake") for y in sides)
                        if has_stake and has_k and K.mentions_call(den, "sum") and K.mentions_arg(b, den, 1):
                            fl = x
                            ok = True
        floaty = [x for x in mir.walk(et) if isinstance(x, tuple) and x and ((x[0] == "cast" and "Float" in str(x[1])) or (x[0] == "call" and x[1].rsplit("::", 1)[-1] in ("floor", "round", "ceil", "trunc")))]
        o.check(ok, key + "|seats=floor(stake/total*k)", "required seats per validator = floor(v.stake * k / total_stake)", e.span, det)
        o.check(not floaty, key + "|seats|exact-integer-arithmetic", "the seat count is computed in integer arithmetic (the f64 product stake / total * k can land just below an integer: 1/49 * 49 floors to 0)", e.span,
                {"float steps": len(floaty)})
        zero_start = any(isinstance(x, tuple) and x and x[0] == "const" and x[2] == 0 for x in mir.walk(et)) and K.mentions_call(et, "map")
        o.check(zero_start, key + "|one-id-per-seat", "required_samples.extend((0..seats).map(|_| v.id))", e.span)
        recv = b.operand_term(e.args[0])
        if s is None:
            extra = DET.extra_guards(prog, b, e.bb, [])
            o.check(not extra, key + "|extend|unconditional", "applied to every validator of the set (no condition skips one)", e.span, {"extra": G.atoms_show(extra)})
            shapes[d] = (mir.show(et).replace(fn, "FN").replace("FaitAccompli2Sampler::new", "FN"), None)
            continue
        # weight removed: Stake::new(seats * total / k) with the same seats term
        st = b.operand_term(s.args[1])
        ok2 = False
        if fl is not None:
            divs = [x for x in mir.walk(st) if isinstance(x, tuple) and x and x[0] == "bin" and x[1].startswith("Div") and K.is_arg(b, x[3], 2)]
            for dv in divs:
                muls = [x for x in mir.walk(dv[2]) if isinstance(x, tuple) and x and x[0] == "bin" and x[1].startswith("Mul") and x[2:] != fl[2][0][2:]]
                for m in muls:
                    sides = [m[2], m[3]]
                    if any(fl in list(mir.walk(x)) for x in sides) and any(K.mentions_call(x, "sum") and fl not in list(mir.walk(x)) for x in sides):
                        ok2 = True
        o.check(ok2, key + "|weight-removed=seats*total/k", "v.stake -= Stake::new(seats * total_stake / k) with the same seat count", s.span, {"arg": mir.show(st)[:300]})
        o.check(K.mentions_field(b.operand_term(s.args[0]), "stake"), key + "|weight-removed-from-stake", "the subtraction targets the validator's stake", s.span)
        for c, nm in ((e, "extend"), (s, "sub_assign")):
            extra = DET.extra_guards(prog, b, c.bb, [])
            o.check(not extra, key + "|%s|unconditional" % nm, "applied to every validator of the set (no condition skips one)", c.span, {"extra": G.atoms_show(extra)})
        shapes[d] = (mir.show(et).replace(fn, "FN"), mir.show(st).replace(fn, "FN"))
        # k' = k - required_samples.len() goes to the fallback
        fb = [c for c in b.calls() if c.name.endswith("PartitionSampler::new") or c.name.endswith("into_quorum_strategy")]
        okk = bool(fb)
        for c in fb:
            kt = b.operand_term(c.args[1])
            okk = okk and K.mentions_arg(b, kt, 2) and K.mentions_call(kt, "len") and any(
                isinstance(x, tuple) and x and x[0] == "bin" and x[1].startswith("Sub") for x in mir.walk(kt))
        o.check(okk, key + "|fallback-size=k-required", "the fallback sampler is built for k - required_samples.len() seats", b.span)
    if len(shapes) >= 2:
        import re as _re
        norm = lambda x: _re.sub(r"closure<[^>]*>", "closure", x) if x else x
        vals = [v for v in shapes.values()]
        o.check(all(norm(v[0]) == norm(vals[0][0]) for v in vals), "FaitAccompli|constructors-agree|seats", "all Fait-Accompli constructors compute the guaranteed seats by the same expression", "",
                {"constructors": [fshort(x) for x in shapes]})
        subs = [norm(v[1]) for v in vals if v[1]]
        o.check(len(subs) >= 2 and all(x == subs[0] for x in subs), "FaitAccompli1Sampler|constructors-agree|removed-weight", "both FA1 constructors remove the same weight", "")
    # sample_quorum: the required seats are always part of the committee
    sqs = [x for d, x in prog.bodies.items() if d.startswith("<" + SS + "FaitAccompli1Sampler<") and d.endswith("QuorumSamplingStrategy>::sample_quorum")]
    if not sqs:
        o.missing("FaitAccompli1Sampler::sample_quorum")
    for b in sqs:
        ex = [c for c in b.calls() if c.name.rsplit("::", 1)[-1] in ("extend_from_slice", "extend")]
        req = [c for c in ex if K.mentions_field(b.operand_term(c.args[1]), "required_samples")]
        o.check(len(req) == 1 and not DET.extra_guards(prog, b, req[0].bb, []) and b.always_followed_by(0, [req[0].bb]), "sample_quorum|required-always",
                "result starts with all required_samples on every path", b.span)
        rest = [c for c in ex if c not in req]
        okr = len(rest) == 1
        if okr:
            extra = DET.extra_guards(prog, b, rest[0].bb, [lambda a: a[0] == "lt" and a[2] is True and any(K.mentions_field(x, "k") for x in a[1]),
                                                                   # assert_eq!(k', fallback.quorum_size()): a reviewed panic site (O17.3), not a filter
                                                                   lambda a: a[0] == "eq" and a[2] is True and any(K.mentions_call(x, "quorum_size") for x in a[1])])
            okr = not extra and K.mentions_call(b.operand_term(rest[0].args[1]), "sample_quorum")
        o.check(okr, "sample_quorum|fallback-fills-rest", "the remaining seats come from the fallback sampler whenever fewer than k are required", b.span)
    w = K.all_field_writers(prog, SS + "FaitAccompli1Sampler").get("required_samples", {})
    o.check(not w, "FaitAccompli1Sampler.required_samples|immutable", "required_samples is never written after construction", "", {"writers": [fshort(x) for x in w]})


def ob_decay_cap(run, oid):
    """without-replacement decay: a validator is accepted with probability 1 - count/max_samples, its count is incremented on every
    acceptance, under one lock, so that it can never be returned once count >= max_samples (seat cap ceil(max_samples))"""
    prog = run.program("lib")
    o = run.ob(oid, "decaying acceptance: returned only when random >= count[sample] / max_samples, and count[sample] += 1 on exactly that path, under one lock",
               "the seat cap ceil(max_samples) rests on p_reject reaching 1 once the counter reaches max_samples: a missing or misplaced increment, another "
               "index, an inverted test or a second lock acquisition in between lets a validator exceed its cap", floor=6)
    b = prog.body(SS + "DecayingAcceptanceSampler::sample_one")
    if b is None:
        o.missing("DecayingAcceptanceSampler::sample_one")
        return
    rets = [d for d in b.defs().get(0, []) if d[0] == "stmt"]
    o.check(len(rets) == 1, "sample_one|single-return-site", "one return site (besides the rejection-budget panic)", b.span)
    if len(rets) != 1:
        return
    rbb = rets[0][1]
    rt = b.rvalue_term(rets[0][3]["rv"])
    samp = [c for c in b.calls() if c.name.endswith("SamplingStrategy>::sample") and K.mentions_field(b.operand_term(c.args[0]), "stake_weighted")]
    o.check(len(samp) == 1 and K.peel(rt)[0] == "call" and K.peel(rt)[3] == samp[0].bb, "sample_one|returns-the-draw", "the value returned is the draw from the stake-weighted sampler", rets[0][3].get("sp", ""))
    atoms = G.guard_atoms(b, rbb, prog)
    acc = [a for a in atoms if a[0] == "lt" and K.mentions_call(a[1][0], "random") and K.mentions_field(a[1][1], "max_samples")]
    ok = len(acc) == 1 and acc[0][2] is False
    det = {"guards": G.atoms_show(atoms)}
    if ok:
        pr = K.peel(acc[0][1][1])
        ok = pr[0] == "bin" and pr[1].startswith("Div") and K.is_field(pr[3], "max_samples") and K.mentions_field(pr[2], "sample_count") and samp and any(
            isinstance(x, tuple) and x and x[0] == "call" and x[3] == samp[0].bb for x in mir.walk(pr[2]) if isinstance(x, tuple) and x and x[0] == "call" and len(x) > 3)
    o.check(bool(ok), "sample_one|acceptance-test", "accepted exactly when !(random < count[draw] / max_samples)", rets[0][3].get("sp", ""), det)
    extra = D_extra(prog, b, rbb, [lambda a: a[0] == "lt" and K.mentions_call(a[1][0], "random")])
    o.check(not extra, "sample_one|acceptance-test|only-condition", "nothing else decides acceptance", rets[0][3].get("sp", ""), {"extra": G.atoms_show(extra)})
    # the increment: count[draw] += 1 dominates the return, behind the same test
    incs = []
    for (bb, i, dst, rv, sp) in b.assignments():
        if dst["p"] and dst["p"][0][0] == "d":
            t = b.rvalue_term(rv)
            tt = t[1] if isinstance(t, tuple) and t[0] == "field" and t[2] == "0" else t
            if isinstance(tt, tuple) and tt[0] == "bin" and tt[1].startswith("Add") and K.const_eval(tt[3]) == 1:
                base = b.local_term(dst["l"])
                ds = [x for x in b.defs().get(dst["l"], []) if x[0] == "call"]
                if len(ds) == 1:
                    base = b.call_term(ds[0][1], ds[0][3])
                if K.mentions_field(base, "sample_count") or K.mentions_call(base, "index_mut"):
                    incs.append((bb, base, sp))
    ok = len(incs) == 1 and (incs[0][0] == rbb or b.dominates(incs[0][0], rbb))
    if ok:
        base = incs[0][1]
        ok = samp and any(isinstance(x, tuple) and x and x[0] == "call" and len(x) > 3 and x[3] == samp[0].bb for x in mir.walk(base))
    o.check(bool(ok), "sample_one|increment-on-accept", "count[draw] += 1 on the accepting path, for the drawn validator", incs[0][2] if incs else b.span)
    if incs:
        extra = D_extra(prog, b, incs[0][0], [lambda a: a[0] == "lt" and K.mentions_call(a[1][0], "random")])
        o.check(not extra, "sample_one|increment-on-accept|unconditional", "every acceptance increments (no further condition)", incs[0][2], {"extra": G.atoms_show(extra)})
    locks = [c for c in b.calls() if c.name.endswith("Mutex::lock")]
    o.check(len(locks) == 1 and b.dominates(locks[0].bb, rbb), "sample_one|one-lock", "test and increment happen under a single lock acquisition per try", locks[0].span if locks else b.span)
    w = K.all_field_writers(prog, SS + "DecayingAcceptanceSampler").get("max_samples", {})
    o.check(not w, "DecayingAcceptanceSampler.max_samples|immutable", "max_samples is never written after construction", "")


def D_extra(prog, b, bb, rec):
    from . import detectors as DET
    return DET.extra_guards(prog, b, bb, rec)


def ob_committee_size(run, oid):
    """exactly k seats: structural part for the samplers that assemble a committee from several sources"""
    prog = run.program("lib")
    o = run.ob(oid, "FA2 fills the committee up to k counting what is already in it AFTER the medium-node coin flips; samplers keep the validator list they were given (index = id)",
               "a fill count taken before the coin flips yields k + (number of successful coins) seats; a filtered / reordered validator list shifts every later validator's "
               "index, so a zero-weight validator is drawn under another one's position", floor=5)
    sqs = [x for d, x in prog.bodies.items() if d.startswith("<" + SS + "FaitAccompli2Sampler as ") and d.endswith("QuorumSamplingStrategy>::sample_quorum")]
    if not sqs:
        o.missing("FaitAccompli2Sampler::sample_quorum")
    for b in sqs:
        med = [c for c in b.calls() if c.name.rsplit("::", 1)[-1] == "next" and K.mentions_field(b.operand_term(c.args[0]), "medium_nodes")]
        fb = [c for c in b.calls() if c.name.endswith("SamplingStrategy>::sample") and K.mentions_field(b.operand_term(c.args[0]), "fallback_sampler")]
        lens = [c for c in b.calls() if c.name.endswith("Vec::len")]
        ok = len(med) == 1 and bool(fb) and bool(lens)
        if ok:
            after = lambda bb: any(a[0] == "is_some" and a[2] is False and K.mentions(a[1][0], lambda x: x[0] == "call" and len(x) > 3 and x[3] == med[0].bb) for a in G.guard_atoms(b, bb, prog))
            # every length read that can influence the number of fallback draws happens after the medium loop ended
            ok = all(after(c.bb) for c in lens) and all(after(c.bb) for c in fb)
        o.check(ok, "FaitAccompli2Sampler::sample_quorum|fill-after-coins", "result.len() is read (and the fallback drawn) only after the medium-node loop has finished", b.span)
        o.check(any(K.mentions_field(t, "k") for c in b.calls() for t in [b.operand_term(a) for a in c.args]) or any(K.mentions_field(b.operand_term(o2), "k") for (bb, rv, sp, dst) in b.aggregates("core::ops::range::Range") for o2 in rv["ops"]),
                "FaitAccompli2Sampler::sample_quorum|fills-to-k", "the fill bound is self.k", b.span)
    # constructors keep the validator list intact
    NARROW = ("retain", "retain_mut", "sort", "sort_by", "sort_by_key", "sort_unstable", "sort_unstable_by", "sort_unstable_by_key", "dedup", "dedup_by", "dedup_by_key", "remove", "swap_remove",
              "truncate", "drain", "reverse", "rotate_left", "rotate_right", "shuffle", "pop", "split_off", "clear", "insert", "swap", "extract_if")
    n = 0
    for d, b in sorted(prog.bodies.items()):
        if b.generated or not d.startswith(SS) or "::{closure" in d:
            continue
        for (bb, rv, sp, dst) in [x for x in b.aggregates() if str(x[1].get("adt", "")).startswith(SS) and "validators" in x[1].get("fields", [])]:
            n += 1
            vt = b.operand_term(dict(zip(rv["fields"], rv["ops"]))["validators"])
            pv = b.provenance(vt, depth=6)
            pnames = set(b.local_name(i) for i in range(1, b.argc + 1))
            src_params = pv["params"] & pnames
            bad = []
            for c in b.calls():
                if c.name.rsplit("::", 1)[-1] in NARROW and c.args:
                    t0 = b.operand_term(c.args[0])
                    if set(b.provenance(t0)["params"]) & src_params and not K.mentions_call(t0, "clone"):
                        bad.append((c.name.rsplit("::", 1)[-1], c.span))
            narrowed = [x.rsplit("::", 1)[-1] for x in pv["calls"] if x.rsplit("::", 1)[-1] in ("filter", "filter_map", "skip", "take", "rev", "step_by", "skip_while", "take_while", "dedup", "sorted")]
            o.check(bool(src_params) and not bad and not narrowed, "%s|keeps-validator-list" % fshort(d), "the stored validator list is the one passed in: not filtered, reordered or shortened (index == validator id)", sp,
                    {"mutations": bad, "narrowing": narrowed})
    o.check(n >= 2, "constructors|found", "%d sampler constructors storing a validator list examined" % n, "")
