"""C18 — standstill recovery re-broadcasts a sufficient bundle, at any time (structural part)."""
from engine import guards as G
from engine import mir, panics
from . import common as K
from . import detectors as D
from .common import POOL, VOTOR, fshort

EXPLANATION = (
    "Decides O18.1-O18.6: no reviewed-unknown panic site is reachable from Pool::recover_from_standstill (safe in every "
    "state, including genesis); the bundle is final certs of finalized_slot() plus get_certs / get_own_votes over "
    "finalized_slot().next()..; get_certs reads every field of SlotCertificates and get_own_votes every field of "
    "SlotVotes at the node's own index (field coverage over the ADT); the Votor never filters a Standstill event and "
    "broadcasts every element of both vectors; standstill_loop triggers recovery behind elapsed > DELTA_STANDSTILL "
    "measured on finalized_slot(). Does NOT decide that a fresh node fed the bundle reaches the same state."
)

PI = POOL + "PoolImpl"
RFS = "<" + PI + " as " + POOL + "Pool>::recover_from_standstill"
SC = POOL + "slot_state::SlotCertificates"
SV = POOL + "slot_state::SlotVotes"

# reviewed panic sites reachable from recover_from_standstill: (fn, kind, what) -> (max count, reason)
REVIEWED = {
    ("consensus::pool::PoolImpl::get_own_votes", "index", "Vec<Option<FinalVote>>[usize]"): (1, "index is own_id < validators.len(); every SlotVotes vector is allocated with validators.len() entries (SlotVotes::new)"),
    ("consensus::pool::PoolImpl::get_own_votes", "index", "Vec<Option<NotarVote>>[usize]"): (1, "own_id < validators.len() (as above)"),
    ("consensus::pool::PoolImpl::get_own_votes", "index", "Vec<BTreeMap<DoubleMerkleRoot, NotarFallbackVote>>[usize]"): (1, "own_id < validators.len() (as above)"),
    ("consensus::pool::PoolImpl::get_own_votes", "index", "Vec<Option<SkipVote>>[usize]"): (1, "own_id < validators.len() (as above)"),
    ("consensus::pool::PoolImpl::get_own_votes", "index", "Vec<Option<SkipFallbackVote>>[usize]"): (1, "own_id < validators.len() (as above)"),
    ("types::slot::Slot::next", "unwrap", "Option::expect"): (1, "the finalized slot only advances through certificates admitted within finalized+2*SLOTS_PER_EPOCH (add_cert/add_vote window), so u64::MAX is unreachable"),
    ("consensus::pool::PoolImpl::send_votor_event", "unwrap", "Result::expect"): (1, "local channel to the Votor task, not input dependent: Votor owns the receiver for the node's lifetime"),
}


def ob_broadcast_unfiltered(run, o):
    """Votor::broadcast - the helper every outgoing vote and certificate goes through - sends whatever it is given"""
    prog = run.program("lib")
    fam = [x for x in prog.family(VOTOR + "Votor::broadcast") if x.is_closure]
    if not fam:
        o.missing("Votor::broadcast")
    for x in fam:
        sends = [c for c in x.calls() if c.name.rsplit("::", 1)[-1] == "broadcast" and c.name != VOTOR + "Votor::broadcast"]
        o.check(len(sends) >= 1 and x.always_followed_by(0, [c.bb for c in sends]), "Votor::broadcast|always-sends", "every call ends in All2All::broadcast", x.span)
        for c in sends:
            extra = D.extra_guards(prog, x, c.bb, [])
            o.check(not extra, "Votor::broadcast|no-filter", "no condition on the message (kind, slot, pruning state) stands before the send", c.span, {"extra": G.atoms_show(extra)})
            t = x.operand_term(c.args[1])
            o.check(K.mentions(t, lambda y: y[0] in ("param", "upvar") and (y[0] == "upvar" or y[1] == 2)), "Votor::broadcast|same-message", "the message sent is the one given", c.span, {"arg": mir.show(t)[:80]})


def ob_bundle_admissible_anywhere(run, oid):
    """'a node that receives only this bundle reaches the same finalized slot' - for any finalized slot of the sender"""
    prog = run.program("lib")
    o = run.ob(oid, "Pool::add_cert admits a certificate whatever the distance between its slot and the receiver's own finalized slot",
               "the recovery bundle carries the sender's highest finalization certificates: a receiver that refuses certificates more than a window ahead of ITS finalized slot "
               "(a fresh node: slot 0) can never catch up from the bundle of a node that is further ahead", floor=1)
    fam = prog.family("<" + PI + " as " + POOL + "Pool>::add_cert")
    if not fam:
        o.missing("Pool::add_cert")
        return o
    n = 0
    for b in fam:
        for c in b.calls():
            if not c.name.endswith("add_valid_cert"):
                continue
            n += 1
            ub = [a for a in G.guard_atoms(b, c.bb, prog) if a[0] == "lt" and a[2] is True and len(a[1]) == 2 and K.mentions_call(a[1][0], "::slot") and K.mentions_call(a[1][1], "finalized_slot")]
            o.check(not ub, "Pool::add_cert|no-upper-bound-relative-to-own-finalized-slot", "no `slot < finalized_slot() + window` test stands before the certificate is admitted", c.span,
                    {"bound": G.atoms_show(ub)[:1]})
    if n == 0:
        o.missing("add_valid_cert call in Pool::add_cert")
    return o


def check(run):
    ob_bundle_admissible_anywhere(run, "O18.11")
    # "its own votes for later slots": get_own_votes can only hand over what the pool stored - every vote given to SlotState::add_vote is recorded, whatever
    # certificates the slot already holds
    from . import C04 as _C04r
    _C04r.ob_recorded(run, "O18.10")
    D.ob_state_mutations(run, "O18.9", ['consensus::votor::Votor'], 'the Votor forwards a bundle whenever it is handed one: any memory of earlier bundles (already forwarded for this slot, ..) filters the very re-broadcast the mechanism exists for')
    # "all of them pass validation at a receiver": the certificates in the bundle are the ones the pool created / admitted - created only
    # behind their quorum predicate over the right stake counters and aggregated from exactly the stored votes of their kind
    from . import C03 as _C03
    _C03.ob_thresholds_creation(run, "O18.8a")
    _C03.ob_inputs(run, "O18.8b")
    # "a node that receives only this bundle reaches the same ready parents": the receiver stores every certificate of the bundle it does not
    # hold yet - a received certificate is a duplicate iff one of its OWN type (for the same block, for notar-fallback) is held (C03 O3.3)
    _C03.ob_once(run, "O18.8c")
    from . import detectors as _DL
    _DL.ob_loop_exits(run, "O18.7", ['consensus::pool', 'consensus::votor'], 'the recovery bundle contains every certificate and vote and each is re-broadcast: a loop that stops early sends a partial bundle')
    # "a node that receives only this bundle reaches ... the same ready parents for the following window": the receiver's ready
    # parents are computed by the parent-ready tracker from the bundle's certificates
    from . import C07
    C07.check(run, prefix="O18.6")
    prog = run.program("lib")

    # ------------------------------------------------------------------ O18.1
    o = run.ob("O18.1", "no unreviewed panic site is reachable from Pool::recover_from_standstill",
               "recovery is triggered by a timer in every state; a reachable assertion kills the standstill task exactly when the node is stuck", floor=6)
    fam = prog.family(RFS)
    if not fam:
        o.missing("PoolImpl::recover_from_standstill")
    from . import panic_review as _PR

    def _skip(s_):
        # Slot::next on the finalized slot: u64 increment of a slot that is bounded by wall-clock time
        return s_.kind == "assert" and s_.what.startswith("Overflow") and fshort(s_.body.defpath).startswith("types::slot::Slot")
    nb_, ns_ = panics.review(o, prog, [b.defpath for b in fam], REVIEWED, fshort, include_overflow=True, skip=_skip, auto=_PR.auto)
    U = range(nb_)
    run.notes.append("O18.1 examined %d bodies reachable from recover_from_standstill" % len(U))

    # ------------------------------------------------------------------ O18.2
    o = run.ob("O18.2", "bundle ranges: final certs of finalized_slot(); certs and own votes of finalized_slot().next()..",
               "a bundle starting at the pruning watermark or missing the slot after the finalized one does not let a peer catch up to the same slot", floor=4)
    for b in fam:
        if not b.is_closure:
            continue
        gf = b.calls_to(PI + "::get_final_certs")
        gc = b.calls_to(PI + "::get_certs")
        gv = b.calls_to(PI + "::get_own_votes")
        for c in gf:
            t = b.operand_term(c.args[1])
            o.check(t[0] == "call" and t[1].endswith("Pool>::finalized_slot") or (t[0] == "call" and t[1].endswith("::finalized_slot")), "recover_from_standstill|get_final_certs|arg",
                    "get_final_certs(finalized_slot())", c.span, {"arg": mir.show(t)})
        for nm, cs in (("get_certs", gc), ("get_own_votes", gv)):
            if not cs:
                o.fail("recover_from_standstill|%s|missing" % nm, "recover_from_standstill does not call %s" % nm, b.span)
            for c in cs:
                t = b.operand_term(c.args[1])
                ok = (t[0] == "agg" and t[1].endswith("RangeFrom") and dict(t[3]).get("start", ("x",))[0] == "call" and
                      dict(t[3])["start"][1].endswith("Slot::next") and K.mentions_call(dict(t[3])["start"], "finalized_slot") and
                      not K.mentions_call(t, "first_unpruned_slot"))
                o.check(bool(ok), "recover_from_standstill|%s|range" % nm, "%s(finalized_slot().next()..)" % nm, c.span, {"arg": mir.show(t)})
        # the Standstill event carries exactly those vectors
        evs = b.aggregates(POOL + "PoolEvent", "Standstill")
        if not evs:
            o.fail("recover_from_standstill|event|missing", "no PoolEvent::Standstill constructed", b.span)
        for (bb, rv, sp, dst) in evs:
            certs = b.operand_term(rv["ops"][1])
            votes = b.operand_term(rv["ops"][2])
            pc = b.provenance(certs)
            pvv = b.provenance(votes)
            ext = [c for c in b.calls() if c.name.endswith("::extend") and b.provenance(b.operand_term(c.args[0]))["calls"] & {PI + "::get_final_certs"} and
                   b.provenance(b.operand_term(c.args[1]))["calls"] & {PI + "::get_certs"}]
            o.check(PI + "::get_final_certs" in pc["calls"] and bool(ext) and b.dominates(ext[0].bb, bb), "recover_from_standstill|event|certs",
                    "event certificates = final certs extended with get_certs(..)", sp)
            o.check(PI + "::get_own_votes" in pvv["calls"], "recover_from_standstill|event|votes", "event votes = get_own_votes(..)", sp)
            snd = b.calls_to(PI + "::send_votor_event")
            o.check(bool(snd) and b.always_followed_by(0, [c.bb for c in snd]), "recover_from_standstill|event|sent", "every path sends the Standstill event to the Votor", sp)

    # ------------------------------------------------------------------ O18.3
    o = run.ob("O18.3", "bundle assembly covers every field of SlotCertificates and SlotVotes",
               "a certificate/vote kind that is never re-broadcast can be exactly the one the peers are missing", floor=4)
    for fn, adt in (("get_certs", SC), ("get_own_votes", SV)):
        famx = prog.family(PI + "::" + fn)
        if not famx:
            o.missing("PoolImpl::" + fn)
            continue
        rd = set()
        for b in famx:
            rd |= set(n for (_bb, ow, n, _sp) in b.field_reads() if ow == adt)
        # the walk over the slot states of the requested range runs to exhaustion: the result is returned only through the
        # None edge of the range iterator (no early break / return)
        for b in famx:
            if b.is_closure:
                continue
            nxt = [c for c in b.calls() if c.name.rsplit("::", 1)[-1] == "next" and "btree::map::Range" in c.name and K.mentions_field(b.operand_term(c.args[0]), "slot_states")]
            rets = [bl["id"] for bl in b.blocks if bl["term"]["k"] == "return" and bl["id"] in b.reach()]
            if not nxt:
                o.ok("PoolImpl::%s|walks-whole-range" % fn, "no explicit loop over the range (iterator chain): nothing can break out early", b.span, nontrivial=False)
                continue
            ok = len(nxt) == 1 and bool(rets)
            if ok:
                for rb in rets:
                    ok = ok and any(a[0] == "is_some" and a[2] is False and K.mentions(a[1][0], lambda x: x[0] == "call" and len(x) > 3 and x[3] == nxt[0].bb) for a in G.guard_atoms(b, rb, prog))
            o.check(ok, "PoolImpl::%s|walks-whole-range" % fn, "%s returns only after every slot state of the range was visited (gaps do not end the walk)" % fn, b.span)
        fields = set(K.adt_fields(prog, adt) or [])
        o.check(bool(fields) and rd == fields, "PoolImpl::%s|field-coverage" % fn, "%s reads every field of %s" % (fn, adt.rsplit("::", 1)[-1]), famx[0].span,
                {"missing": sorted(fields - rd)})
        # each field read feeds the matching Cert/Vote variant
        want = ({"finalize": "Final", "fast_finalize": "FastFinal", "notar": "Notar", "notar_fallback": "NotarFallback", "skip": "Skip"} if adt == SC else
                {"finalize": "Final", "notar": "Notar", "notar_fallback": "NotarFallback", "skip": "Skip", "skip_fallback": "SkipFallback"})
        enum = K.CERT + "Cert" if adt == SC else K.VOTE + "Vote"
        for b in famx:
            for (bb, rv, sp, dst) in b.aggregates(enum):
                t = b.operand_term(rv["ops"][0])
                pv = b.provenance(t)
                fs = set(n for (ow, n) in pv["fields"] if ow == adt)
                exp = [f for f, v in want.items() if v == rv["variant"]]
                o.check(fs == set(exp), "PoolImpl::%s|%s::%s" % (fn, enum.rsplit("::", 1)[-1], rv["variant"]), "%s::%s is built from .%s" % (enum.rsplit("::", 1)[-1], rv["variant"], exp[0] if exp else "?"), sp,
                        {"fields": sorted(fs)})
                rec = [lambda a: a[0] == "is_some" and a[2] is True and any(n in (exp or []) for (ow_, n) in mir.fields_in(a[1][0]) if ow_ == adt)]
                extra = D.extra_guards(prog, b, bb, rec)
                o.check(not extra, "PoolImpl::%s|%s::%s|unconditional" % (fn, enum.rsplit("::", 1)[-1], rv["variant"]), "included whenever it is present (no further filter)", sp, {"extra": G.atoms_show(extra)})
        if adt == SV:
            for b in famx:
                for c in b.calls_to("core::ops::index::Index::index"):
                    t = b.operand_term(c.args[1])
                    o.check(K.mentions_call(t, "own_id"), "PoolImpl::get_own_votes|own-index|%s" % mir.show(b.operand_term(c.args[0])).rsplit(".", 1)[-1],
                            "votes are taken at the node's own validator index", c.span, {"index": mir.show(t)})
    b = prog.body(PI + "::get_final_certs")
    if b is None:
        o.missing("PoolImpl::get_final_certs")
    else:
        aggs = b.aggregates(K.CERT + "Cert")
        vs = sorted(rv["variant"] for (_bb, rv, _sp, _d) in aggs)
        o.check(vs == ["FastFinal", "Final", "Notar"], "PoolImpl::get_final_certs|variants", "returns FastFinal, or Final together with Notar", b.span, {"variants": vs})
        for (bb, rv, sp, dst) in aggs:
            if rv["variant"] in ("Final", "Notar"):
                g1 = G.has_guard(prog, b, bb, pred="is_some", polarity=True, fields=["finalize"], owner="SlotCertificates", depth=0)
                g2 = G.has_guard(prog, b, bb, pred="is_some", polarity=True, fields=["notar"], owner="SlotCertificates", depth=0)
                o.check(g1 is not None and g2 is not None, "PoolImpl::get_final_certs|%s|both" % rv["variant"], "slow path requires both the Final and the Notar certificate", sp,
                        {"guards": K.show_atoms(prog, b, bb)})

    # ------------------------------------------------------------------ O18.4
    o = run.ob("O18.4", "the Votor forwards the bundle unconditionally and completely",
               "a filtered bundle is the one case the standstill mechanism exists for (Votor's own pruning state runs ahead of the Pool's)", floor=3)
    for b in prog.family(VOTOR + "Votor::handle_pool_event"):
        if not b.is_closure:
            continue
        bcs = []
        for c in b.calls_to(VOTOR + "Votor::broadcast"):
            atoms = G.guard_atoms(b, c.bb, prog)
            if any(a[0] == "variant" and a[1][1] == frozenset(["Standstill"]) for a in atoms):
                bcs.append(c)
        srcs = set()
        for c in bcs:
            pv = b.provenance(b.operand_term(c.args[1]))
            for l in pv["locals"] | pv["params"] | pv["upvars"]:
                srcs.add(l)
            t = b.operand_term(c.args[1])
            for x in mir.walk(t):
                if isinstance(x, tuple) and x and x[0] == "field" and x[1][0] == "variant" and x[1][2] == "Standstill":
                    srcs.add("field" + x[2])
        o.check(len(bcs) >= 2, "handle_pool_event|Standstill|broadcasts", "the Standstill arm broadcasts from two loops (certificates and votes)", b.span, {"n": len(bcs)})
        # both payload vectors (fields 1 and 2 of the event) are iterated
        its = {}
        for c in b.calls():
            if c.name.endswith("::into_iter"):
                t = b.operand_term(c.args[0])
                for x in mir.walk(t):
                    if isinstance(x, tuple) and x and x[0] == "field" and isinstance(x[1], tuple) and x[1][0] == "variant" and x[1][2] == "Standstill":
                        its[x[2]] = c
        o.check(set(its) >= {"1", "2"}, "handle_pool_event|Standstill|iterates-both", "both vectors of the event are iterated", b.span, {"iterated_fields": sorted(its)})
        # no early exit in the arm other than the loops' end: each loop body always reaches broadcast
        for f, c in its.items():
            nxt = [x for x in b.calls() if x.name.endswith("Iterator>::next") or x.name.endswith("::next")]
            pass
    ob_broadcast_unfiltered(run, o)
    sib = prog.body(VOTOR + "Votor::should_ignore_pool_event")
    if sib is None:
        o.missing("Votor::should_ignore_pool_event")
    else:
        from .C05 import ignore_table
        t = ignore_table(prog, sib)
        o.check(t.get("Standstill") is not None and not any(t["Standstill"].values()), "should_ignore_pool_event|Standstill", "Standstill events are never ignored (constant false, no pruning/retired test)", sib.span,
                {"features": sorted(t.get("Standstill")) if t.get("Standstill") is not None else None})

    # ------------------------------------------------------------------ O18.5
    o = run.ob("O18.5", "standstill_loop triggers recovery behind elapsed > DELTA_STANDSTILL, measured on finalized_slot(), and resets the timer",
               "recovery that is never triggered (or triggered on another notion of progress) leaves a stuck cluster stuck", floor=3)
    famx = [b for b in prog.family(K.A + "consensus::Alpenglow::standstill_loop") if b.is_closure]
    if not famx:
        o.missing("Alpenglow::standstill_loop")
    for b in famx:
        rec = [c for c in b.calls() if c.callee.endswith("Pool::recover_from_standstill")]
        o.check(bool(rec), "standstill_loop|calls-recover", "standstill_loop calls Pool::recover_from_standstill", b.span)
        for c in rec:
            g = G.has_guard(prog, b, c.bb, pred="lt", polarity=True, calls=["Instant::elapsed"])
            ok = g is not None and any(x[0] == "cref" and x[1].endswith("DELTA_STANDSTILL") or (x[0] == "const" and len(x) > 3 and x[3].endswith("DELTA_STANDSTILL")) for x in mir.consts_in(g[1][0]))
            o.check(bool(ok), "standstill_loop|recover|threshold", "recovery only when last_progress.elapsed() > DELTA_STANDSTILL", c.span, {"guards": K.show_atoms(prog, b, c.bb)})
            now = [x.bb for x in b.calls() if x.name.endswith("Instant::now") and x.bb != 0]
            o.check(b.always_followed_by(c.bb, [n for n in now if b.can_reach(c.bb, n)]) and bool(now), "standstill_loop|recover|resets-timer", "the timer is reset after recovery", c.span)
        fs = [c for c in b.calls() if c.callee.endswith("Pool::finalized_slot")]
        o.check(bool(fs), "standstill_loop|progress-measure", "progress is measured on Pool::finalized_slot()", b.span)
