"""Shared helpers and name tables for the rule modules."""
import re

from engine import guards as G
from engine import mir

A = "alpenglow::"
VOTE = A + "consensus::vote::"
CERT = A + "consensus::cert::"
POOL = A + "consensus::pool::"
SLOT_STATE = POOL + "slot_state::"
VOTOR = A + "consensus::votor::"

VOTE_KINDS = ["Notar", "NotarFallback", "Skip", "SkipFallback", "Final"]
CERT_KINDS = ["Notar", "NotarFallback", "Skip", "FastFinal", "Final"]

VOTE_CTORS = {
    "Notar": [VOTE + "Vote::new_notar", VOTE + "NotarVote::new"],
    "NotarFallback": [VOTE + "Vote::new_notar_fallback", VOTE + "NotarFallbackVote::new"],
    "Skip": [VOTE + "Vote::new_skip", VOTE + "SkipVote::new"],
    "SkipFallback": [VOTE + "Vote::new_skip_fallback", VOTE + "SkipFallbackVote::new"],
    "Final": [VOTE + "Vote::new_final", VOTE + "FinalVote::new"],
}


def fshort(defpath):
    """key-friendly function name: no crate prefix, closures folded into their root fn"""
    p = defpath
    if p.startswith(A):
        p = p[len(A):]
    p = re.sub(r"(::\{closure#\d+\})+$", "", p)
    return p


def root_fn(defpath):
    return re.sub(r"(::\{closure#\d+\})+$", "", defpath)


def bodies_in(prog, module_prefix, include_derived=False):
    """bodies of a module (incl. trait impls `<module::T as ..>::m`); #[derive]-generated impls excluded by default"""
    return [b for d, b in prog.bodies.items() if (d.startswith(module_prefix) or d.startswith("<" + module_prefix))
            and (include_derived or not b.generated)]


def site_of(c):
    return c.span if hasattr(c, "span") else str(c)


def ordinal_keys(items, keyfn):
    """assign ordinals among equal keys (stable by order of appearance)"""
    seen = {}
    out = []
    for it in items:
        k = keyfn(it)
        n = seen.get(k, 0)
        seen[k] = n + 1
        out.append((it, "%s|%d" % (k, n)))
    return out


def writes_of_field(body, owner_suffix, field, const=None):
    """blocks in which owner.field is assigned directly (optionally with a given constant int)"""
    out = []
    for (bb, owner, name, rv, sp, dst) in body.field_writes():
        if name == field and owner.endswith(owner_suffix):
            if const is not None:
                t = body.rvalue_term(rv)
                if not (isinstance(t, tuple) and t[0] == "const" and t[2] == const):
                    continue
            out.append((bb, sp, rv))
    return out


def mutborrows_of_field(body, owner_suffix, field):
    return [(bb, sp) for (bb, owner, name, sp, _l, _pl) in body.mut_borrows_of_fields() if name == field and owner.endswith(owner_suffix)]


def all_field_writers(prog, owner, module_prefix=None):
    """field -> {root fn: [(site, kind)]} for direct writes and &mut borrows of `owner`'s fields"""
    out = {}
    for d, b in prog.bodies.items():
        if module_prefix and not (d.startswith(module_prefix) or d.startswith("<" + module_prefix)):
            continue
        for (bb, o, name, rv, sp, dst) in b.field_writes():
            if o == owner:
                out.setdefault(name, {}).setdefault(root_fn(d), []).append((sp, "assign", b, bb))
        for (bb, o, name, sp, _l, _pl) in b.mut_borrows_of_fields():
            if o == owner:
                out.setdefault(name, {}).setdefault(root_fn(d), []).append((sp, "mutborrow", b, bb))
    return out


def adt_fields(prog, adt, variant=None):
    r = prog.adts.get(adt)
    if not r:
        return None
    vs = r["variants"]
    if variant is not None:
        vs = [v for v in vs if v["name"] == variant]
    return [f["name"] for v in vs for f in v["fields"]]


def show_atoms(prog, body, bb, assume=()):
    return G.atoms_show(G.guard_atoms(body, bb, prog, assume))


def arg_term(call, i):
    return call.body.operand_term(call.args[i])


def is_field(term, name, owner_suffix=None):
    """term is (a clone/deref/copy of) a field projection with that name"""
    t = peel(term)
    return isinstance(t, tuple) and t[0] == "field" and t[2] == name and (owner_suffix is None or t[3].endswith(owner_suffix))


PEEL_CALLS = ("::clone", "::deref", "::deref_mut", "::as_ref", "::borrow", "::into", "::from", "::as_mut", "::cloned", "::copied", "::to_owned")


def peel(term):
    """strip clone()/deref()/as_ref()/into() wrappers"""
    t = term
    while isinstance(t, tuple) and t and t[0] == "call" and len(t[2]) == 1 and any(t[1].endswith(s) for s in PEEL_CALLS):
        t = t[2][0]
    return t


def mentions(term, pred):
    return any(pred(t) for t in mir.walk(term) if isinstance(t, tuple))


def mentions_field(term, name, owner_suffix=None):
    return mentions(term, lambda t: t and t[0] == "field" and t[2] == name and (owner_suffix is None or t[3].endswith(owner_suffix)))


def mentions_call(term, suffix):
    return mentions(term, lambda t: t and t[0] == "call" and t[1].endswith(suffix))


def mentions_name(term, name):
    return G.mentions_param(term, name)


def const_eval(term):
    """integer value of a term built from literals/named integer consts with + - * (incl. the checked forms), else None"""
    t = peel(term)
    if not isinstance(t, tuple) or not t:
        return None
    if t[0] == "const" and isinstance(t[2], int):
        return t[2]
    if t[0] == "cast":
        return const_eval(t[2])
    if t[0] == "field" and t[2] == "0" and isinstance(t[1], tuple) and t[1][0] == "bin" and t[1][1].endswith("WithOverflow"):
        return const_eval(("bin", t[1][1][:-len("WithOverflow")], t[1][2], t[1][3]))
    if t[0] == "bin":
        a, b = const_eval(t[2]), const_eval(t[3])
        if a is None or b is None:
            return None
        op = t[1]
        if op == "Add":
            return a + b
        if op == "Sub":
            return a - b
        if op == "Mul":
            return a * b
        if op == "Div" and b:
            return a // b
        if op == "Shl":
            return a << b
    return None


def arg_pred(body, idx):
    """predicate on term nodes: 'is the idx-th parameter (1-based) of the function `body` belongs to'.
    In an async fn's coroutine body (and async_trait closures) parameters are captured upvars, in parameter order."""
    name = None
    if body.is_closure:
        caps = body.captures
        if idx - 1 < len(caps):
            name = caps[idx - 1]
        return lambda t: isinstance(t, tuple) and t and ((t[0] == "upvar" and t[1] == name) or (t[0] in ("local",) and t[2] == name))
    return lambda t: isinstance(t, tuple) and t and t[0] == "param" and t[1] == idx


def mentions_arg(body, term, idx):
    return mentions(term, arg_pred(body, idx))


def is_arg(body, term, idx):
    t = peel(term)
    return arg_pred(body, idx)(t)
