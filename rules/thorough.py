"""Thorough tier extras (mutant self-tests etc.); filled in below."""


def run_for(run, prop):
    from . import mutants
    mutants.run_for(run, prop)
