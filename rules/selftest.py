"""Detector self-tests on the fixtures crate: every positive example must fire, every negative twin must stay
silent, on every run. A mismatch makes the check exit 2 (checker broken) - never a violation of /repo."""
from engine import effects
from engine import guards as G
from engine import mir, panics, paths
from . import common as K
from . import detectors as D
from . import panic_review

F = "agl_fixtures::"


def _call_bb(b, callee_suffix):
    cs = [c for c in b.calls() if c.name.endswith(callee_suffix)]
    return cs[0].bb if cs else None


def guards(run, fx):
    def has(fn):
        b = fx.bodies[F + fn]
        bb = _call_bb(b, "::act")
        g1 = G.has_guard(fx, b, bb, pred="bool", polarity=False, fields=["flag"], owner="St", depth=0)
        return g1 is not None
    run.selftest("guard/flag-false/ok", has("guard_ok"), True)
    run.selftest("guard/flag-false/early-return-spelling", has("guard_ok_early_return"), True)
    run.selftest("guard/flag-false/dropped", has("guard_bad_dropped"), False)
    run.selftest("guard/in-caller-of-private-helper/ok", has("helper_act"), True)
    run.selftest("guard/in-caller-of-private-helper/one-caller-lacks-it", has("helper_act2"), False)
    b = fx.bodies[F + "guard_ok_via_bool_local"]
    ats = G.guard_atoms(b, _call_bb(b, "::act"), fx)
    run.selftest("guard/bool-local-with-computed-arm", any(a[0] == "is_some" and a[2] is False for a in ats) and any(a[0] == "is_some" and a[2] is True and K.mentions_call(a[1][0], "first") for a in ats), True)
    run.selftest("guard/flag-false/disjunction", has("guard_bad_or"), False)
    run.selftest("guard/flag-false/polarity", has("guard_bad_polarity"), False)
    # comparison normalisation: x < 10 in both spellings
    for fn in ("guard_ok", "guard_ok_early_return"):
        b = fx.bodies[F + fn]
        bb = _call_bb(b, "::act")
        g = [a for a in G.guard_atoms(b, bb, fx) if a[0] == "lt" and a[2] is True and D.const_side(a[1][1]) == 10]
        run.selftest("guard/lt-normal-form/" + fn, bool(g), True)
        g = [a for a in G.guard_atoms(b, bb, fx) if a[0] == "is_some" and a[2] is False]
        run.selftest("guard/is-none-normal-form/" + fn, bool(g), True)
    for fn, exp in (("matches_ok", True), ("matches_bad", False)):
        b = fx.bodies[F + fn]
        bb = _call_bb(b, "::act")
        ok = any(a[0] == "variant" and a[1][1] == frozenset(["A"]) for a in G.guard_atoms(b, bb, fx))
        run.selftest("guard/matches-lowering/" + fn, ok, exp)


def follow(run, fx):
    for fn, exp in (("follow_ok", True), ("follow_bad", False)):
        b = fx.bodies[F + fn]
        bb = _call_bb(b, "::act")
        w = [x[0] for x in K.writes_of_field(b, "St", "done", const=1)]
        run.selftest("always-followed-by/" + fn, bool(w) and b.always_followed_by(bb, w), exp)


def store(run, fx):
    for fn, exp in (("store_then_count_ok", False), ("count_then_store_bad", True)):
        b = fx.bodies[F + fn]
        res = D.store_before_readers(fx, b, F + "St")
        fired = any(bad for sts in res.values() for (_bb, _sp, bad, _n) in sts)
        run.selftest("store-before-readers/" + fn, fired, exp)


def downgrade(run, fx):
    for fn, exp in (("downgrade_bad", True), ("downgrade_ok", False)):
        b = fx.bodies[F + fn]
        res = D.no_downgrade(fx, b, "status", "St", F + "Status", {"Decided"})
        fired = any(not ok for (_k, ok, _w, _sp, _d) in res)
        run.selftest("no-downgrade/" + fn, fired, exp)


def ambient(run, fx):
    for fn, exp in (("ambient_bad", True), ("ambient_bad_hash_order", True), ("ambient_bad_env", True), ("ambient_bad_random_state", True), ("ambient_via_callee_bad", True), ("ambient_ok", False)):
        U, eff = effects.reachable_effects(fx, [F + fn])
        run.selftest("ambient-effects/" + fn, bool(eff), exp)


def panic_sites(run, fx):
    b = fx.bodies[F + "panic_sites_bad"]
    kinds = sorted(set((s.kind, s.what) for s in panics.sites(b, fx, include_overflow=False) if not panic_review.auto(s, fx)))
    want = {("assert", "BoundsCheck"), ("unwrap", "Option::unwrap"), ("assert", "DivisionByZero"), ("panic", "panicking::panic")}
    run.selftest("panic-sites/enumerated", want <= set(kinds), True)
    b = fx.bodies[F + "panic_sites_ok"]
    left = [s for s in panics.sites(b, fx, include_overflow=False) if not panic_review.auto(s, fx)]
    run.selftest("panic-sites/none-in-checked-twin", bool(left), False)
    b = fx.bodies[F + "const_index_ok"]
    left = [s for s in panics.sites(b, fx, include_overflow=False) if not panic_review.auto(s, fx)]
    run.selftest("panic-sites/constant-index-auto-discharged", bool(left), False)


def locks(run, fx):
    e, cyc, n, nb = D.lock_graph(fx, lambda d: d in (F + "lock_ab", F + "lock_ba_bad"))
    run.selftest("lock-order/opposite-orders-cycle", bool(cyc), True)
    e, cyc, n, nb = D.lock_graph(fx, lambda d: d in (F + "lock_ab", F + "lock_sequential_ok"))
    run.selftest("lock-order/sequential-no-cycle", bool(cyc), False)
    run.selftest("lock-order/edge-found", ("pool", "store") in e, True)


def tables(run, fx):
    for fn, f in (("both", lambda a, b: a and b), ("either", lambda a, b: a or b)):
        tt = paths.bool_truth_table(fx.bodies[F + fn], fx)
        ok = tt is not None and len(tt[0]) == 2 and all(v == f(*a) for a, v in tt[1].items())
        run.selftest("truth-table/" + fn, ok, True)
        other = (lambda a, b: a or b) if fn == "both" else (lambda a, b: a and b)
        ok2 = tt is not None and len(tt[0]) == 2 and all(v == other(*a) for a, v in tt[1].items())
        run.selftest("truth-table/%s-is-not-the-other" % fn, ok2, False)
    rows = paths.decision_table(fx.bodies[F + "classify"], fx)
    outs = set()
    for atoms, ret, blocks in rows:
        outs.add(mir.show(ret)[:40])
    run.selftest("decision-table/classify-paths", len(rows) >= 5, True)


def intervals(run, fx):
    for fn, exp in (("need_32_ok", True), ("need_32_ok_other_spelling", True), ("need_32_bad_off_by_one", False)):
        b = fx.bodies[F + fn]
        bb = _call_bb(b, "::act")
        ok = False
        for a in G.guard_atoms(b, bb, fx):
            s = D.holds_set(a, range(0, 65))
            if s == set(range(32, 65)):
                ok = True
        run.selftest("interval-normal-form/" + fn, ok, exp)


def provenance(run, fx):
    for fn, exp in (("provenance_ok", True), ("provenance_bad", False)):
        b = fx.bodies[F + fn]
        c = [c for c in b.calls() if c.name.endswith("::sign")][0]
        run.selftest("provenance/" + fn, K.is_field(b.operand_term(c.args[0]), "key", "Me"), exp)


def coverage(run, fx):
    for fn, exp in (("cover_all_ok", True), ("cover_missing_bad", False)):
        b = fx.bodies[F + fn]
        rd = set(n for (_bb, ow, n, _sp) in b.field_reads() if ow == F + "Hdr")
        regs = D.written_regions(b, F + "Hdr")
        run.selftest("field-coverage/" + fn, rd == {"a", "b", "c"} and D.contiguous(regs, 17), exp)


def index_domain(run, fx):
    from . import C15
    ws = {b.defpath.rsplit("::", 1)[-1]: (b, rem, div) for (b, rem, div) in C15.walkers(fx, F + "walk::")}
    for fn, exp in (("walk_residual_ok", False), ("walk_width_ok", False), ("walk_width_bad_off_by_one", True), ("walk_width_bad_too_strict", True)):
        if fn not in ws:
            run.selftest("index-domain/" + fn + "/walker-found", False, True)
            continue
        b, rem, div = ws[fn]
        try:
            wrong = C15.index_domain_wrong(b, fx, rem[1], div[0], 2, 3)
            run.selftest("index-domain/" + fn, bool(wrong), exp)
        except C15.Unknown:
            run.selftest("index-domain/" + fn + "/evaluable", False, True)


def exact(run, fx):
    for fn, exp in (("exact_guard_ok", False), ("exact_guard_bad_extra", True)):
        b = fx.bodies[F + fn]
        bb = _call_bb(b, "::act")
        extra = D.extra_guards(fx, b, bb, [lambda a: a[0] == "bool" and a[2] is False and K.mentions_field(a[1][0], "flag")])
        run.selftest("exact-guard-set/" + fn, bool(extra), exp)
    fm = D.field_mutations(fx, F + "Mm")
    for fn, fld, exp in (("ctr_stat_only", "hits", False), ("ctr_stat_only", "misses", False), ("ctr_bad_logic", "hits", True), ("ctr_bad_passed", "misses", True)):
        run.selftest("counter-only-reads/%s.%s" % (fn, fld), bool(D.logic_reads_of_field(fx.bodies[F + fn], F + "Ctr", fld)), exp)
    for fn, exp in (("cast_bad_len", True), ("cast_ok_masked", False), ("cast_ok_mod", False), ("cast_ok_guarded", False)):
        cs = D.narrowing_casts(fx, fx.bodies[F + fn])
        run.selftest("narrowing-cast/" + fn, bool(cs) and any(not c[3] for c in cs), exp)
    for fn, exp in (("loop_ok_all", False), ("loop_bad_early_return", True), ("loop_ok_search", False), ("loop_ok_single_exit", False)):
        run.selftest("early-exit-loop/" + fn, bool(D.early_exit_loops(fx, fx.bodies[F + fn])), exp)
    fb = fx.bodies[F + "inplace_fill"]
    rets = [fb.rvalue_term(st["rv"]) for bl in fb.blocks for st in bl["stmts"] if st["k"] == "assign" and st["dst"]["l"] == 0 and not st["dst"]["p"]]
    pv = fb.provenance(rets[0], depth=8) if rets else {"params": set()}
    run.selftest("inplace-provenance/params", {"a", "b"} <= pv["params"], True)
    run.selftest("mutation-map/insert+remove+assign", sorted(fm.get("seen", {})) == ["insert", "remove"] and sorted(fm.get("n", {})) == ["assign"], True)


def inlining(run, fx):
    """the inliner itself, on the fixtures crate: every fn except the inl_* helpers counts as 'known'"""
    from engine import facts, inline, mir as M
    recs = facts.load_dir(facts.extract_fixtures())
    known = set(M.strip_generics(r["def"]) for r in recs if r.get("rec") == "body" and r.get("kind") in ("Fn", "AssocFn")) - {F + "inl_helper", F + "inl_pred", F + "inl_async_helper"}
    recs2, done = inline.inline_new_helpers(recs, known)
    p2 = M.Program(recs2)
    names = sorted(h for h, _w in done)
    run.selftest("inline/helpers-inlined", names == sorted([F + "inl_helper", F + "inl_pred", F + "inl_async_helper (async)"]) and (F + "inl_helper") not in p2.bodies, True)

    def guarded(fn, field="flag"):
        b = p2.bodies.get(fn)
        if b is None:
            return False
        bb = _call_bb(b, "::act")
        return bb is not None and G.has_guard(p2, b, bb, pred="bool", polarity=False, fields=[field], owner="St", depth=0, interproc=False) is not None
    run.selftest("inline/sync/action-under-callers-guard", guarded(F + "inl_caller"), True)
    run.selftest("inline/async/action-under-callers-guard", guarded(F + "inl_async_caller::{closure#0}"), True)
    # predicate helper with two result expressions: only what holds in both branches is implied (nothing about `flag`), but the
    # assumption-restricted lowering finds it once the branch is fixed
    b = p2.bodies.get(F + "inl_pred_caller")
    ok = False
    if b is not None:
        bb = _call_bb(b, "::act")
        sw = G.find_switch(p2, b, fields=["done"], owner="St")
        if bb is not None and sw:
            s_, tv, fv = sw[0]
            ok = (G.has_guard(p2, b, bb, pred="bool", polarity=False, fields=["flag"], owner="St", depth=0, interproc=False, assume=((s_, fv),)) is not None
                  and G.has_guard(p2, b, bb, pred="bool", polarity=False, fields=["flag"], owner="St", depth=0, interproc=False) is None)
    run.selftest("inline/predicate-helper/branch-wise-lowering", ok, True)


ALL = {"guards": guards, "exact": exact, "inlining": inlining, "index_domain": index_domain, "follow": follow, "store": store, "downgrade": downgrade, "ambient": ambient, "panics": panic_sites, "locks": locks,
       "tables": tables, "intervals": intervals, "provenance": provenance, "coverage": coverage}

# which detector families each property's rules rely on
USES = {
    "C01": ["guards", "exact", "inlining", "follow", "tables", "provenance"], "C03": ["guards", "exact", "inlining", "follow", "store", "provenance"], "C04": ["guards", "exact", "inlining", "tables"],
    "C05": ["guards", "exact", "inlining", "follow", "provenance"], "C06": ["guards", "exact", "inlining", "follow"], "C07": ["guards", "exact", "inlining", "follow"], "C08": ["guards", "exact", "inlining", "follow", "downgrade", "provenance"],
    "C09": ["guards", "exact", "inlining", "tables", "panics", "provenance"], "C10": ["guards", "exact", "inlining", "panics", "locks", "intervals"], "C11": ["guards", "exact", "inlining", "intervals"],
    "C12": ["guards", "exact", "inlining", "tables", "coverage", "provenance"], "C13": ["guards", "exact", "inlining", "follow", "provenance"], "C14": ["guards", "exact", "inlining", "follow", "provenance"],
    "C15": ["guards", "exact", "inlining", "tables", "index_domain"], "C16": ["guards", "exact", "inlining", "ambient", "provenance"], "C17": ["guards", "exact", "inlining", "ambient", "panics", "follow"],
    "C18": ["guards", "exact", "inlining", "panics", "provenance", "coverage"], "C19": ["guards"], "C20": ["guards", "exact", "inlining", "ambient"],
}


def run_for(run, prop):
    fx = run.fixtures()
    for fam in USES.get(prop, list(ALL)):
        ALL[fam](run, fx)
