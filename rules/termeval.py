"""Evaluation of integer-valued MIR *terms* (guard conditions, size expressions) over finite grids.
Not an interpreter for the program: a term is a pure expression tree read from mir_built (constants, parameters, arithmetic,
a handful of core integer methods). Anything outside this vocabulary raises Unknown and the caller then does not decide."""
from engine import mir
from . import common as K

U64 = 2 ** 64


class Unknown(Exception):
    pass


class Overflow(Exception):
    """the term itself would panic (checked arithmetic) for this valuation"""


def ev(t, env):
    v = env(t)
    if v is not None:
        return v
    if not isinstance(t, tuple) or not t:
        raise Unknown(repr(t))
    k = t[0]
    if k == "const" and isinstance(t[2], int):
        return t[2]
    if k == "cast":
        v = ev(t[2], env)
        w = {"u8": 8, "i8": 8, "u16": 16, "i16": 16, "u32": 32, "i32": 32, "u64": 64, "i64": 64, "usize": 64, "isize": 64}.get(t[3] if len(t) > 3 else "")
        if isinstance(v, int) and not isinstance(v, bool) and w and str(t[1]).startswith("IntToInt"):
            return v % (2 ** w)      # integer casts truncate
        return v
    if k in ("copy", "move", "deref", "ref"):
        return ev(t[1], env)
    if k == "field" and t[2] == "0" and isinstance(t[1], tuple) and t[1][0] == "bin" and t[1][1].endswith("WithOverflow"):
        return ev(("bin", t[1][1][:-len("WithOverflow")], t[1][2], t[1][3]), env)
    if k == "field" and isinstance(t[1], tuple) and t[1] and t[1][0] == "variant" and t[1][2] == "Some" and t[2] == "0":
        o = ev(t[1][1], env)
        if isinstance(o, tuple) and o and o[0] == "opt" and o[1] is not None:
            return o[1]
        raise Unknown(mir.show(t)[:120])
    if k == "agg" and len(t) > 3 and len(t[3]) == 1 and t[3][0][0] == "0" and not str(t[1]).startswith("core::"):
        return ev(t[3][0][1], env)      # newtype constructor: the value of its only field
    if k == "field" and t[2] == "0" and isinstance(t[1], tuple) and t[1] and t[1][0] in ("param", "deref", "local", "call") and len(t) > 3 and not str(t[3]).startswith("tuple"):
        v = env(t[1])
        if v is not None and isinstance(v, int):
            return v                     # the only field of a newtype value
    if k == "index":
        base = ev(t[1], env)
        ix = ev(t[2], env) if t[2] is not None else None
        if isinstance(base, (list, tuple, bytes)) and not (isinstance(base, tuple) and base and base[0] == "opt") and isinstance(ix, int):
            if ix >= len(base):
                raise Overflow("index out of bounds")
            return base[ix]
        raise Unknown(mir.show(t)[:120])
    if k == "bin":
        a, b = ev(t[2], env), ev(t[3], env)
        if not isinstance(a, int) or not isinstance(b, int):
            raise Unknown(mir.show(t))
        op = t[1].replace("Unchecked", "")
        wide = any(isinstance(x, tuple) and x and x[0] == "cast" and len(x) > 3 and x[3] in ("u128", "i128") for x in (t[2], t[3]))
        lim = 2 ** 128 if wide else U64
        if op == "Add":
            if a + b >= lim:
                raise Overflow("add")
            return a + b
        if op == "Sub":
            if a < b:
                raise Overflow("sub")
            return a - b
        if op == "Mul":
            if a * b >= lim:
                raise Overflow("mul")
            return a * b
        if op in ("Div", "Rem"):
            if b == 0:
                raise Overflow("div by zero")
            return a // b if op == "Div" else a % b
        if op == "Shl":
            return a << b
        if op == "Shr":
            return a >> b
        if op == "BitAnd":
            return a & b
        if op == "BitOr":
            return a | b
        if op == "BitXor":
            return a ^ b
        if op in ("Eq", "Ne", "Lt", "Le", "Gt", "Ge"):
            return {"Eq": a == b, "Ne": a != b, "Lt": a < b, "Le": a <= b, "Gt": a > b, "Ge": a >= b}[op]
        raise Unknown(mir.show(t))
    if k == "call":
        nm = t[1].rsplit("::", 1)[-1]
        args = t[2]
        if nm in ("checked_shr", "checked_shl") and len(args) == 2:
            a, b = ev(args[0], env), ev(args[1], env)
            if b >= 64:
                return ("opt", None)
            return ("opt", (a >> b) if nm == "checked_shr" else ((a << b) % U64))
        if nm in ("checked_add", "checked_sub", "checked_mul") and len(args) == 2 and t[1].startswith("core::num"):
            a, b = ev(args[0], env), ev(args[1], env)
            if isinstance(a, int) and isinstance(b, int):
                v = a + b if nm == "checked_add" else (a - b if nm == "checked_sub" else a * b)
                return ("opt", v if 0 <= v < U64 else None)
        if nm in ("expect", "unwrap") and len(args) >= 1 and "option::Option" in t[1]:
            o = ev(args[0], env)
            if isinstance(o, tuple) and o and o[0] == "opt":
                if o[1] is None:
                    raise Overflow("unwrap on None")
                return o[1]
        if nm == "unwrap_or" and len(args) == 2:
            o = ev(args[0], env)
            if isinstance(o, tuple) and o[0] == "opt":
                return ev(args[1], env) if o[1] is None else o[1]
        if nm in ("from", "into", "clone") and len(args) == 1:
            return ev(args[0], env)
        if nm in ("ilog2", "checked_ilog2", "leading_zeros", "trailing_zeros", "count_ones", "count_zeros", "is_power_of_two", "next_power_of_two") and len(args) == 1 and t[1].startswith("core::num"):
            a = ev(args[0], env)
            if isinstance(a, int):
                if nm == "ilog2":
                    if a <= 0:
                        raise Overflow("ilog2 of zero")
                    return a.bit_length() - 1
                if nm == "checked_ilog2":
                    return ("opt", a.bit_length() - 1 if a > 0 else None)
                if nm == "leading_zeros":
                    return 64 - a.bit_length()
                if nm == "trailing_zeros":
                    return 64 if a == 0 else (a & -a).bit_length() - 1
                if nm == "count_ones":
                    return bin(a).count("1")
                if nm == "count_zeros":
                    return 64 - bin(a).count("1")
                if nm == "is_power_of_two":
                    return a > 0 and (a & (a - 1)) == 0
                if nm == "next_power_of_two":
                    return 1 if a <= 1 else 1 << (a - 1).bit_length()
        if nm in ("pow", "checked_pow") and len(args) == 2 and t[1].startswith("core::num"):
            a, b = ev(args[0], env), ev(args[1], env)
            if isinstance(a, int) and isinstance(b, int) and b < 200:
                v = a ** b
                if nm == "pow":
                    if v >= U64:
                        raise Overflow("pow")
                    return v
                return ("opt", v if v < U64 else None)
        if nm in ("saturating_add", "saturating_mul", "wrapping_add", "wrapping_mul") and len(args) == 2 and t[1].startswith("core::num"):
            a, b = ev(args[0], env), ev(args[1], env)
            if isinstance(a, int) and isinstance(b, int):
                v = a + b if nm.endswith("add") else a * b
                return min(v, U64 - 1) if nm.startswith("saturating") else v % U64
        if nm == "get" and len(args) == 1 and "nonzero" in t[1]:
            return ev(args[0], env)
        if nm == "len" and len(args) == 1:
            v = ev(args[0], env)
            if isinstance(v, (list, bytes)):
                return len(v)
        if nm == "get" and len(args) == 2:
            base, ix = ev(args[0], env), ev(args[1], env)
            if isinstance(base, (list, bytes)) and isinstance(ix, int):
                return ("opt", base[ix] if ix < len(base) else None)
        if nm in ("copied", "cloned") and len(args) == 1:
            o = ev(args[0], env)
            if isinstance(o, tuple) and o and o[0] == "opt":
                return o
        if nm == "map_or" and len(args) == 3:
            o = ev(args[0], env)
            f = mir.show(args[2])
            if isinstance(o, tuple) and o and o[0] == "opt" and (f.endswith("from") or f.endswith("into")):
                return ev(args[1], env) if o[1] is None else o[1]
        if nm == "is_multiple_of" and len(args) == 2 and t[1].startswith("core::num"):
            a, b = ev(args[0], env), ev(args[1], env)
            return (a == 0) if b == 0 else (a % b == 0)
        if nm in ("div_ceil", "next_multiple_of", "max", "min", "saturating_sub", "wrapping_sub") and len(args) == 2 and (t[1].startswith("core::num") or t[1].startswith("core::cmp")):
            a, b = ev(args[0], env), ev(args[1], env)
            if not isinstance(a, int) or not isinstance(b, int):
                raise Unknown(mir.show(t))
            if nm == "div_ceil":
                if b == 0:
                    raise Overflow("div_ceil by zero")
                return -(-a // b)
            if nm == "next_multiple_of":
                if b == 0:
                    raise Overflow("next_multiple_of zero")
                return -(-a // b) * b
            if nm == "max":
                return max(a, b)
            if nm == "min":
                return min(a, b)
            if nm == "saturating_sub":
                return max(0, a - b)
            if nm == "wrapping_sub":
                return (a - b) % U64
    raise Unknown(mir.show(t)[:200])


def ev_atom(kind, args, env):
    if kind == "eq":
        return ev(args[0], env) == ev(args[1], env)
    if kind == "lt":
        a, b = ev(args[0], env), ev(args[1], env)
        if not isinstance(a, int) or not isinstance(b, int):
            raise Unknown("lt on non-int")
        return a < b
    if kind == "bool":
        v = ev(args[0], env)
        if isinstance(v, bool):
            return v
        if v in (0, 1):
            return bool(v)
        raise Unknown("bool on non-bool")
    if kind == "is_some":
        o = ev(args[0], env)
        if isinstance(o, tuple) and o[0] == "opt":
            return o[1] is not None
    raise Unknown(kind)
