"""Reviewed loops that act on outside state AND can be left before their iterator / condition is exhausted (pinned tree).
Everything else of that kind is reported: a `return` / `break` / `?` that slipped into a loop which has to visit every element
(notify every waiting child, announce every pair, send to every peer) silently drops the remaining elements.
key: root function (closures and the coroutine body folded in) -> (number of such loops, reason)"""

SELECT = "tokio::select! driver / main loop of a task: left only on shutdown (cancellation token) or a closed channel"
TABLE = {
    "<disseminator::rotor::sampling_strategy::TurbineSampler as disseminator::rotor::sampling_strategy::SamplingStrategy>::sample":
        (1, "rejection sampling: draws until a validator other than the excluded one is hit, then returns it"),
    "<network::udp::UdpNetwork<S, R> as network::Network>::receive": (1, "receive loop: returns the first datagram that decodes; undecodable ones are skipped (C19/C10)"),
    "consensus::Alpenglow::run": (1, SELECT),
    "consensus::block_producer::BlockProducer::block_production_loop": (2, SELECT + "; waits for the parent-ready / first-slot notification"),
    "consensus::block_producer::produce_slice_payload": (1, "fills a slice until the time or size budget is used up: leaving early IS the specification (O10.3 checks what is admitted)"),
    "consensus::block_producer::wait_for_first_slot": (2, SELECT + "; polls until the first slot's parent is known"),
    "consensus::votor::Votor::voting_loop": (1, SELECT),
    "disseminator::rotor::sampling_strategy::DecayingAcceptanceSampler::sample_one": (1, "rejection sampling with decaying acceptance (O17.6 checks the acceptance rule and the counter)"),
    "network::udp::UdpNetwork::recv_batch": (1, "socket receive loop: returns when a batch was read; retries on WouldBlock"),
    "network::udp::sendmmsg::send_to_many_linux": (1, "sendmmsg loop: propagates the first socket error"),
    "repair::Repair::repair_loop": (1, SELECT),
    "<execution::state::Iter<'a> as core::iter::traits::iterator::Iterator>::next": (1, "depth-first trie iterator: returns the next leaf found; the stack it pops from is its own"),
    "<network::simulated::SimulatedNetwork<S, R> as network::Network>::receive": (1, "receive loop: returns the first datagram that decodes"),
    "consensus::Alpenglow::message_loop": (1, SELECT + " (returns on a network error)"),
    "consensus::block_producer::BlockProducer::produce_block_parent_not_ready": (1, "slice loop of the leader's own block: returns when the last slice was produced / the slot's time is up"),
    "consensus::block_producer::BlockProducer::produce_block_parent_ready": (1, "slice loop of the leader's own block: returns when the last slice was produced / the slot's time is up"),
    "consensus::pool::finality_tracker::FinalityTracker::handle_implicitly_finalized":
        (1, "walk over the slots between an implicitly finalized ancestor and its child: `break` AT the child's slot is the range bound; O8.11 decides per displaced status what is reported"),
    "consensus::pool::parent_ready_tracker::ParentReadyTracker::mark_notar_fallback":
        (1, "forward scan across skip-certified slots: stopping at the first slot that is not skip-certified IS the rule (O7.11 checks exactly that)"),
    "consensus::pool::parent_ready_tracker::ParentReadyTracker::mark_skipped":
        (2, "backward scan bounded by the root / forward scan across skip-certified slots: the stop conditions are the rule (O7.2, O7.3, O7.11)"),
    "network::simulated::core::SimulatedNetworkCore::join": (1, "simulated link task: ends when the channel closes"),
    "network::simulated::core::SimulatedNetworkCore::join_unlimited": (1, "simulated link task: ends when the channel closes"),
}
