"""C19 — wire format: messages round-trip exactly and fit one datagram (structural part)."""
import math
import re

from engine import guards as G
from engine import mir
from . import common as K
from .common import A, fshort

EXPLANATION = (
    "Decides O19.1-O19.5: every Network::receive implementation decodes through network::deserialize, which is "
    "deserialize_exact with a preallocation cap equal to MTU_BYTES, and no non-test body calls a non-exact wincode "
    "deserializer; every ADT reachable from the five wire roots has both SchemaRead and SchemaWrite, derived on both sides "
    "or listed as hand-written; the hand-written reader/writer pairs agree on the ordered sequence of primitive "
    "reads/writes and size_of; bounded index types validate on read and read_bitvec rejects oversize bitmasks before "
    "building the BitVec; the worst-case encoded size of every wire root, computed over the type graph with the const-"
    "evaluated bounds (MAX_SIGNERS, MAX_DATA_PER_SHRED, log2 TOTAL_SHREDS, log2 MAX_SLICES_PER_BLOCK, "
    "MAX_TRANSACTION_SIZE), is <= MTU_BYTES; an unbounded field in a wire type fails closed. Byte-exact round trip for "
    "all values is trusted to the wincode derive and NOT decided."
)

NET = A + "network::"
ROOTS = [A + "consensus::ConsensusMessage", A + "shredder::Shred", A + "repair::RepairRequest", A + "repair::RepairResponse", A + "Transaction"]
HANDWRITTEN = {
    A + "crypto::aggsig::AggregateSignature": {"SchemaRead", "SchemaWrite"},
    A + "crypto::aggsig::IndividualSignature": {"SchemaRead", "SchemaWrite"},
    A + "types::slice_index::SliceIndex": {"SchemaRead"},
    A + "shredder::shred_index::ShredIndex": {"SchemaRead"},
}


# ------------------------------------------------------------------------------------ type strings
def split_top(s, sep=","):
    out, depth, cur = [], 0, ""
    for ch in s:
        if ch in "<([":
            depth += 1
        elif ch in ">)]":
            depth -= 1
        if ch == sep and depth == 0:
            out.append(cur.strip())
            cur = ""
        else:
            cur += ch
    if cur.strip():
        out.append(cur.strip())
    return out


PRIM = {"u8": 1, "i8": 1, "bool": 1, "u16": 2, "i16": 2, "u32": 4, "i32": 4, "u64": 8, "i64": 8, "usize": 8, "isize": 8, "u128": 16, "i128": 16, "f64": 8, "f32": 4}


class SizeCalc:
    def __init__(self, prog, consts, ob):
        self.prog = prog
        self.c = consts
        self.ob = ob
        self.visited = []
        self.unbounded = []
        # variable-length fields: (adt, field) -> (max elements, justification)
        self.bounds = {
            (A + "shredder::ShredPayload", "data"): (consts["MAX_DATA_PER_SHRED"], "shard size <= MAX_DATA_PER_SHRED: ReedSolomonCoder::shred refuses payloads > MAX_DATA_PER_SLICE = DATA_SHREDS*MAX_DATA_PER_SHRED - 1 (C11 O11.1/O11.3)"),
            (A + "crypto::merkle::SliceProof", "0"): (int(math.log2(consts["TOTAL_SHREDS"])), "slice Merkle tree has TOTAL_SHREDS leaves: proof length log2(TOTAL_SHREDS)"),
            (A + "crypto::merkle::DoubleMerkleProof", "0"): (int(math.log2(consts["MAX_SLICES_PER_BLOCK"])), "double Merkle tree has <= MAX_SLICES_PER_BLOCK leaves: proof length <= log2(MAX_SLICES_PER_BLOCK)"),
            (A + "Transaction", "0"): (consts["MAX_TRANSACTION_SIZE"], "transactions above MAX_TRANSACTION_SIZE are dropped by the block producer (C10 O10.3)"),
        }
        # hand-written encodings
        self.special = {
            A + "crypto::aggsig::IndividualSignature": (consts["UNCOMPRESSED_SIG_SIZE"], "UNCOMPRESSED_SIG_SIZE"),
            A + "crypto::aggsig::AggregateSignature": (consts["UNCOMPRESSED_SIG_SIZE"] + 8 + 8 + 8 * math.ceil(consts["MAX_SIGNERS"] / 64), "sig + num_bits + word count + ceil(MAX_SIGNERS/64) words (bitvec_size, read_bitvec bound)"),
            A + "crypto::signature::Signature": (64, "Ed25519 signature (pod wrapper)"),
            A + "types::slice_index::SliceIndex": (8, "usize"),
            A + "shredder::shred_index::ShredIndex": (8, "usize"),
        }

    def size(self, ty, ctx=("", "")):
        ty = ty.strip()
        if ty in PRIM:
            return PRIM[ty]
        if ty.startswith("&"):
            return self.size(ty.lstrip("&").strip(), ctx)
        if ty.startswith("(") and ty.endswith(")"):
            inner = ty[1:-1].strip()
            if not inner:
                return 0
            return sum(self.size(t, ctx) for t in split_top(inner))
        m = re.match(r"^\[(.+); (\d+)\]$", ty)
        if m:
            return int(m.group(2)) * self.size(m.group(1), ctx)
        m = re.match(r"^\[(.+); (.+)\]$", ty)
        if m:
            n = self.c.get(m.group(2).rsplit("::", 1)[-1])
            if n is not None:
                return n * self.size(m.group(1), ctx)
        m = re.match(r"^core::option::Option<(.+)>$", ty)
        if m:
            return 1 + self.size(m.group(1), ctx)
        m = re.match(r"^alloc::vec::Vec<(.+)>$", ty)
        if m:
            b = self.bounds.get(ctx)
            if b is None:
                self.unbounded.append((ctx, ty))
                return 10 ** 9
            return 8 + b[0] * self.size(m.group(1), ctx)
        base = mir.strip_generics(ty.split("<")[0])
        if base in self.special:
            return self.special[base][0]
        r = self.prog.adts.get(base)
        if r is not None:
            if base not in self.visited:
                self.visited.append(base)
            sizes = []
            for v in r["variants"]:
                s = 0
                for f in v["fields"]:
                    s += self.size(f["ty"], (base, f["name"]))
                sizes.append(s)
            if r["is_enum"]:
                return 4 + (max(sizes) if sizes else 0)
            return sizes[0] if sizes else 0
        self.unbounded.append((ctx, ty))
        return 10 ** 9

    def min_size(self, ty):
        """smallest encoding of a value of the type (empty vectors, None options, smallest enum variant)"""
        ty = ty.strip()
        if ty in PRIM:
            return PRIM[ty]
        if ty.startswith("&"):
            return self.min_size(ty.lstrip("&").strip())
        if ty.startswith("(") and ty.endswith(")"):
            inner = ty[1:-1].strip()
            return sum(self.min_size(t) for t in split_top(inner)) if inner else 0
        m = re.match(r"^\[(.+); (\d+)\]$", ty)
        if m:
            return int(m.group(2)) * self.min_size(m.group(1))
        if re.match(r"^core::option::Option<(.+)>$", ty):
            return 1
        if re.match(r"^alloc::vec::Vec<(.+)>$", ty):
            return 8
        base = mir.strip_generics(ty.split("<")[0])
        if base in self.special:
            return self.special[base][0]
        r = self.prog.adts.get(base)
        if r is not None:
            sizes = [sum(self.min_size(f["ty"]) for f in v["fields"]) for v in r["variants"]]
            if r["is_enum"]:
                return 4 + (min(sizes) if sizes else 0)
            return sizes[0] if sizes else 0
        return 0

    def reach(self, root):
        """ADTs reachable from root through field types"""
        seen = []
        stack = [root]
        while stack:
            a = stack.pop()
            if a in seen:
                continue
            seen.append(a)
            r = self.prog.adts.get(a)
            if not r:
                continue
            for v in r["variants"]:
                for f in v["fields"]:
                    for m in re.finditer(r"alpenglow::[A-Za-z0-9_:]+", f["ty"]):
                        p = m.group(0)
                        if p in self.prog.adts:
                            stack.append(p)
        return seen


def io_sequence(prog, body, side):
    """ordered primitive reader / writer operations of a hand-written impl body: list of ('bytes', n) / ('ty', T) / ('fn', name)"""
    out = []
    for c in sorted(body.calls(), key=lambda c: c.bb):
        nm = c.name
        if side == "read":
            if nm.endswith("Reader::take_borrowed") or nm.endswith("::take_borrowed"):
                t = K.peel(body.operand_term(c.args[1]))
                out.append(("bytes", t[2] if t[0] == "const" else mir.show(t)))
            elif nm.endswith("SchemaRead::get") or nm.endswith("::get") and "SchemaRead" in c.callee_args:
                out.append(("ty", norm_seq_ty(c.targs[0] if c.targs else "?")))
            elif nm.endswith("copy_into_t"):
                out.append(("ty", "usize"))
            elif nm.endswith("read_bitvec"):
                out.append(("fn", "bitvec"))
        else:
            if nm.endswith("SchemaWrite::write") or (nm.endswith("::write") and "SchemaWrite" in c.callee_args):
                out.append(("ty", norm_seq_ty(c.targs[0] if c.targs else "?")))
            elif nm.endswith("Writer::write") or (nm.endswith("::write") and "io::Writer" in c.callee_args):
                t = body.operand_term(c.args[1])
                n = None
                if K.mentions_call(t, "::serialize"):
                    n = "sig"
                out.append(("bytes", n or mir.show(t)[:30]))
            elif nm.endswith("write_bitvec"):
                out.append(("fn", "bitvec"))
    return out


def norm_seq_ty(t):
    t = t.strip()
    m = re.match(r"^alloc::vec::Vec<(.+)>$", t)
    if m:
        return "[%s]" % m.group(1)
    return t


def wire_consts(prog):
    consts = {}
    for nm, path in (("MTU_BYTES", NET + "MTU_BYTES"), ("MAX_DATA_PER_SHRED", A + "shredder::MAX_DATA_PER_SHRED"), ("TOTAL_SHREDS", A + "shredder::TOTAL_SHREDS"),
                     ("MAX_SLICES_PER_BLOCK", A + "types::slice_index::MAX_SLICES_PER_BLOCK"), ("MAX_SIGNERS", A + "crypto::aggsig::MAX_SIGNERS"),
                     ("UNCOMPRESSED_SIG_SIZE", A + "crypto::aggsig::UNCOMPRESSED_SIG_SIZE"), ("MAX_TRANSACTION_SIZE", A + "MAX_TRANSACTION_SIZE"),
                     ("MAX_MERKLE_TREE_HEIGHT", A + "crypto::merkle::MAX_MERKLE_TREE_HEIGHT"), ("MAX_DATA_PER_SLICE", A + "shredder::MAX_DATA_PER_SLICE")):
        consts[nm] = prog.const_int(path)
    return consts


SUPPORTED_MAX_SIGNERS = 2048     # property C19: "all signer subsets and validator counts 1..=2048"
SIZE_LIMITS = ("MAX_SIGNERS", "MTU_BYTES", "MAX_DATA_PER_SLICE", "MAX_TRANSACTION_SIZE", "MAX_DATA_PER_SHRED", "MAX_DATA_PER_SLICE_AFTER_PADDING")


def ob_limits_inclusive(run, oid):
    """the size limits are inclusive maxima: a value EQUAL to the limit is in range at every place that compares against it"""
    prog = run.program("lib")
    o = run.ob(oid, "every comparison of a length / count with a size limit (MTU_BYTES, MAX_SIGNERS, MAX_DATA_PER_SLICE, MAX_TRANSACTION_SIZE, ..) has an inclusive form: `x <= LIMIT` / `x > LIMIT`",
               "sender and receiver must agree on the boundary: the send paths admit `len <= MTU_BYTES`, the decoder admits MAX_SIGNERS bits - a `<` / `>=` elsewhere refuses "
               "(or panics on) a maximal message that the other side rightly produced", floor=3)

    def lim(y):
        if isinstance(y, tuple) and y:
            if y[0] == "cref" and y[1].rsplit("::", 1)[-1] in SIZE_LIMITS:
                return y[1].rsplit("::", 1)[-1]
            if y[0] == "const" and len(y) > 3 and str(y[3]).rsplit("::", 1)[-1] in SIZE_LIMITS:
                return str(y[3]).rsplit("::", 1)[-1]
        return None
    n = 0
    for d, b in sorted(prog.bodies.items()):
        if b.generated or "::tests::" in d or not d.startswith(A):
            continue
        seen = set()
        for bl in b.blocks:
            t = bl["term"]
            if t["k"] != "switch":
                continue
            for y in mir.walk(b.operand_term(t["d"])):
                if isinstance(y, tuple) and y and y[0] == "bin" and y[1] in ("Lt", "Le", "Gt", "Ge"):
                    l, r = lim(K.peel(y[2])), lim(K.peel(y[3]))
                    if not (l or r) or (l and r):
                        continue
                    key = (y[1], "L" if l else "R", l or r)
                    if key in seen:
                        continue
                    seen.add(key)
                    n += 1
                    incl = (r and y[1] in ("Le", "Gt")) or (l and y[1] in ("Ge", "Lt"))
                    o.check(bool(incl), "%s|%s|%s" % (fshort(d), l or r, "inclusive"), "%s compares with %s inclusively (%s)" % (fshort(d), l or r, y[1]), b.span, {"comparison": mir.show(y)[:100]},
                            fail_what="%s treats a value equal to %s as out of range (%s)" % (fshort(d), l or r, mir.show(y)[:80]))
    if n == 0:
        o.missing("comparisons against the size limits")
    return o


def check(run, prefix="O19"):
    # the signer bitmask's raw words are an encoding detail: only the encoder / decoder / size function look at them (a decoder-side test on
    # raw words that the encoder does not mirror rejects the node's own encodings)
    from . import C09 as _C09
    _C09.ob_bitmask_access(run, prefix + ".9")
    ob_limits_inclusive(run, prefix + ".11")
    from . import detectors as _DN
    _DN.ob_new_fields(run, prefix + ".8", ['network::', 'crypto::aggsig', 'crypto::signature'], 'decoders and the network front ends are stateless per datagram')
    from . import detectors as _DS
    _DS.ob_structural_impls(run, prefix + ".7", ['crypto::', 'types::', 'consensus::vote', 'consensus::cert', 'shredder::', 'repair::'], "round trip is stated with the types' own equality; decoders of bounded indices rely on the order of the index types")
    P = prefix
    prog = run.program("lib")
    consts = wire_consts(prog)

    # ------------------------------------------------------------------ O19.1
    o = run.ob(P + ".1", "single exact decoding door with an MTU-capped preallocation limit",
               "a non-exact decoder accepts trailing bytes; an uncapped preallocation lets one datagram allocate gigabytes", floor=4)
    b = prog.body(NET + "deserialize")
    if b is None:
        o.missing("network::deserialize")
    else:
        cs = [c for c in b.calls() if "deserialize" in c.name]
        ok = len(cs) == 1 and cs[0].name.endswith("deserialize_exact") and cs[0].dst["l"] == 0
        o.check(ok, "network::deserialize|exact", "network::deserialize = wincode deserialize_exact", b.span, {"calls": [c.name for c in cs]})
        cfg = " ".join(c.callee_args for c in b.calls())
        m = re.search(r"Configuration<true, (\d+)", cfg)
        o.check(bool(m) and int(m.group(1)) == consts["MTU_BYTES"], "network::deserialize|prealloc-cap", "preallocation limit of the decoder config == MTU_BYTES (%s)" % consts["MTU_BYTES"], b.span, {"config": m.group(0) if m else None})
    # the other decoders - of data that arrives inside validated shreds, not as a datagram - must admit everything a slice may carry: their
    # preallocation limit is the slice limit, not the datagram limit (wincode charges len * size_of::<T>() against it before reading)
    slice_max = consts.get("MAX_DATA_PER_SLICE")
    # (in-memory size of one element, fewest encoded bytes of one element) of the sequence each decoder reads: Transaction = Vec<u8> newtype (3 words; its
    # encoding is at least the 8-byte length prefix), payload data = bytes
    ELEM = {"the transaction list of a slice": (24, 8), "a slice payload": (1, 1)}
    for fn, what in ((A + "consensus::blockstore::slot_block_data::BlockData::try_reconstruct_block", "the transaction list of a slice"),
                     ("<" + A + "types::slice::SlicePayload as core::convert::TryFrom<&[u8]>>::try_from", "a slice payload")):
        fb = prog.body(fn)
        if fb is None:
            o.missing(fn)
            continue
        ds = [c for c in fb.calls() if "deserialize" in c.name and (c.name.startswith("wincode::") or c.name.startswith(NET))]
        m2 = re.search(r"Configuration<true, (\d+)", " ".join(c.callee_args for c in ds))
        ok = len(ds) == 1 and ds[0].name.endswith("deserialize_exact") and ds[0].name.startswith("wincode::") and bool(m2) and slice_max is not None and int(m2.group(1)) >= slice_max
        o.check(ok, "%s|slice-decoder-limit" % fshort(fn), "%s is decoded exactly, with a preallocation limit >= MAX_DATA_PER_SLICE (%s)" % (what, slice_max), ds[0].span if ds else fb.span,
                {"calls": [c.name for c in ds], "limit": m2.group(1) if m2 else None})
        if ok:
            mem, enc = ELEM[what]
            need = (slice_max // enc) * mem
            o.check(int(m2.group(1)) >= need, "%s|slice-decoder-admits-max-count" % fshort(fn),
                    "the limit (%s) covers the in-memory size of the largest element count a slice can encode: (MAX_DATA_PER_SLICE / %d) * %d = %d" % (m2.group(1), enc, mem, need),
                    ds[0].span, {"limit": int(m2.group(1)), "needed": need},
                    fail_what="the preallocation limit %s is charged count * %d bytes but a slice can encode up to %d elements of >= %d bytes: a correct leader's slice with more than %d "
                              "small elements is undecodable (needed: %d)" % (m2.group(1), mem, slice_max // enc, enc, int(m2.group(1)) // mem, need))
    recv = [x for d, x in prog.bodies.items() if d.endswith("Network>::receive") and d.startswith("<" + NET)]
    if len(recv) < 2:
        o.missing("Network::receive impls (UdpNetwork, SimulatedNetwork)")
    for x in recv:
        U = prog.reachable_from([x.defpath])
        o.check(NET + "deserialize" in U, "%s|through-door" % fshort(x.defpath), "%s decodes through network::deserialize" % fshort(x.defpath), x.span)
    nonexact = []
    for d, x in prog.bodies.items():
        if x.generated:
            continue
        for c in x.calls():
            if c.name.startswith("wincode::") and "deserialize" in c.name and not c.name.endswith("deserialize_exact"):
                nonexact.append((fshort(d), c.name, c.span))
    o.check(not nonexact, "no-non-exact-decoder", "no body calls a non-exact wincode deserializer", "", {"sites": nonexact})

    # ------------------------------------------------------------------ O19.2
    o = run.ob(P + ".2", "every type reachable from the wire roots has both SchemaRead and SchemaWrite; derived on both sides or listed as hand-written",
               "a one-sided or hand-written-on-one-side encoding is where writer and reader silently diverge", floor=25)
    calc = SizeCalc(prog, consts, o)
    have = {}
    for im in prog.impls:
        tr = im.get("trait", "")
        if tr.endswith("SchemaRead") or tr.endswith("SchemaWrite"):
            key = im.get("self_adt")
            if key:
                have.setdefault(key, {})[tr.rsplit("::", 1)[-1]] = bool(im["derived"] or im.get("macro_generated"))
    graph = []
    for r in ROOTS:
        if r not in prog.adts:
            o.missing("wire root " + r)
            continue
        for a in calc.reach(r):
            if a not in graph:
                graph.append(a)
    for a in graph:
        h = have.get(a, {})
        both = "SchemaRead" in h and "SchemaWrite" in h
        o.check(both, "%s|both-sides" % fshort(a), "%s implements SchemaRead and SchemaWrite" % fshort(a), prog.adts[a]["span"], {"impls": sorted(h)})
        if both:
            hw = set(k for k, derived in h.items() if not derived)
            o.check(hw == HANDWRITTEN.get(a, set()), "%s|derived-or-listed" % fshort(a), "hand-written sides of %s are exactly the reviewed ones %s" % (fshort(a), sorted(HANDWRITTEN.get(a, set())) or "(none: derived)"),
                    prog.adts[a]["span"], {"hand_written": sorted(hw)})

    # ------------------------------------------------------------------ O19.3
    o = run.ob(P + ".3", "hand-written reader/writer pairs agree on the ordered primitive sequence and size_of",
               "a reader consuming another sequence than the writer produced mis-decodes every message carrying the type", floor=6)
    def impl_body(adt, trait, method):
        for d, x in prog.bodies.items():
            if d.startswith("<" + adt + " as wincode::") and trait in d and d.endswith("::" + method):
                return x
        return None
    for adt, nm in ((A + "crypto::aggsig::IndividualSignature", "IndividualSignature"), (A + "crypto::aggsig::AggregateSignature", "AggregateSignature")):
        rb, wb, sb = impl_body(adt, "SchemaRead", "read"), impl_body(adt, "SchemaWrite", "write"), impl_body(adt, "SchemaWrite", "size_of")
        if not (rb and wb and sb):
            o.missing("hand-written impls of " + nm)
            continue
        rs, ws = io_sequence(prog, rb, "read"), io_sequence(prog, wb, "write")
        def shape(seq):
            return [(k, (consts["UNCOMPRESSED_SIG_SIZE"] if (k == "bytes") else v)) for k, v in seq]
        ok = shape(rs) == shape(ws) and len(rs) >= 1 and rs[0][0] == "bytes" and rs[0][1] == consts["UNCOMPRESSED_SIG_SIZE"]
        o.check(ok, "%s|sequence" % nm, "%s: read sequence == write sequence (%s)" % (nm, " ; ".join("%s:%s" % x for x in shape(rs))), rb.span, {"read": rs, "write": ws})
        # the writer's byte chunk is the 96-byte serialisation of the signature
        o.check(any(K.mentions_call(wb.operand_term(c.args[1]), "::serialize") for c in wb.calls() if len(c.args) > 1), "%s|write-serialize" % nm, "the bytes written are sig.serialize() (UNCOMPRESSED_SIG_SIZE)", wb.span)
        rets = [sb.rvalue_term(d[3]["rv"]) for d in sb.defs().get(0, []) if d[0] == "stmt"]
        ok = bool(rets) and all(any(x[0] == "const" and x[2] == consts["UNCOMPRESSED_SIG_SIZE"] for x in mir.consts_in(t)) for t in rets)
        if nm == "AggregateSignature":
            ok = ok and any(K.mentions_call(t, "bitvec_size") for t in rets)
        o.check(ok, "%s|size_of" % nm, "size_of = UNCOMPRESSED_SIG_SIZE%s" % (" + bitvec_size(bitmask)" if nm == "AggregateSignature" else ""), sb.span)
    rbv, wbv, sbv = prog.body(A + "crypto::aggsig::read_bitvec"), prog.body(A + "crypto::aggsig::write_bitvec"), prog.body(A + "crypto::aggsig::bitvec_size")
    if not (rbv and wbv and sbv):
        o.missing("read_bitvec / write_bitvec / bitvec_size")
    else:
        rs, ws = io_sequence(prog, rbv, "read"), io_sequence(prog, wbv, "write")
        o.check(rs == ws == [("ty", "usize"), ("ty", "[usize]")], "bitvec|sequence", "bitmask: usize bit count, then the usize words (same on both sides)", rbv.span, {"read": rs, "write": ws})
        t = [sbv.rvalue_term(d[3]["rv"]) for d in sbv.defs().get(0, []) if d[0] == "stmt"]
        ints = sorted(x[2] for tt in t for x in mir.consts_in(tt) if x[0] == "const" and isinstance(x[2], int))
        o.check(ints == [8, 8, 8] or ints[:3] == [8, 8, 8], "bitvec|size", "bitvec_size = 8 + 8 + 8 * words", sbv.span, {"consts": ints})
        wl = [c for c in wbv.calls() if c.name.endswith("SchemaWrite::write") or c.name.endswith("::write")]
        ok = len(wl) >= 2 and K.mentions_call(wbv.operand_term(wl[0].args[1]), "::len") and K.mentions_call(wbv.operand_term(wl[1].args[1]), "as_raw_slice")
        o.check(ok, "bitvec|write-values", "writes bitmask.len() then bitmask.as_raw_slice()", wbv.span)
    for adt, nm, mx in ((A + "types::slice_index::SliceIndex", "SliceIndex", consts["MAX_SLICES_PER_BLOCK"]), (A + "shredder::shred_index::ShredIndex", "ShredIndex", consts["TOTAL_SHREDS"])):
        r = prog.adts.get(adt)
        ok = r is not None and len(r["variants"]) == 1 and [f["ty"] for f in r["variants"][0]["fields"]] == ["usize"]
        o.check(ok, "%s|newtype-usize" % nm, "%s is a single-field usize newtype (raw copy on read == derived usize write)" % nm, r["span"] if r else "")
        rb = impl_body(adt, "SchemaRead", "read")
        if rb is None:
            o.missing(nm + " SchemaRead::read")
            continue
        rs = io_sequence(prog, rb, "read")
        o.check(rs == [("ty", "usize")], "%s|read-sequence" % nm, "%s::read consumes exactly one usize" % nm, rb.span, {"read": rs})

    # ------------------------------------------------------------------ O19.4
    o = run.ob(P + ".4", "bounded indices validate on read; read_bitvec bounds bit count and word count before building the BitVec",
               "an out-of-range index decoded from the wire indexes fixed-size arrays (panic); an oversize bitmask allocates/iterates unboundedly", floor=5)
    for adt, nm, mx in ((A + "types::slice_index::SliceIndex", "SliceIndex", consts["MAX_SLICES_PER_BLOCK"]), (A + "shredder::shred_index::ShredIndex", "ShredIndex", consts["TOTAL_SHREDS"])):
        rb = impl_body(adt, "SchemaRead", "read")
        if rb is None:
            continue
        oks = [(bb, sp) for (bb, rv, sp, dst) in rb.aggregates("core::result::Result", "Ok") if dst["l"] == 0]
        good = bool(oks)
        for (bb, sp) in oks:
            g = [a for a in G.guard_atoms(rb, bb, prog) if a[0] == "lt" and a[2] is True and any(K.peel(x)[0] == "const" and K.peel(x)[2] == mx for x in a[1][1:])]
            good = good and bool(g)
        o.check(good, "%s::read|bounded" % nm, "%s::read returns Ok only for values < %d" % (nm, mx), rb.span)
        nb = prog.body(adt + "::new")
        if nb is not None:
            oks = [(bb, sp) for (bb, rv, sp, dst) in nb.aggregates("core::option::Option", "Some") if dst["l"] == 0]
            good = bool(oks) and all(any(a[0] == "lt" and a[2] is True and any(K.peel(x)[0] == "const" and K.peel(x)[2] == mx for x in a[1][1:]) for a in G.guard_atoms(nb, bb, prog)) for (bb, sp) in oks)
            o.check(good, "%s::new|bounded" % nm, "%s::new returns Some only for values < %d" % (nm, mx), nb.span)
    if rbv is not None:
        tfv = [c for c in rbv.calls() if c.name.endswith("try_from_vec")]
        o.check(len(tfv) == 1, "read_bitvec|builds-once", "BitVec built once", rbv.span)
        for c in tfv:
            atoms = G.guard_atoms(rbv, c.bb, prog)
            g1 = [a for a in atoms if a[0] == "lt" and a[2] is False and any(K.mentions_call(x, "div_ceil") for x in a[1]) and any(K.mentions_call(x, "::len") for x in a[1])]
            g2 = [a for a in atoms if a[0] == "lt" and a[2] is False and any(K.mentions_call(x, "SchemaRead::get") and not K.mentions_call(x, "::len") for x in a[1])]
            o.check(bool(g1), "read_bitvec|word-bound", "word count <= ceil(max_bits / usize::BITS) before the BitVec is built", c.span, {"guards": G.atoms_show(atoms)[:6]})
            o.check(bool(g2), "read_bitvec|bit-bound", "num_bits <= words * usize::BITS before the BitVec is built", c.span)
        callers = prog.callers_of(A + "crypto::aggsig::read_bitvec")
        ok = bool(callers) and all(K.peel(c.body.operand_term(c.args[1]))[0] == "const" and K.peel(c.body.operand_term(c.args[1]))[2] == consts["MAX_SIGNERS"] for c in callers)
        o.check(ok, "read_bitvec|max-signers", "read_bitvec is called with MAX_SIGNERS (%s)" % consts["MAX_SIGNERS"], callers[0].span if callers else "")
        # the bound is a COUNT of signers: the property quantifies over validator sets of 1..=2048, so a bitmask of exactly 2048 bits has to decode
        # (an index-style bound of 2047 hides behind the word rounding until a bit-exact comparison is added)
        o.check(consts["MAX_SIGNERS"] >= SUPPORTED_MAX_SIGNERS, "MAX_SIGNERS|admits-supported-maximum",
                "MAX_SIGNERS (evaluated: %s) admits the supported maximum of %d signers" % (consts["MAX_SIGNERS"], SUPPORTED_MAX_SIGNERS), callers[0].span if callers else "")

    # explicit wire-schema overrides in derived impls (`#[wincode(with = ..)]` with a bounded length / container schema): a bound
    # has to admit everything the sender may emit; none is used on the reviewed tree, any new one must be reviewed here
    import re as _re
    REVIEWED_SCHEMAS = {}      # schema type string -> (max elements it must admit, reason)
    found = {}
    for r_ in prog.anon_bodies:
        for bl in r_["blocks"]:
            t_ = bl["term"]
            if t_["k"] == "call":
                for m_ in _re.finditer(r"wincode::(?:len|containers)::[A-Za-z0-9_]+(?:<[^()]*?>)?", t_.get("callee_args", "")):
                    found.setdefault(m_.group(0)[:120], r_.get("span", ""))
    for sch, sp_ in sorted(found.items()):
        o.check(sch in REVIEWED_SCHEMAS, "schema-override|%s" % sch, "explicit wire schema %s in a derived impl is reviewed (its length bound admits every value the sender emits)" % sch, sp_)
    o.ok("schema-override|scan", "%d derive-generated wire impl bodies scanned for explicit length / container schemas (%d found)" % (len(prog.anon_bodies), len(found)), "", nontrivial=False)
    # ... and no field left out of the encoding (`#[wincode(skip)]`): the derived writer of a struct reads every field of it; a skipped
    # field comes back as its default on the other side and the value no longer round-trips
    nstruct = 0
    for r_ in prog.anon_bodies:
        d_ = r_["def"]
        m_ = _re.search(r"<impl wincode::schema::SchemaWrite<[^>]*> for ([A-Za-z0-9_:]+)>::write$", d_)
        if not m_:
            continue
        adt = prog.adts.get(m_.group(1))
        if adt is None or adt.get("is_enum"):
            continue
        nstruct += 1
        wb = mir.Body(r_)
        rd = set(n_ for (_bb, ow_, n_, _sp) in wb.field_reads() if ow_ == m_.group(1))
        allf = set(f_["name"] for f_ in adt["variants"][0]["fields"])
        o.check(allf <= rd, "derived-writer|%s|all-fields" % fshort(m_.group(1)), "the derived encoder of %s writes every field" % fshort(m_.group(1)), r_.get("span", ""), {"not_written": sorted(allf - rd)})
    o.check(nstruct >= 20, "derived-writer|structs", "%d derived struct encoders examined" % nstruct, "")

    # the one hand-rolled encoder outside the derive: the slice's transaction list (count prefix patched in by the block producer)
    if P == "O19":
        from . import C10
        C10.ob_sanitise_tx(run, P + ".6")

    # ------------------------------------------------------------------ O19.5
    ob = run.ob(P + ".10", "the UDP receive buffer holds a whole datagram of the size the send side admits (RECEIVE_BUFFER_SIZE >= MTU_BYTES)",
                "the senders admit messages up to MTU_BYTES; a shorter receive buffer lets the kernel truncate an honest message (it then fails the exact decoder and is "
                "dropped) and cuts trailing bytes off a padded one (which is then accepted)", floor=1)
    rbs = prog.const_int(NET + "udp::RECEIVE_BUFFER_SIZE")
    if rbs is None or consts.get("MTU_BYTES") is None:
        ob.missing("const network::udp::RECEIVE_BUFFER_SIZE / network::MTU_BYTES")
    else:
        ob.check(rbs >= consts["MTU_BYTES"], "RECEIVE_BUFFER_SIZE|covers-mtu", "RECEIVE_BUFFER_SIZE (%d) >= MTU_BYTES (%d)" % (rbs, consts["MTU_BYTES"]), "", {"value": rbs})
    o = run.ob(P + ".5", "worst-case encoded size of every wire root <= MTU_BYTES",
               "a message above the MTU trips the send-side assertion (panic) or is truncated/dropped by the network", floor=5)
    for r in ROOTS:
        if r not in prog.adts:
            continue
        calc.unbounded = []
        n = calc.size(r)
        if calc.unbounded:
            o.fail("%s|unbounded" % fshort(r), "unbounded field(s) in the wire type graph of %s: %s (add a reviewed bound or fix the type)" % (fshort(r), calc.unbounded[:3]), prog.adts[r]["span"])
            continue
        o.check(n <= consts["MTU_BYTES"], "%s|fits" % fshort(r), "max encoded size of %s = %d bytes <= MTU_BYTES (%d)" % (fshort(r), n, consts["MTU_BYTES"]), prog.adts[r]["span"], {"max_bytes": n})
    run.notes.append("O19.5 bounds used: " + "; ".join("%s.%s <= %d (%s)" % (fshort(k[0]), k[1], v[0], v[1]) for k, v in calc.bounds.items()))
    # send side asserts (a violated budget would be a reachable panic): both networks check <= MTU_BYTES before sending
    for d, x in prog.bodies.items():
        if d.endswith("send_serialized::{closure#0}") or d.endswith("::send_serialized"):
            g = None
            for c in x.calls():
                pass
            ok = any(a for bl in x.blocks for a in [bl["term"]] if a["k"] == "switch" and K.mentions(x.operand_term(a["d"]), lambda t: t[0] == "const" and t[2] == consts["MTU_BYTES"]))
            if x.is_closure or not x.rec.get("asyncness"):
                o.check(ok, "%s|send-assert" % fshort(d), "send path compares the encoded length with MTU_BYTES", x.span)
