"""C13 — blockstore rebuilds exactly the disseminated block, once, and flags bad ones (structural part)."""
from engine import guards as G
from engine import mir
from . import common as K
from . import detectors as D
from .common import A, fshort

EXPLANATION = (
    "Decides O13.1-O13.5: once-only flags (leader_misbehaved written only by mark_leader_misbehaved under its false edge; "
    "InvalidBlock emitted only under its true result; dissemination ingest only while the flag is false; `completed` "
    "written only in try_reconstruct_block, which like try_reconstruct_slice returns early when it is already set); the "
    "malformed-content gates that dominate `completed = Some(..)` or guard the parent switch (all slices present, first "
    "slice has a parent, parent not switched to itself / twice, transactions decode, parent slot < block slot for the "
    "initial and the switched parent); block hash = root of the double-Merkle tree over the slices' roots; the leader's "
    "fast path goes through the same reconstruction; Pool::add_block is only ever called with (slot, block_info.hash), "
    "block_info.parent of a BlockInfo returned by the blockstore. Does NOT decide order/duplication independence."
)

BS = A + "consensus::blockstore::"
SBD = BS + "slot_block_data::"
BD = SBD + "BlockData"
SLOTBD = SBD + "SlotBlockData"
IMPL = "<" + BS + "BlockstoreImpl as " + BS + "Blockstore>::"


def ob_last_slice_prune(run, oid):
    """supports the reviewed invariant 'slices.len() == last+1 implies slices 0..=last are present'"""
    prog = run.program("lib")
    o = run.ob(oid, "learning the last slice drops every stored slice and shred beyond it, and later slices beyond it are refused",
               "a stale slice beyond the last marker makes slices.len() == last+1 hold without slice 0: try_reconstruct_block's expect() panics under the blockstore lock (contradictory last-slice flags from a Byzantine leader)", floor=3)
    b = prog.body(BD + "::mark_last_slice")
    if b is None:
        o.missing("BlockData::mark_last_slice")
        return
    for fld in ("slices", "shreds"):
        rt = [c for c in b.calls() if c.name.endswith("::retain") and K.is_field(b.operand_term(c.args[0]), fld, "BlockData")]
        ok = len(rt) == 1 and b.always_followed_by(0, [rt[0].bb])
        if ok:
            cl = b.operand_term(rt[0].args[1])
            caps = dict(cl[2]) if cl[0] == "closure" else {}
            ok = any(K.is_arg(b, t, 2) or K.mentions_arg(b, t, 2) for t in caps.values())
            cb = prog.bodies.get(cl[1]) if cl[0] == "closure" else None
            ok = ok and cb is not None and any(c.name.rsplit("::", 1)[-1] in ("le", "lt", "ge", "gt") for c in cb.calls())
        o.check(bool(ok), "mark_last_slice|%s.retain" % fld, "every path through mark_last_slice retains only %s with index <= the last slice" % fld, b.span)
    w = K.writes_of_field(b, "BlockData", "last_slice")
    o.check(len(w) == 1, "mark_last_slice|sets-last", "mark_last_slice records the last slice index", b.span)
    ws = K.all_field_writers(prog, BD).get("last_slice", {})
    o.check(set(x.rsplit("::", 1)[-1] for x in ws) <= {"mark_last_slice", "new"}, "last_slice|writers", "last_slice is written only by mark_last_slice", "", {"writers": [fshort(x) for x in ws]})
    ab = prog.body(BD + "::add_shred")
    if ab is not None:
        # a shred for a slice beyond a known last slice is refused before it is stored
        stores = []
        for (bb, i, dst, rv, sp) in ab.assignments():
            t = ab.rvalue_term(rv)
            if t[0] == "agg" and t[1] == "core::option::Option" and t[2] == "Some" and K.is_arg(ab, dict(t[3])["0"], 2) and dst["p"]:
                stores.append((bb, sp))
        for (sbb, ssp) in stores:
            sws = [s_ for (s_, dterm, dty) in ab.switches() if isinstance(dterm, tuple) and dterm[0] == "discr" and K.is_field(dterm[1], "last_slice", "BlockData") and ab.dominates(s_, sbb)]
            o.check(bool(sws), "add_shred|store|last-slice-consulted", "the known last slice is consulted before a shred is stored", ssp)
        # D26: ... and the other arrival order: the FIRST last-slice marker is refused (Equivocation) when a slice beyond it is already stored,
        # instead of the stored slice being pruned silently (contradictory last-slice markers are reported in every placement)
        AE = SBD + "AddShredError"
        hits = []
        for (bb, rv, sp, dst) in ab.aggregates(AE):
            if rv.get("variant") != "Equivocation":
                continue
            atoms = G.guard_atoms(ab, bb, prog)
            no_last = any(a[0] == "is_some" and a[2] is False and K.is_field(a[1][0], "last_slice", "BlockData") for a in atoms)
            stored = [a for a in atoms if a[0] in ("bool", "is_some", "lt", "le", "gt", "ge") and not (a[0] == "is_some" and K.is_field(a[1][0], "last_slice", "BlockData")) and
                      any(isinstance(x, tuple) and any(K.mentions_field(x, f, "BlockData") for f in ("shreds", "slices", "commitment_cache")) for x in a[1])]
            if no_last and stored:
                cmp_ok = False
                for a in stored:
                    if a[0] in ("lt", "le", "gt", "ge"):
                        cmp_ok = True
                    for x in a[1]:
                        for y in (mir.walk(x) if isinstance(x, tuple) else []):
                            if isinstance(y, tuple) and y and y[0] == "closure":
                                for cb in prog.family(y[1]):
                                    if any(c.name.rsplit("::", 1)[-1] in ("lt", "le", "gt", "ge") for c in cb.calls()):
                                        cmp_ok = True
                            if isinstance(y, tuple) and y and y[0] == "binop" and y[1] in ("Lt", "Le", "Gt", "Ge"):
                                cmp_ok = True
                hits.append((sp, cmp_ok))
        o.check(bool(hits) and any(h[1] for h in hits), "add_shred|first-last-marker|stored-slice-beyond-is-equivocation",
                "while no last slice is known, a shred marking its slice as last is answered with Equivocation when a stored slice index lies beyond it", ab.span,
                {"sites": [h[0].split("/")[-1] for h in hits]})


def ob_content_gates(run, oid):
    """try_reconstruct_block: what stands between the slices of a slot and the announcement of a block"""
    prog = run.program("lib")
    # ------------------------------------------------------------------ O13.2
    o = run.ob(oid, "malformed-content gates dominate the completion of a block",
               "a block completed without these gates is announced to Votor/Pool although it is malformed (e.g. parent in a later slot trips assert!(block.0 > parent.0) in the pool)", floor=8)
    b = prog.body(BD + "::try_reconstruct_block")
    if b is not None:
        comp = K.writes_of_field(b, "BlockData", "completed")
        # the parent variable: the local whose components feed Block.parent / Block.parent_hash
        parent_local = None
        for (bb0, rv0, sp0, dst0) in b.aggregates(A + "Block"):
            fm0 = dict(zip(rv0["fields"], rv0["ops"]))
            for key0 in ("parent", "parent_hash"):
                t0 = b.operand_term(fm0[key0]) if key0 in fm0 else None
                for x in (mir.walk(t0) if t0 else []):
                    if isinstance(x, tuple) and x and x[0] == "local" and len(b.defs().get(x[1], [])) >= 2:
                        parent_local = x[1]

        def is_parent(t):
            return parent_local is not None and K.mentions(t, lambda x: x[0] == "local" and x[1] == parent_local)
        if parent_local is None:
            o.missing("the parent variable feeding Block.parent in try_reconstruct_block")
        if not comp:
            o.fail("try_reconstruct_block|completed|missing", "no write of `completed`", b.span)
        for (bb, sp, rv) in comp:
            atoms = G.guard_atoms(b, bb, prog)
            det = {"guards": G.atoms_show(atoms)[:10]}
            g = [a for a in atoms if a[0] == "eq" and a[2] is True and any(K.mentions_field(x, "slices", "BlockData") for x in a[1]) and any(K.mentions_field(x, "last_slice", "BlockData") for x in a[1])]
            o.check(bool(g), "try_reconstruct_block|completed|all-slices", "guarded by slices.len() == last_slice + 1", sp, det)
            g = [a for a in atoms if a[0] == "is_some" and a[2] is True and K.is_field(a[1][0], "last_slice", "BlockData")]
            o.check(bool(g), "try_reconstruct_block|completed|last-known", "guarded by last_slice being known", sp, det)
            g = [a for a in atoms if a[0] == "lt" and a[2] is True and any(K.mentions_field(x, "slot", "BlockData") for x in a[1][1:]) and is_parent(a[1][0])]
            o.check(bool(g), "try_reconstruct_block|completed|parent-slot-earlier", "guarded by parent.slot < self.slot (first slice's parent)", sp, det)
            rec = [lambda a: a[0] == "is_some" and (K.is_field(a[1][0], "completed", "BlockData") or K.is_field(a[1][0], "last_slice", "BlockData")),
                   lambda a: a[0] == "eq" and any(K.mentions_field(x, "slices", "BlockData") for x in a[1]),
                   lambda a: a[0] == "lt" and any(K.mentions_field(x, "slot", "BlockData") for x in a[1])]
            extra = D.extra_guards(prog, b, bb, rec)
            o.check(not extra, "try_reconstruct_block|completed|no-extra-condition", "no further condition keeps a complete, well-formed block from being announced", sp, {"extra": G.atoms_show(extra)})
        # parent switch: the other definition(s) of the parent variable
        sw = []
        for d in b.defs().get(parent_local, []) if parent_local is not None else []:
            if d[0] == "stmt":
                t = b.rvalue_term(d[3]["rv"])
                if not K.mentions_call(t, "expect") and not K.mentions_call(t, "unwrap"):
                    sw.append((d[1], d[3].get("sp", ""), t))
        if not sw:
            o.fail("try_reconstruct_block|parent-switch|missing", "no parent switch (optimistic handover) found", b.span)
        for (bb, spx, t) in sw[:1]:
            atoms = G.guard_atoms(b, bb, prog)
            det = {"guards": G.atoms_show(atoms)[-8:]}
            o.check(any(a[0] == "eq" and a[2] is False and any(is_parent(x) for x in a[1]) for a in atoms), "try_reconstruct_block|parent-switch|not-same", "switch only to a different parent", spx, det)

            def whole_parent(x):
                x = K.peel(x)
                return isinstance(x, tuple) and x[0] == "local" and x[1] == parent_local

            def whole_new(x):
                # the slice's whole `parent` payload (slot AND hash): <slice>.parent as Some.0, not a projection of it
                x = K.peel(x)
                return (isinstance(x, tuple) and x[0] == "field" and x[2] == "0" and isinstance(x[1], tuple) and x[1][0] == "variant" and x[1][2] == "Some"
                        and K.is_field(x[1][1], "parent"))
            same = [a for a in atoms if a[0] == "eq" and any(is_parent(x) for x in a[1])]
            okw = bool(same) and all(a[2] is False and any(whole_parent(x) for x in a[1]) and any(whole_new(x) for x in a[1]) for a in same)
            o.check(okw, "try_reconstruct_block|parent-switch|same-means-same-block", "'switched to the same parent' compares the whole block id (slot and hash): a switch to another block of the "
                    "parent's slot is legitimate (equivocating previous leader) and must not be refused", spx, {"comparisons": G.atoms_show(same)})
            # the 'switched once' flag: a bool local, false on the path to the switch, set to true on it
            flags = [a for a in atoms if a[0] == "bool" and a[2] is False and a[1][0][0] == "local" and b.local_ty(a[1][0][1]) == "bool"]
            set_true = False
            for a in flags:
                l = a[1][0][1]
                for d in b.defs().get(l, []):
                    if d[0] == "stmt" and b.rvalue_term(d[3]["rv"]) == ("const", "bool", 1) and (b.dominates(bb, d[1]) or d[1] == bb or b.dominates(d[1], bb) and b.can_reach(bb, d[1])):
                        set_true = True
            o.check(bool(flags) and set_true, "try_reconstruct_block|parent-switch|once", "switch at most once (guarded by a flag that the switch sets)", spx, det)
            def new_parent_slot(x):
                # <slice>.parent as Some.0 .0 : the slot of the parent this slice switches to
                return K.mentions(x, lambda y: y[0] == "field" and y[2] == "0" and whole_new(y[1])) or (K.mentions(x, whole_new) and not K.mentions(x, lambda y: y[0] == "local" and y[1] == parent_local))
            o.check(any(a[0] == "lt" and a[2] is True and new_parent_slot(a[1][0]) and any(K.mentions_field(x, "slot", "BlockData") for x in a[1][1:]) for a in atoms),
                    "try_reconstruct_block|parent-switch|slot-earlier", "the NEW parent is in a strictly earlier slot than the block (slot(new parent) < block slot on the path of the switch)", spx, det)
            o.check(any(a[0] == "bool" and a[2] is False and K.mentions_call(a[1][0], "is_first") for a in atoms), "try_reconstruct_block|parent-switch|not-first-slice", "only in a slice after the first", spx, det)
        # every slice is decoded: inside the loop nothing but the completeness / parent gates stands before the decode (a shortcut for
        # 'empty' or 'uninteresting' slices also skips the parent switch and the malformed-content checks they may carry)
        for dc in [c for c in b.calls() if "deserialize" in c.name]:
            rec = [lambda a: a[0] == "is_some" and (K.is_field(a[1][0], "completed", "BlockData") or K.is_field(a[1][0], "last_slice", "BlockData")),
                   lambda a: a[0] == "eq" and any(K.mentions_field(x, "slices", "BlockData") for x in a[1]) and any(K.mentions_field(x, "last_slice", "BlockData") for x in a[1]),
                   lambda a: a[0] == "lt" and any(K.mentions_field(x, "slot", "BlockData") for x in a[1]),
                   lambda a: a[0] in ("is_some", "variant", "eq", "bool") and any(K.mentions_field(x, "parent") or K.mentions_call(x, "is_first") for x in a[1] if isinstance(x, tuple)),
                   lambda a: a[0] == "bool" and isinstance(a[1][0], tuple) and a[1][0][0] == "local"]
            extra = D.extra_guards(prog, b, dc.bb, rec)
            o.check(not extra, "try_reconstruct_block|decode|every-slice", "every slice's data is decoded (no shortcut skips a slice)", dc.span, {"extra": G.atoms_show(extra)})
        # decode gate: transactions appended only from Ok of deserialize_exact
        app = [c for c in b.calls() if c.name.endswith("Vec::append")]
        for c in app:
            g = [a for a in G.guard_atoms(b, c.bb, prog) if a[0] == "is_ok" and a[2] is True and K.mentions_call(a[1][0], "deserialize_exact")]
            o.check(bool(g), "try_reconstruct_block|transactions|decode", "transactions are taken only from a successful exact decode of the slice data", c.span)
    b = prog.body(BD + "::try_reconstruct_slice")
    if b is not None:
        ins = [c for c in b.calls() if c.name.endswith("VacantEntry::insert")]
        sw = G.find_switch(prog, b, calls=["SliceIndex::is_first"])
        for c in ins:
            ok = False
            det = {}
            # conjunction `parent.is_none() && is_first` -> Error: under is_first == true the insert needs parent.is_some
            for (s, tv, fv) in sw:
                g = G.has_guard(prog, b, c.bb, pred="is_some", polarity=True, fields=["parent"], depth=0, assume=((s, tv),))
                det = {"guards": K.show_atoms(prog, b, c.bb, ((s, tv),))[-5:]}
                if g is not None:
                    ok = True
            if not sw:
                # is_first evaluated second: parent.is_none() switch first
                for (s2, tv2, fv2) in G.find_switch(prog, b, pred="is_some", fields=["parent"], depth=0):
                    g = G.has_guard(prog, b, c.bb, pred="bool", polarity=False, calls=["SliceIndex::is_first"], assume=((s2, fv2),))
                    if g is not None:
                        ok = True
            else:
                for (s2, tv2, fv2) in G.find_switch(prog, b, pred="is_some", fields=["parent"], depth=0):
                    g = G.has_guard(prog, b, c.bb, pred="bool", polarity=False, calls=["SliceIndex::is_first"], assume=((s2, fv2),))
                    if g is not None:
                        ok = True
            o.check(ok, "try_reconstruct_slice|insert|first-has-parent", "a first slice is stored only if it carries a parent", c.span, det)
            g = [a for a in G.guard_atoms(b, c.bb, prog) if a[0] == "is_ok" and a[2] is True and K.mentions_call(a[1][0], "deshred")]
            o.check(bool(g), "try_reconstruct_slice|insert|deshred-ok", "a slice is stored only from a successful deshred", c.span)




ERROR_MAP = {
    "<" + A + "shredder::DeshredError as core::convert::From<" + A + "shredder::reed_solomon::ReedSolomonDeshredError>>::from":
        {"InvalidPadding": "BadEncoding", "TooMuchData": "TooMuchData", "NotEnoughShreds": "NotEnoughShreds"},
    "<" + A + "shredder::DeshredError as core::convert::From<" + A + "types::slice::SlicePayloadError>>::from":
        {"BadEncoding": "BadEncoding", "TooLarge": "TooMuchData"},
    "<" + A + "shredder::DeshredError as core::convert::From<" + A + "shredder::reed_solomon::ReedSolomonShredError>>::from":
        {"*": "TooMuchData"},
}


def ob_flag_exact(run, oid):
    """both ingest paths flag the leader for exactly the two verdicts that prove misbehaviour"""
    prog = run.program("lib")
    o = run.ob(oid, "add_shred_from_dissemination / add_shred_from_repair call flag_leader_misbehavior exactly for Equivocation and InvalidShred",
               "malformed content revealed through repair is as much the leader's as content revealed through dissemination: if InvalidShred is not flagged there, no invalid block is "
               "announced and a later block of the same leader for that slot is accepted from dissemination", floor=2)
    for fn in ("add_shred_from_dissemination", "add_shred_from_repair"):
        n = 0
        for fb in prog.family("<" + A + "consensus::blockstore::BlockstoreImpl as " + A + "consensus::blockstore::Blockstore>::" + fn):
            for c in fb.calls():
                if c.name.endswith("BlockstoreImpl::flag_leader_misbehavior") or c.name.endswith("Blockstore>::flag_leader_misbehavior"):
                    names = None
                    for a in G.guard_atoms(fb, c.bb, prog):
                        if a[0] == "variant" and a[1][1] <= {"Duplicate", "Equivocation", "InvalidShred", "TypeMismatch"}:
                            names = set(a[1][1]) if names is None else names & a[1][1]
                    n += 1
                    o.check(names == {"Equivocation", "InvalidShred"} if n == 1 else names is not None, "Blockstore::%s|flag|both-verdicts" % fn, "the leader is flagged on Equivocation and on InvalidShred", c.span,
                            {"flagged_on": sorted(names) if names else None})
        if n == 0:
            o.fail("Blockstore::%s|flag|missing" % fn, "no call of flag_leader_misbehavior in %s" % fn)
        elif n > 1:
            # several call sites (one per arm): together they must cover both verdicts
            cov = set()
            for fb in prog.family("<" + A + "consensus::blockstore::BlockstoreImpl as " + A + "consensus::blockstore::Blockstore>::" + fn):
                for c in fb.calls():
                    if c.name.endswith("flag_leader_misbehavior"):
                        for a in G.guard_atoms(fb, c.bb, prog):
                            if a[0] == "variant" and a[1][1] <= {"Duplicate", "Equivocation", "InvalidShred", "TypeMismatch"}:
                                cov |= set(a[1][1])
            o.check(cov == {"Equivocation", "InvalidShred"}, "Blockstore::%s|flag|covered" % fn, "the call sites together cover exactly Equivocation and InvalidShred", "", {"covered": sorted(cov)})
    return o


def ob_altered_shred_dropped_first(run, oid):
    """TypeMismatch is the one verdict an outsider can provoke with a correct leader's shred: it must not leave a trace"""
    prog = run.program("lib")
    o = run.ob(oid, "BlockData::add_shred returns TypeMismatch before it touches any field of the block data",
               "the data/coding tag is not signed: anyone can flip it on a genuine shred. If such a shred is refused only after it seeded the commitment cache (or any other field), the "
               "'first shred' / 'once' bookkeeping of the slot is off by one from then on", floor=1)
    b = prog.body(BD + "::add_shred")
    if b is None:
        o.missing("BlockData::add_shred")
        return o
    errs = [(bb, sp) for (bb, rv, sp, dst) in b.aggregates() if rv.get("ak") == "adt" and rv.get("variant") == "TypeMismatch"]
    if not errs:
        o.missing("AddShredError::TypeMismatch in BlockData::add_shred")
        return o
    muts = set(bb for (bb, ow, name, rv, sp, dst) in b.field_writes() if ow.endswith("BlockData"))
    muts |= set(bb for (bb, ow, name, sp, l, pl) in b.mut_borrows_of_fields() if ow.endswith("BlockData"))
    for (bb, sp) in errs:
        before = sorted(m for m in muts if m != bb and b.can_reach(m, bb))
        o.check(not before, "add_shred|TypeMismatch|before-any-mutation", "no write to / mutable borrow of a BlockData field can precede the TypeMismatch return", sp, {"mutating blocks before": before[:5]})
    return o


def ob_flag_callers(run, oid):
    """flag and announcement go together"""
    prog = run.program("lib")
    o = run.ob(oid, "SlotBlockData::mark_leader_misbehaved is called by flag_leader_misbehavior only (which announces InvalidBlock on the first transition)",
               "a silent flag swallows the report: the next flag attempt finds it set and announces nothing - equivocation is detected and never reported", floor=1)
    cal = prog.callers_of(SLOTBD + "::mark_leader_misbehaved")
    bad = sorted(set(fshort(K.root_fn(c.body.defpath)) for c in cal if not K.root_fn(c.body.defpath).endswith("flag_leader_misbehavior")))
    o.check(bool(cal) and not bad, "mark_leader_misbehaved|only-through-flag_leader_misbehavior", "the only caller is flag_leader_misbehavior", "", {"other callers": bad})
    return o


def ob_error_mapping(run, oid):
    """which decoder failure becomes which DeshredError: only 'not enough shreds yet' may become the error the blockstore waits on"""
    from engine import paths as P_
    prog = run.program("lib")
    o = run.ob(oid, "conversions into DeshredError keep the meaning of each failure: NotEnoughShreds only from NotEnoughShreds, every reviewed variant to its reviewed counterpart",
               "the blockstore answers NotEnoughShreds by waiting and every other decoding error by declaring the block invalid: a padding / size failure mapped to "
               "NotEnoughShreds is waited on for ever, the reverse blames a correct leader for a slice that is merely incomplete", floor=5)
    for fn, want in ERROR_MAP.items():
        b = prog.body(fn)
        if b is None:
            o.missing(fn.replace(A, ""))
            continue
        got = {}
        for atoms, ret, _bl in P_.decision_table(b, prog):
            src = [sorted(a[1][1]) for a in atoms if a[0] == "variant" and a[2] is True]
            r = K.peel(ret)
            dst = r[2] if isinstance(r, tuple) and r and r[0] == "agg" else "?"
            for v in (src[0] if src else ["*"]):
                got.setdefault(v, set()).add(dst)
        short = fn.replace(A, "").split(" as ")[1].split("<")[1].split(">")[0].rsplit("::", 1)[-1]
        for v, dsts in sorted(got.items()):
            w = want.get(v, want.get("*"))
            if w is not None:
                o.check(dsts == {w}, "%s|%s" % (short, v), "%s::%s becomes DeshredError::%s" % (short, v, w), b.span, {"now": sorted(dsts)})
            else:
                # a variant that did not exist on the reviewed tree: anything but the 'wait' verdict
                o.check("NotEnoughShreds" not in dsts and "?" not in dsts, "%s|%s|new-variant" % (short, v), "a new failure kind is not answered by waiting", b.span, {"now": sorted(dsts)})
        for v in want:
            if v != "*" and v not in got and "*" not in got:
                o.fail("%s|%s|anchor-missing" % (short, v), "reviewed variant %s::%s is not mapped any more (rule cannot be evaluated; failing closed)" % (short, v), b.span)
    return o


def check(run):
    ob_error_mapping(run, "O13.11")
    ob_flag_exact(run, "O13.12")
    from . import C12 as _C12e
    _C12e.ob_door_equivocation_reported(run, "O13.15")
    ob_altered_shred_dropped_first(run, "O13.13")
    # "for every block a correct leader disseminates ... reconstructs exactly that block": the decoder of a slice's transactions admits every count a slice can encode
    from . import C19 as _C19d
    with run.restricted(lambda oid: oid == "O13.14.1"):
        _C19d.check(run, prefix="O13.14")
    from . import detectors as _DL
    _DL.ob_loop_exits(run, "O13.9", ['consensus::blockstore'], 'every slice of a block is reconstructed and checked: a loop that stops early assembles a partial block')
    # "can afterwards serve every shred, slice root and proof of it": the lookup behind all getters
    from . import C14
    C14.ob_block_lookup(run, "O13.8")
    ob_slice_outcomes(run, "O13.7")
    # "undecodable data => invalid block": what counts as decodable is decided by the shredder's integrity gates (layout, Merkle root, padding
    # marker, payload decode) and the Reed-Solomon decode tail
    from . import C11
    with run.restricted(lambda oid: oid in ("O13.10.5", "O13.10.10", "O13.10.12")):
        C11.check(run, prefix="O13.10")
    D.ob_state_mutations(run, "O13.6", ['consensus::blockstore::slot_block_data::BlockData', 'consensus::blockstore::slot_block_data::SlotBlockData', 'consensus::blockstore::BlockstoreImpl'], 'completed / last_slice / commitment_cache / misbehaviour flags are once-only records: clearing them re-announces blocks or hides equivocation')
    ob_last_slice_prune(run, "O13.1b")
    from . import C12
    C12.ob_equivocation(run, "O13.1c")
    prog = run.program("lib")

    # ------------------------------------------------------------------ O13.1
    o = run.ob("O13.1", "once-only flags: misbehaviour flagged once, no dissemination ingest afterwards, block completed once",
               "announcing twice makes Votor act twice; ingesting after the flag announces a block for a slot already declared invalid", floor=8)
    w = K.all_field_writers(prog, SLOTBD).get("leader_misbehaved", {})
    o.check(set(x.rsplit("::", 1)[-1] for x in w) <= {"mark_leader_misbehaved"}, "leader_misbehaved|writers", "leader_misbehaved is written only in mark_leader_misbehaved", "", {"writers": [fshort(x) for x in w]})
    b = prog.body(SLOTBD + "::mark_leader_misbehaved")
    if b is None:
        o.missing("SlotBlockData::mark_leader_misbehaved")
    else:
        for (bb, sp, rv) in K.writes_of_field(b, "SlotBlockData", "leader_misbehaved"):
            t = b.rvalue_term(rv)
            g = [a for a in G.guard_atoms(b, bb, prog) if a[0] == "bool" and a[2] is False and K.is_field(a[1][0], "leader_misbehaved", "SlotBlockData")]
            # the flag only ever goes from false to true: the value written is the constant `true` (guarded by !flag, or unconditionally - true over true changes nothing)
            o.check(t[0] == "const" and t[2] == 1, "mark_leader_misbehaved|set-once", "the only value ever written is `true` (the flag never goes back)", sp, {"guarded": bool(g)})
        import engine.paths as P
        tt = P.decision_table(b, prog)
        outs = set()
        for atoms, ret, blocks in tt:
            flag = [a for a in atoms if a[0] == "bool" and K.is_field(a[1][0], "leader_misbehaved", "SlotBlockData")]
            if flag and ret is not None and ret[0] == "const":
                outs.add((flag[0][2], bool(ret[2])))
        if not outs:
            # `let first = !self.flag; self.flag = true; first`: the negation of the flag as it was BEFORE the write
            rl = None
            for bl in b.blocks:
                for i, st in enumerate(bl["stmts"]):
                    if st["k"] == "assign" and not st["dst"]["p"] and st["rv"]["k"] == "un" and st["rv"].get("op") == "Not":
                        src = b.operand_term(st["rv"]["a"])
                        if K.is_field(src, "leader_misbehaved", "SlotBlockData") or (K.peel(src)[0] == "local" and any(
                                K.is_field(b.rvalue_term(s2["rv"]), "leader_misbehaved", "SlotBlockData") for s2 in bl["stmts"][:i] if s2["k"] == "assign" and s2["dst"]["l"] == K.peel(src)[1])):
                            rl = (st["dst"]["l"], bl["id"], i)
            ws = [(bb, i) for bb, i, dst, rv, sp in b.assignments() if dst["p"] and dst["p"][-1][0] == "f" and dst["p"][-1][1] == "leader_misbehaved"]
            ret = K.peel(b.local_term(0))
            before = rl is not None and all((rl[1] == wb and rl[2] < wi) or (rl[1] != wb and b.dominates(rl[1], wb)) for wb, wi in ws)
            returned = rl is not None and (ret == ("local", rl[0], b.local_name(rl[0]) or "_%d" % rl[0]) or (isinstance(ret, tuple) and ret[0] == "un" and ret[1] == "Not" and K.is_field(ret[2], "leader_misbehaved", "SlotBlockData")) or
                                           any(st["k"] == "assign" and st["dst"]["l"] == 0 and not st["dst"]["p"] and K.peel(b.rvalue_term(st["rv"]))[:2] == ("local", rl[0]) for bl in b.blocks for st in bl["stmts"]))
            if before and returned and ws:
                outs = {(True, False), (False, True)}
        o.check(outs == {(True, False), (False, True)}, "mark_leader_misbehaved|returns-newly", "returns true exactly when the flag was newly set", b.span, {"table": sorted(outs)})
    # the flag and the announcement go together: the only caller of mark_leader_misbehaved is flag_leader_misbehavior, which announces InvalidBlock on the first transition
    # (a silent flag swallows the report: later flag attempts find it set and announce nothing)
    cal = prog.callers_of(SLOTBD + "::mark_leader_misbehaved")
    bad_callers = sorted(set(fshort(K.root_fn(c.body.defpath)) for c in cal if not K.root_fn(c.body.defpath).endswith("flag_leader_misbehavior")))
    o.check(bool(cal) and not bad_callers, "mark_leader_misbehaved|only-through-flag_leader_misbehavior", "mark_leader_misbehaved is called by flag_leader_misbehavior only", "", {"other callers": bad_callers})
    for fb in prog.family(IMPL + "flag_leader_misbehavior") + prog.family(BS + "BlockstoreImpl::flag_leader_misbehavior"):
        for (bb, rv, sp, dst) in fb.aggregates(BS + "BlockstoreEvent", "InvalidBlock"):
            g = [a for a in G.guard_atoms(fb, bb, prog) if a[0] == "bool" and a[2] is True and K.mentions_call(a[1][0], "mark_leader_misbehaved")]
            o.check(bool(g), "flag_leader_misbehavior|InvalidBlock|once", "InvalidBlock is emitted only when mark_leader_misbehaved() newly set the flag", sp)
    evs = []
    for d, fb in prog.bodies.items():
        if fb.generated:
            continue
        for (bb, rv, sp, dst) in fb.aggregates(BS + "BlockstoreEvent", "InvalidBlock"):
            evs.append(K.root_fn(d))
    o.check(bool(evs) and all(x.endswith("flag_leader_misbehavior") for x in evs), "InvalidBlock|constructed-in", "InvalidBlock is constructed only in flag_leader_misbehavior", "", {"sites": [fshort(x) for x in evs]})
    b = prog.body(SLOTBD + "::add_shred_from_dissemination")
    if b is None:
        o.missing("SlotBlockData::add_shred_from_dissemination")
    else:
        for c in b.calls_to(BD + "::add_shred"):
            g = [a for a in G.guard_atoms(b, c.bb, prog) if a[0] == "bool" and a[2] is False and K.is_field(a[1][0], "leader_misbehaved", "SlotBlockData")]
            o.check(bool(g), "add_shred_from_dissemination|ingest|flag-false", "dissemination shreds are ingested only while leader_misbehaved is false", c.span)
            o.check(K.is_field(b.operand_term(c.args[0]), "disseminated", "SlotBlockData"), "add_shred_from_dissemination|ingest|target", "into the `disseminated` block data", c.span)
    w = K.all_field_writers(prog, BD).get("completed", {})
    o.check(set(x.rsplit("::", 1)[-1] for x in w) == {"try_reconstruct_block"}, "completed|writers", "`completed` is written only in try_reconstruct_block", "", {"writers": [fshort(x) for x in w]})
    for fn in ("try_reconstruct_block", "try_reconstruct_slice"):
        b = prog.body(BD + "::" + fn)
        if b is None:
            o.missing("BlockData::" + fn)
            continue
        # all effects (writes to completed / slices insert) happen only when completed is None
        acts = [(bb, sp) for (bb, sp, rv) in K.writes_of_field(b, "BlockData", "completed")]
        acts += [(c.bb, c.span) for c in b.calls() if c.name.endswith("VacantEntry::insert") or (c.name.endswith("Shredder::deshred") or c.name.endswith("::deshred"))]
        for (bb, sp), key in K.ordinal_keys(acts, lambda x: "%s|effect" % fn):
            g = [a for a in G.guard_atoms(b, bb, prog) if a[0] == "is_some" and a[2] is False and K.is_field(a[1][0], "completed", "BlockData")]
            o.check(bool(g), key + "|not-completed", "%s acts only while no block is completed for the slot" % fn, sp)

    ob_content_gates(run, "O13.2")

    # ------------------------------------------------------------------ O13.3
    o = run.ob("O13.3", "the block hash is the root of the double-Merkle tree over the reconstructed slices' roots",
               "any other identifier breaks repair (proofs are checked against this hash) and voting (votes name this hash)", floor=3)
    b = prog.body(BD + "::try_reconstruct_block")
    if b is not None:
        for (bb, sp, rv) in K.writes_of_field(b, "BlockData", "completed"):
            t = b.rvalue_term(rv)
            pv = b.provenance(t)
            ok = any(x.endswith("MerkleTree::get_root") for x in pv["calls"]) and any(x.endswith("MerkleTree::new") for x in pv["calls"]) and (BD, "slices") in pv["fields"]
            o.check(ok, "try_reconstruct_block|completed|hash", "completed.0 = MerkleTree::new(slices.values().map(slice_root)).get_root()", sp, {"value": mir.show(t)[:200]})
        for cb in prog.family(BD + "::try_reconstruct_block"):
            if cb.is_closure:
                cs = cb.mentioned_fns()
                if any(x.endswith("slice_root") for x in cs):
                    o.ok("try_reconstruct_block|leaves", "tree leaves are the slices' roots (slice_root())", cb.span)
        for (bb, rv, sp, dst) in b.aggregates(A + "Block"):
            fm = dict(zip(rv["fields"], [b.operand_term(x) for x in rv["ops"]]))
            pv = b.provenance(fm["hash"])
            same_local = lambda t: [x[1] for x in mir.walk(t) if isinstance(x, tuple) and x and x[0] == "local"]
            ok = any(x.endswith("MerkleTree::get_root") for x in pv["calls"]) and bool(same_local(fm["parent"])) and same_local(fm["parent"]) == same_local(fm["parent_hash"])
            o.check(ok, "try_reconstruct_block|Block|fields", "Block.hash is that root; parent/parent_hash are the (final) parent", sp)
    bi = [x for d, x in prog.bodies.items() if "BlockInfo" in d and d.endswith("::from") and "From" in d]
    for x in bi:
        rd = set(n for (_bb, ow, n, _sp) in x.field_reads() if ow == A + "Block")
        o.check({"hash", "parent", "parent_hash"} <= rd, "BlockInfo::from|fields", "BlockInfo is (hash, (parent, parent_hash)) of the block", x.span, {"reads": sorted(rd)})

    # ------------------------------------------------------------------ O13.4
    o = run.ob("O13.4", "the leader's fast path stores through the same block reconstruction",
               "a separate completion path on the leader could store a block a follower would not reconstruct", floor=2)
    b = prog.body(BD + "::add_own_slice")
    if b is None:
        o.missing("BlockData::add_own_slice")
    else:
        cs = b.calls_to(BD + "::try_reconstruct_block")
        o.check(bool(cs) and b.always_followed_by(0, [c.bb for c in cs]), "add_own_slice|reconstructs", "every path through add_own_slice ends in try_reconstruct_block()", b.span)
        rs = b.calls_to(A + "types::slice::ReconstructedSlice::from_parts")
        o.check(bool(rs), "add_own_slice|slice-from-shreds", "the stored slice is built from the own shreds' header and root", b.span)

    # ------------------------------------------------------------------ O13.5
    o = run.ob("O13.5", "Pool::add_block is called only with (slot, block_info.hash), block_info.parent of a BlockInfo returned by the blockstore",
               "registering any other (block, parent) pair corrupts safe-to-notar / finality bookkeeping", floor=3)
    sites = [c for c in prog.callers_of(lambda c: c.callee.endswith("Pool::add_block")) if not c.body.generated]
    if len(sites) < 3:
        o.missing("three call sites of Pool::add_block (dissemination, repair, own block)")
    for c, key in K.ordinal_keys(sites, lambda c: "%s|Pool::add_block" % fshort(c.body.defpath)):
        b = c.body
        bid = b.operand_term(c.args[1])
        par = b.operand_term(c.args[2])
        src = ("Blockstore::add_shred_from_dissemination", "Blockstore::add_shred_from_repair", "Blockstore::add_own_slice")
        ok_b = bid[0] == "tuple" and any(K.mentions_call(bid[1][1], s) for s in src) and K.mentions_field(bid[1][1], "hash", "BlockInfo")
        ok_p = any(K.mentions_call(par, s) for s in src) and K.is_field(par, "parent", "BlockInfo")
        o.check(ok_b, key + "|block-id", "block id = (slot, block_info.hash) of the BlockInfo the blockstore returned", c.span, {"arg": mir.show(bid)[:200]})
        o.check(ok_p, key + "|parent", "parent = block_info.parent of the same BlockInfo", c.span, {"arg": mir.show(par)[:200]})


def ob_slice_outcomes(run, oid):
    """try_reconstruct_slice: which decoding errors merely wait for more shreds"""
    prog = run.program("lib")
    o = run.ob(oid, "try_reconstruct_slice waits (NoAction) only for NotEnoughShreds; every other decoding error is an Error (=> invalid block announced)",
               "treating a decoding error of leader-signed content (invalid layout, bad Merkle root, bad padding, oversize) as 'wait for more' leaves the slot silent for ever: "
               "no invalid-block announcement, the leader is never flagged", floor=2)
    b = prog.body(BD + "::try_reconstruct_slice")
    if b is None:
        o.missing("BlockData::try_reconstruct_slice")
        return
    RSR = SBD + "ReconstructSliceResult"
    waits = set()
    n = 0
    for (bb, rv, sp, dst) in b.aggregates(RSR, "NoAction"):
        if dst["l"] != 0:
            continue
        for a in G.guard_atoms(b, bb, prog):
            if a[0] == "variant" and K.mentions_call(a[1][0], "deshred"):
                waits |= set(a[1][1])
                n += 1
            if a[0] == "is_ok" and a[2] is False and K.mentions_call(a[1][0], "deshred") and not any(
                    x[0] == "variant" and K.mentions_call(x[1][0], "deshred") for x in G.guard_atoms(b, bb, prog)):
                waits.add("<any error>")
                n += 1
    o.check(n >= 1 and waits == {"NotEnoughShreds"}, "try_reconstruct_slice|NoAction-only-for-NotEnoughShreds", "the only deshred error answered with NoAction is NotEnoughShreds", b.span,
            {"errors_answered_with_NoAction": sorted(waits)})
    err_bbs = set(bb for (bb, rv, sp, dst) in b.aggregates(RSR, "Error") if dst["l"] == 0)
    other_bbs = set(bb for (bb, rv, sp, dst) in b.aggregates(RSR) if dst["l"] == 0 and rv.get("variant") != "Error")
    es = b.edges()
    fall = False
    bad = []
    for (s_, dterm, dty) in b.switches():
        sa = G.switch_atoms(b, s_, prog)
        if not any(a[0] == "variant" and K.mentions_call(a[1][0], "deshred") and "NotEnoughShreds" in a[1][1] for atoms in sa.values() for a in atoms):
            continue
        for v, atoms in sa.items():
            vs = [a for a in atoms if a[0] == "variant" and K.mentions_call(a[1][0], "deshred")]
            if vs and set(vs[0][1][1]) and not (set(vs[0][1][1]) <= {"NotEnoughShreds"}):
                for e in es:
                    if e[0] == s_ and e[2] == ("sw", v):
                        R = b.reachable(e[1])
                        if (R & err_bbs) and not (R & other_bbs):
                            fall = True
                        else:
                            bad.append(sorted(vs[0][1][1]))
    o.check(fall and not bad, "try_reconstruct_slice|other-errors-are-Error", "every other deshred error leads to ReconstructSliceResult::Error and to nothing else", b.span, {"not_error": bad})
