"""C01 — finalization agreement: structural necessary conditions (composition of threshold, wiring, vote-guard,
admission and fallback-event obligations)."""
import re
from fractions import Fraction as Q

from engine import guards as G
from engine import mir
from . import common as K
from .common import A, fshort
from . import C03, C04, C05, C06, C07, C08, C09

EXPLANATION = (
    "Agreement itself (all Byzantine behaviours x schedules x stake distributions) is a protocol-level model-checking / proof "
    "question and is NOT decided. Decided are necessary conditions, each of which - if broken - admits a concrete "
    "double-finalization or finalize+skip with < 20% Byzantine stake: O1.1 the four thresholds are exactly 1/5, 2/5, 3/5, 4/5 "
    "(const-eval) and each EpochInfo::is_*quorum applies its own constant to (stake, total_stake); O1.2 Fraction::is_met is the "
    "exact comparison value*den >= total*num in u128; O1.3 every certificate is created and validated under the quorum "
    "predicate of its type over the right stake; O1.4 the Votor's vote guards; O1.5 vote admission filters (decision "
    "tables); O1.6 the finality tracker is driven by certificates only; O1.7 fallback events only from their predicates."
)

EPOCH = A + "consensus::epoch_info::EpochInfo::"
THRESHOLDS = {
    "is_weakest_quorum": ("WEAKEST_QUORUM_THRESHOLD", Q(1, 5)),
    "is_weak_quorum": ("WEAK_QUORUM_THRESHOLD", Q(2, 5)),
    "is_quorum": ("QUORUM_THRESHOLD", Q(3, 5)),
    "is_strong_quorum": ("STRONG_QUORUM_THRESHOLD", Q(4, 5)),
}


def parse_fraction(s):
    m = re.search(r"numerator:\s*(\d+)_u64.*?NonZeroU64Inner\((\d+)_u64", s)
    if not m:
        m = re.search(r"numerator:\s*(\d+)_u64.*?(\d+)_u64", s)
    return Q(int(m.group(1)), int(m.group(2))) if m else None


def ob_constants(run, oid):
    prog = run.program("lib")
    o = run.ob(oid, "thresholds are exactly 1/5, 2/5, 3/5, 4/5 and each is_*quorum applies its own constant to (stake, total_stake)",
               "with any other threshold two conflicting certificates can both reach quorum with < 20% Byzantine stake (quorum intersection fails)", floor=8)
    for fn, (cname, want) in THRESHOLDS.items():
        rec = prog.const_rec(A + "consensus::" + cname)
        if rec is None:
            o.missing("const consensus::" + cname)
            continue
        got = parse_fraction(rec.get("s", ""))
        o.check(got == want, "const|%s" % cname, "%s == %s (const-evaluated, compared as a rational)" % (cname, want), rec["span"], {"value": str(got), "raw": rec.get("s", "")[:120]})
        b = prog.body(EPOCH + fn)
        if b is None:
            o.missing("EpochInfo::" + fn)
            continue
        cs = b.calls_to(A + "types::fraction::Fraction::is_met")
        ok = len(cs) == 1 and cs[0].dst["l"] == 0
        det = {}
        if ok:
            c = cs[0]
            a0, a1, a2 = (b.operand_term(x) for x in c.args)
            det = {"args": [mir.show(a0), mir.show(a1), mir.show(a2)]}
            ok = (a0[0] in ("cref", "const") and (a0[1] if a0[0] == "cref" else (a0[3] if len(a0) > 3 else "")).endswith("::" + cname)
                  and K.mentions_arg(b, a1, 2) and not K.mentions_call(a1, "total_stake")
                  and (K.mentions_call(a2, "total_stake") or K.mentions_field(a2, "total_stake")) and not K.mentions_arg(b, a2, 2))
        o.check(bool(ok), "EpochInfo::%s|is_met" % fn, "%s(stake) = %s.is_met(stake, total_stake)" % (fn, cname), b.span, det)
    # total_stake is the sum over all validators, written only by the constructor
    w = K.all_field_writers(prog, A + "consensus::epoch_info::EpochInfo").get("total_stake", {})
    o.check(not w, "EpochInfo.total_stake|immutable", "total_stake is never written after construction", "", {"writers": [fshort(x) for x in w]})
    b = prog.body(EPOCH + "new")
    if b is not None:
        for (bb, rv, sp, dst) in b.aggregates(A + "consensus::epoch_info::EpochInfo"):
            t = b.operand_term(dict(zip(rv["fields"], rv["ops"]))["total_stake"])
            pv = b.provenance(t)
            o.check(any(x.endswith("Iterator::sum") for x in pv["calls"]) and "validators" in pv["params"], "EpochInfo::new|total_stake", "total_stake = sum of all validators' stake", sp)


def ob_is_met(run, oid):
    from . import slots as _SL
    _SL.ob_value_types(run, oid + "v")
    prog = run.program("lib")
    o = run.ob(oid, "Fraction::is_met is the exact comparison value*den >= total*num carried out in u128",
               "'>' instead of '>=' or 64-bit/float arithmetic changes which stake sets count as a quorum exactly at the boundary", floor=3)
    b = prog.body(A + "types::fraction::Fraction::is_met")
    if b is None:
        o.missing("Fraction::is_met")
        return
    rets = [d for d in b.defs().get(0, []) if d[0] == "stmt"]
    if len(rets) != 1:
        o.fail("Fraction::is_met|single-result", "is_met does not have a single result expression", b.span)
        return
    t = b.rvalue_term(rets[0][3]["rv"])
    nb = G.norm_bool(t, True)
    det = {"term": mir.show(t)}
    ok = nb[0] == "lt" and nb[2] is False
    o.check(ok, "Fraction::is_met|comparison", "result is !(lhs < rhs), i.e. lhs >= rhs (any spelling)", b.span, det)
    if not ok:
        return
    lhs, rhs = nb[1]

    def side(x):
        pv = b.provenance(x)
        names = set(pv["params"]) | set(n for (_ow, n) in pv["fields"])
        muls = [y for y in mir.walk(x) if isinstance(y, tuple) and y and y[0] == "bin" and y[1].startswith("Mul")]
        casts = [y for y in mir.walk(x) if isinstance(y, tuple) and y and y[0] == "cast"]
        others = [y[1] for y in mir.walk(x) if isinstance(y, tuple) and y and y[0] == "bin" and not y[1].startswith("Mul")]
        return names, muls, casts, others

    ln, lm, lc, lo_ = side(lhs)
    rn, rm, rc, ro = side(rhs)
    o.check({"value", "denominator"} <= ln and "numerator" not in ln and "total" not in ln and {"total", "numerator"} <= rn and "value" not in rn and "denominator" not in rn,
            "Fraction::is_met|cross-multiplication", "lhs = value * denominator, rhs = total * numerator", b.span, {"lhs": sorted(ln), "rhs": sorted(rn)})
    o.check(len(lm) == 1 and len(rm) == 1 and not lo_ and not ro, "Fraction::is_met|only-products", "each side is a single product (no rounding division / offsets)", b.span)
    allc = lc + rc
    o.check(len(allc) >= 4 and all(c[3] == "u128" and c[1] == "IntToInt" for c in allc), "Fraction::is_met|u128", "all four factors are widened to u128 before multiplying (no overflow, no float)", b.span,
            {"casts": [(c[1], c[3]) for c in allc]})


def check(run):
    ob_constants(run, "O1.1")
    ob_is_met(run, "O1.2")
    C03.ob_thresholds_creation(run, "O1.3a")
    C09.ob_threshold_validation(run, "O1.3b")
    # agreement counts stake: a vote is counted for a validator only if it carries that validator's signature over that vote -
    # Validated* are built only by try_new, try_new checks signer range, key and kind binding, and the node validates before the pool sees anything
    C09.ob_construct(run, "O1.3c")
    C09.ob_vote_try_new(run, "O1.3d")
    C09.ob_cert_try_new(run, "O1.3e")
    C09.ob_before_lock(run, "O1.3f")
    C09.ob_kind_binding(run, "O1.3g")
    C09.ob_sig_table(run, "O1.3h")
    C05.check(run, prefix="O1.4")
    C04.check(run, prefix="O1.5")
    C08.ob_cert_wiring(run, "O1.6")
    C08.ob_direct_finalization(run, "O1.6b")
    C06.ob_s2n_table(run, "O1.7a")
    C06.ob_safe_to_skip(run, "O1.7b")
    C06.ob_s2n_events(run, "O1.7c")
    C06.ob_parent_certified(run, "O1.7d")
    C06.ob_registry(run, "O1.7e")
    C06.ob_sorted_vec(run, "O1.7f")
    # "all finalized blocks lie on one chain": which parents may be built on (parent-ready), and how finality propagates to ancestors
    C07.check(run, prefix="O1.8")
    C08.ob_no_downgrade(run, "O1.9a")
    C08.ob_implicit_sources(run, "O1.9b")
    C08.ob_status_reporting(run, "O1.9c")
