"""Obligations shared by many properties that are registered centrally (bin/check calls `register` after the property's own
rule module): node wiring (rules/wiring.py) and the initial values of protocol state (detectors.ob_initial_values)."""
from . import detectors as D
from . import wiring as W

P = "consensus::pool::"
# property -> (owners, tunables that are not compared, why)
INITIAL = {
    "C01": (["types::fraction::Fraction", "types::stake::Stake", "types::slot::Slot", P + "PoolImpl", P + "slot_state::SlotState", "consensus::votor::Votor", "consensus::votor::SlotState",
             P + "parent_ready_tracker::parent_ready_state::ParentReadyState"],
            "agreement is argued from the genesis state: every node starts with genesis notarized / finalized / ready and nothing else voted or certified"),
    "C03": ([P + "slot_state::SlotState", P + "slot_state::SlotVotes"], "a slot's state starts without votes, stake or certificates: anything else is a certificate without votes"),
    "C04": ([P + "slot_state::SlotState", P + "PoolImpl"], "a slot's vote records start empty: a pre-filled record rejects the first honest vote as a duplicate"),
    "C05": (["consensus::votor::Votor", "consensus::votor::SlotState"], "the genesis slot starts voted / notarized / retired with genesis as ready parent, every other slot with no flag set; the Votor signs with the key and index it was given"),
    "C06": ([P + "slot_state::SlotState", P + "PoolImpl"], "sent flags start false and the pending / waiting registries start empty"),
    "C07": ([P + "parent_ready_tracker::parent_ready_state::ParentReadyState", P + "PoolImpl"], "genesis is the only block that is ready / certified without a certificate"),
    "C08": ([P + "PoolImpl"], "the pool starts with default trackers (nothing but genesis decided) and no slot state"),
    "C09": (["consensus::vote::NotarVote", "consensus::vote::NotarFallbackVote", "consensus::vote::SkipVote", "consensus::vote::SkipFallbackVote", "consensus::vote::FinalVote"],
            "a vote carries the slot / block / signer it was created for: the signed payload and the claimed signer are what validation checks"),
    "C10": (["repair::Repair", "repair::RepairRequestHandler", "consensus::blockstore::BlockstoreImpl"], "components start empty: a pre-filled table is state no input sequence justified"),
    "C11": (["shredder::reed_solomon::ReedSolomonCoder"], "the coder is built for the number of coding shards it was asked for"),
    "C12": (["consensus::blockstore::slot_block_data::BlockData", "consensus::blockstore::slot_block_data::SlotBlockData", "shredder::validated_shred::ValidatedShred"],
            "no commitment is cached and no leader is flagged before a shred arrived; a validated shred carries the root it was checked against"),
    "C13": (["consensus::blockstore::slot_block_data::BlockData", "consensus::blockstore::slot_block_data::SlotBlockData", "consensus::blockstore::BlockstoreImpl"],
            "block data starts without slices, last-slice marker or completed block"),
    "C14": (["repair::Repair", "repair::RepairRequestHandler"], "repair starts without outstanding requests, proven roots or slice counts, on the node's blockstore / pool"),
    "C16": (["disseminator::rotor::Rotor", "disseminator::turbine::Turbine", "disseminator::trivial::TrivialDisseminator"], "routing is computed from the epoch info the node was given"),
    "C17": (["disseminator::rotor::sampling_strategy::IidQuorumSampler", "disseminator::rotor::sampling_strategy::DecayingAcceptanceSampler", "disseminator::rotor::sampling_strategy::UniformSampler",
             "disseminator::rotor::sampling_strategy::StakeWeightedSampler"], "samplers keep the validator list, k and sample bound they were given"),
    "C18": (["consensus::votor::Votor", P + "PoolImpl"], "the Votor listens on the pool's channel it was given and broadcasts on the node's network"),
    "C19": (["types::slot::Slot", "shredder::shred_index::ShredIndex", "types::slice_index::SliceIndex", "types::validator_index::ValidatorIndex", "types::slice::SlicePayload"],
            "the wire newtypes wrap exactly the value given"),
    "C20": (["execution::DummyExecution", "execution::state::State"], "execution starts from no blocks and the empty state"),
}
SKIP = ("Turbine.fanout",)  # a tunable: every node uses the same compiled-in value

WIRING = {
    "C01": (("channels", "identity", "handles", "tasks", "self"), True),
    "C05": (("channels", "identity", "tasks"), False),
    "C07": (("channels", "tasks"), False),
    "C08": (("channels", "tasks", "handles", "self"), False),
    "C10": (("channels", "identity", "handles", "tasks", "self"), True),
    "C13": (("channels", "handles", "self"), False),
    "C14": (("channels", "handles", "tasks", "identity"), False),
    "C18": (("channels", "handles", "tasks", "self"), True),
    "C12": (("identity", "handles", "self"), False),
    "C16": (("handles", "self", "identity"), False),
    "C20": ((), False),
}
WHY_W = ("the components only form the protocol when wired as reviewed: pool and blockstore events reach the Votor, repair requests reach the repair loop, every component works on the "
         "one blockstore / pool / epoch info, signs with the node's keys, and every task is running")


MODS = {
    "C01": ["consensus"], "C03": ["consensus::pool"], "C04": ["consensus::pool"], "C05": ["consensus::votor"], "C06": ["consensus::pool"], "C07": ["consensus::pool"],
    "C08": ["consensus::pool"], "C09": ["consensus", "crypto"], "C10": ["consensus", "repair", "shredder", "network::udp", "all2all", "disseminator"],
    "C11": ["shredder"], "C12": ["consensus::blockstore", "shredder"], "C13": ["consensus::blockstore"], "C14": ["repair", "consensus::blockstore"],
    "C15": ["crypto::merkle"], "C16": ["disseminator"], "C17": ["disseminator::rotor"], "C18": ["consensus::pool", "consensus::votor", "consensus.rs"],
    "C19": ["network", "types", "consensus::vote", "consensus::cert"], "C20": ["execution"],
}
WHY_R = "a failed step that goes unnoticed (send / store / decode / verify) leaves the component believing the step happened"


ALLCH = ["blockstore->votor", "pool->votor", "pool->repair"]
DELIVERY = {"C01": ALLCH, "C03": ["pool->votor"], "C05": ["pool->votor", "blockstore->votor"], "C06": ["pool->votor"], "C07": ["pool->votor"], "C08": ["pool->votor"], "C10": ALLCH,
            "C12": ["blockstore->votor"], "C13": ["blockstore->votor"], "C14": ["pool->repair"], "C18": ["pool->votor"]}
WHY_D = ("what the blockstore / pool decided only takes effect when the event reaches the Votor (or the repair loop): an event dropped because a queue was full is never re-sent - "
         "the once-only flags that produced it are already set")


def register(run, prop):
    n = int(prop[1:])
    if prop in INITIAL:
        owners, why = INITIAL[prop]
        D.ob_initial_values(run, "O%d.iv" % n, owners, why, floor=len(owners), skip=SKIP)
    if prop in MODS:
        D.ob_results_not_discarded(run, "O%d.res" % n, [m for m in MODS[prop] if not m.endswith(".rs")], WHY_R)
        D.ob_no_globals(run, "O%d.glob" % n, [m for m in MODS[prop] if not m.endswith(".rs")],
                        "every node (and every instance in one process) must behave as a function of its inputs: a process-wide cache or registry couples instances and makes results depend on construction order")
        D.ob_no_new_truncation(run, "O%d.cut" % n, [m for m in MODS[prop] if not m.endswith(".rs")],
                               "votes, certificates, slots, shreds, datagrams and validators are processed one by one, all of them: what lies behind a new cut is silently never handled")
    if prop in DELIVERY:
        W.ob_event_delivery(run, "O%d.w3" % n, DELIVERY[prop], WHY_D)
    if prop in ("C01", "C03", "C04", "C18"):
        from . import C09
        C09.ob_try_new_complete(run, "O%d.adm" % n)
    if prop in ("C05", "C06", "C07", "C08", "C18"):
        # these properties act on certificates the node HOLDS, received ones included: a held certificate is backed by the stake its bitmask
        # proves, not the stake it declares, and was admitted through ValidatedCert::try_new only
        from . import C09
        C09.ob_threshold_validation(run, "O%d.thr" % n)
        C09.ob_cert_try_new(run, "O%d.cert" % n)
        C09.ob_construct(run, "O%d.con" % n)
    if prop in ("C03", "C04", "C05", "C06", "C07", "C08", "C18"):
        # a vote counts as the kind it was signed as: the signed bytes cover the kind tag (skip cannot be relabelled final, ..)
        from . import C09
        C09.ob_kind_binding(run, "O%d.kind" % n)
    if prop in ("C10", "C16", "C19"):
        W.ob_receive_cancel_safe(run, "O%d.w4" % n, "the node's loops select! over several receive() futures: whenever another branch is ready first the pending receive is dropped - "
                                 "datagrams it had already drained from the socket but not yet queued are lost for good (shreds never forwarded, votes never counted)")
    if prop in ("C04", "C13", "C15", "C18", "C19", "C12", "C14"):
        # "rejected with a verdict / reported / declined" means: not answered with a panic - the reviewed panic-site closure of the network-facing tasks (a new
        # diagnostic line that indexes or unwraps is a new panic site)
        from . import C10
        C10.ob_panic_closure(run, "O%d.pan" % n)
    if prop == "C01":
        from . import C06
        C06.ob_bookkeeping(run, "O1.7g")
    if prop == "C06":
        from . import C04
        with run.restricted(lambda oid: oid == "O6.12.1"):
            C04.check(run, prefix="O6.12")
    if prop == "C07":
        from . import C08
        C08.ob_direct_finalization(run, "O7.18")
        # "finalized b is announced, whatever order the certificates arrive in": direct finalization is reported exactly for the displaced statuses that justify it,
        # and the certificate arms of the pool call the tracker function of their own kind
        C08.ob_direct_reporting(run, "O7.18b")
        C08.ob_cert_wiring(run, "O7.18c")
    if prop == "C12":
        from . import C14
        with run.restricted(lambda oid: oid == "O12.15.3"):
            C14.check(run, prefix="O12.15", compose=False)
    if prop == "C15":
        from . import C14
        C14.ob_create_proof_guard(run, "O15.10")
    SEL = {"C10": list(W.FAIR_SELECTS), "C14": ["repair::Repair::repair_loop"], "C05": ["consensus::votor::Votor::voting_loop"], "C18": ["consensus::votor::Votor::voting_loop"],
           "C16": ["consensus::Alpenglow::message_loop"], "C13": ["consensus::Alpenglow::message_loop"]}
    if prop in SEL:
        W.ob_select_fair(run, "O%d.w5" % n, SEL[prop], "an attacker (or plain load) can keep one source permanently ready: with `biased;` the branches behind it - retry timers, requests from the pool, "
                         "votes - are starved for as long as that lasts")
    if prop in WIRING:
        parts, with_run = WIRING[prop]
        if parts:
            W.ob_new(run, "O%d.w1" % n, WHY_W, parts)
        if with_run:
            W.ob_run(run, "O%d.w2" % n, WHY_W)
