"""C10 — no network input or Byzantine-signed content can crash or wedge a node (structural part)."""
import re

from engine import guards as G
from engine import mir, panics
from . import common as K
from . import detectors as D
from . import panic_review
from .common import A, fshort

EXPLANATION = (
    "Decides O10.1-O10.5: (1) reviewed panic-site closure - every panic site (explicit panic!/assert!/unreachable!, "
    "unwrap/expect, slice/Vec/map indexing, bounds/division asserts, newtype arithmetic, and overflow asserts on "
    "wire-unbounded Slot values) in every body reachable in the call graph from the network-facing tasks "
    "(message_loop, standstill_loop, repair request handler, repair loop, block production loop, voting loop) is either "
    "discharged by a typed idiom or listed with a reviewed reason; an unlisted site, or one more site than reviewed in a "
    "function, is a violation naming the site and a call chain to it; (2) validate-then-use: consumers take Validated* "
    "values and every EpochInfo::validator(i) call gets a validated / locally derived index; (3) client transactions are "
    "size-checked before they are serialised into a slice; (4) lock order: no task acquires pool/blockstore locks in an "
    "order that forms a cycle (guard live ranges over the MIR CFG, closed over the call graph); (5) results of validation / "
    "admission are matched, never unwrapped. Absence of panics inside dependencies, value-dependent arithmetic in "
    "general, resource exhaustion and liveness after hostile input are NOT decided."
)

ENTRY_SUFFIXES = ["consensus::Alpenglow::message_loop", "consensus::Alpenglow::standstill_loop", "repair::RepairRequestHandler::run", "repair::Repair::repair_loop",
                  "consensus::block_producer::BlockProducer::block_production_loop", "consensus::votor::Votor::voting_loop"]

OVERFLOW_REVIEW = {
    ("types::slot::Slot::slots_in_window", "assert", "Overflow:Add"): (1, "start = first_slot_in_window() is a multiple of SLOTS_PER_WINDOW (4) <= u64::MAX - 3, so start + 3 cannot overflow"),
    ("types::slot::Slot::last_slot_in_window", "assert", "Overflow:Add"): (1, "window*4 <= u64::MAX - 3 (see above)"),
    ("types::slot::Slot::last_slot_in_window", "assert", "Overflow:Mul"): (1, "(slot / 4) * 4 <= slot"),
    ("types::slot::Slot::first_slot_in_window", "assert", "Overflow:Mul"): (1, "(slot / 4) * 4 <= slot"),
    ("types::slot::Slot::future_slots", "assert", "Overflow:Add"): (1, "only used by the pool's trackers on slots inside the admission window (finalized + 2*SLOTS_PER_EPOCH)"),
    ("<consensus::pool::PoolImpl as consensus::pool::Pool>::add_cert::{closure#0}", "assert", "Overflow:Add"): (1, "finalized_slot + 2*SLOTS_PER_EPOCH: the finalized slot advances by at most 2*SLOTS_PER_EPOCH per certificate, starting at 0 (not reachable within any feasible run)"),
    ("<consensus::pool::PoolImpl as consensus::pool::Pool>::add_vote::{closure#0}", "assert", "Overflow:Add"): (1, "as add_cert"),
}


def entry_points(prog):
    return sorted(d for d in prog.bodies if any(d == A + s for s in ENTRY_SUFFIXES))


def slot_overflow(site):
    """overflow assert one of whose operands is (shallowly) a wire-unbounded Slot value"""
    if not (site.kind == "assert" and site.what.startswith("Overflow")):
        return False

    def shallow(t, depth=0):
        t = K.peel(t)
        if not isinstance(t, tuple) or depth > 2:
            return False
        if t[0] == "field" and t[3].endswith("types::slot::Slot"):
            return True
        if t[0] == "call" and t[1].endswith("Slot::inner"):
            return True
        if t[0] == "cast":
            return shallow(t[2], depth + 1)
        if t[0] == "field" and t[2] == "0" and t[1][0] == "bin":
            return shallow(t[1][2], depth + 1) or shallow(t[1][3], depth + 1)
        if t[0] == "bin":
            return shallow(t[2], depth + 1) or shallow(t[3], depth + 1)
        return False
    return any(shallow(x) for x in site.term[1])


def ob_panic_closure(run, oid):
    prog = run.program("lib")
    o = run.ob(oid, "reviewed panic-site closure of the network-facing tasks",
               "a reachable panic in one of these tasks stops the node from voting / producing / repairing (tokio task dies or the process aborts)", floor=150)
    roots = entry_points(prog)
    if len(roots) < len(ENTRY_SUFFIXES):
        for s in ENTRY_SUFFIXES:
            if A + s not in prog.bodies:
                o.missing("entry point " + s)
    table = dict(panic_review.TABLE)
    table.update(OVERFLOW_REVIEW)

    def skip(site):
        if site.kind == "assert" and site.what.startswith("Overflow"):
            return not slot_overflow(site)
        return False

    nb, ns = panics.review(o, prog, roots, table, fshort, include_overflow=True, skip=skip, auto=panic_review.auto)
    # entry points are discovered by role as well: every body calling Network::receive must be inside the closure
    U = prog.reachable_from(roots)
    recv_callers = set()
    for d, b in prog.bodies.items():
        if b.generated or d.startswith(A + "network::") or d.startswith("<" + A + "network::"):
            continue
        for c in b.calls():
            if c.callee.endswith("Network::receive") or c.callee.endswith("All2All::receive") or c.callee.endswith("Disseminator::receive"):
                recv_callers.add(d)
    outside = sorted(d for d in recv_callers if d not in U)
    o.check(not outside, "entry-points|complete", "every body that receives from a network is inside the analysed closure", "", {"outside": [fshort(x) for x in outside]})
    run.notes.append("O10.1: %d entry points, %d reachable bodies examined, %d panic sites classified; overflow asserts are in scope only when an operand is a Slot value" % (len(roots), nb, ns))


def ob_window_arith(run, oid):
    prog = run.program("lib")
    o = run.ob(oid, "Slot's window helpers cannot overflow, not even in the last window of u64",
               "shred slots are not bounded: the leader of the last window could make every Votor panic in try_skip_window (slots_in_window) via an invalid block", floor=3)
    spw = prog.const_int(A + "types::slot::SLOTS_PER_WINDOW")
    for fn in ("slots_in_window", "last_slot_in_window", "first_slot_in_window"):
        b = prog.body(A + "types::slot::Slot::" + fn)
        if b is None:
            o.missing("Slot::" + fn)
            continue
        n = 0
        for s_ in panics.sites(b, prog, include_overflow=True):
            if not (s_.kind == "assert" and s_.what.startswith("Overflow")):
                continue
            n += 1
            a, c = s_.term[1][0], s_.term[1][1]
            if s_.what == "Overflow:Add":
                k = K.const_eval(c) if K.const_eval(c) is not None else K.const_eval(a)
                other = a if K.const_eval(c) is not None else c
                # other must be a multiple of SLOTS_PER_WINDOW: first_slot_in_window() result or (x / SPW) * SPW
                mult = K.mentions_call(other, "first_slot_in_window") or K.mentions(other, lambda t: t[0] == "bin" and t[1].startswith("Mul") and (K.const_eval(t[3]) == spw or K.const_eval(t[2]) == spw))
                o.check(k is not None and 0 <= k <= spw - 1 and mult, "Slot::%s|add|%d" % (fn, s_.ordinal), "adds a constant <= SLOTS_PER_WINDOW - 1 to a multiple of SLOTS_PER_WINDOW", s_.span, {"lhs": mir.show(a)[:80], "rhs": mir.show(c)[:80]})
            elif s_.what == "Overflow:Mul":
                div = K.mentions(a, lambda t: t[0] == "bin" and t[1] == "Div" and K.const_eval(t[3]) == spw) or K.mentions(c, lambda t: t[0] == "bin" and t[1] == "Div" and K.const_eval(t[3]) == spw)
                k = K.const_eval(c) if K.const_eval(c) is not None else K.const_eval(a)
                o.check(bool(div) and k == spw, "Slot::%s|mul|%d" % (fn, s_.ordinal), "multiplies (slot / SLOTS_PER_WINDOW) by SLOTS_PER_WINDOW (<= slot)", s_.span, {"lhs": mir.show(a)[:80], "rhs": mir.show(c)[:80]})
            elif s_.what == "Overflow:Sub" and K.const_eval(a) is not None and K.const_eval(c) is not None and K.const_eval(a) >= K.const_eval(c):
                o.ok("Slot::%s|const-sub|%d" % (fn, s_.ordinal), "constant subtraction %d - %d" % (K.const_eval(a), K.const_eval(c)), s_.span, nontrivial=False)
            elif s_.what == "Overflow:Sub" and panic_review.auto(s_, prog):
                o.ok("Slot::%s|sub|%d" % (fn, s_.ordinal), panic_review.auto(s_, prog), s_.span)
            else:
                # another spelling: decide by value - the helper must not panic for any slot of the first windows, around 2^32 / 2^63 and
                # of the last two windows of u64 (these functions are piecewise linear in the slot with period SLOTS_PER_WINDOW)
                from . import slots as _SL
                from . import termeval as _TE
                bad = None
                grid = list(range(0, 3 * spw + 1)) + [2 ** 32 - 1, 2 ** 32, 2 ** 63 - 1, 2 ** 63] + list(range(2 ** 64 - 2 * spw - 1, 2 ** 64))
                try:
                    for sl in grid:
                        try:
                            if fn == "slots_in_window":
                                _SL.eval_fn(prog, A + "types::slot::Slot::first_slot_in_window", [sl])
                                _SL.eval_fn(prog, A + "types::slot::Slot::last_slot_in_window", [sl])
                            else:
                                _SL.eval_fn(prog, A + "types::slot::Slot::" + fn, [sl])
                        except _TE.Overflow as e:
                            bad = "panics for slot %d (%s)" % (sl, e)
                            break
                except _TE.Unknown as e:
                    bad = "not evaluable (%s)" % str(e)[:60]
                o.check(bad is None, "Slot::%s|%s|%d" % (fn, s_.what, s_.ordinal), "checked arithmetic %s in a window helper: no panic for any slot of the first, 2^32 / 2^63 and last windows (by value)" % s_.what, s_.span, {"problem": bad})
        if n == 0:
            o.ok("Slot::%s|no-checked-arith" % fn, "no overflow-checked arithmetic", b.span, nontrivial=False)


def ob_validate_then_use(run, oid):
    prog = run.program("lib")
    o = run.ob(oid, "validate-then-use: consumers take Validated* values; validator(i) is only called with validated or locally derived indices",
               "an unvalidated index or message reaching Pool/Blockstore/epoch tables panics or admits forgeries", floor=8)
    want = {
        "Blockstore::add_shred_from_dissemination": "ValidatedShred", "Blockstore::add_shred_from_repair": "ValidatedShred",
        "Pool::add_vote": "ValidatedVote", "Pool::add_cert": "ValidatedCert",
    }
    for d, b in prog.bodies.items():
        if b.is_closure or b.generated:
            continue
        for k, ty in want.items():
            if d.endswith(">::" + k.split("::")[1]) and ("as " + A + "consensus::" in d) and k.split("::")[0] + ">" in d:
                o.check(ty in b.rec.get("sig", ""), "%s|takes-%s" % (fshort(d), ty), "%s takes a %s" % (k, ty), b.span)
    sites = [c for c in prog.callers_of(A + "consensus::epoch_info::EpochInfo::validator") if not c.body.generated]
    for c, key in K.ordinal_keys(sites, lambda c: "%s|EpochInfo::validator" % fshort(c.body.defpath)):
        b = c.body
        t = b.operand_term(c.args[1])
        pv = b.provenance(t)
        cls = None
        if any(x.endswith("own_id") for x in pv["calls"]):
            cls = "own id"
        elif any(x.endswith("ValidatorIndex::new") for x in pv["calls"]) and fshort(b.defpath).endswith("EpochInfo::leader"):
            cls = "leader index (window % validators.len())"
        elif any(x.endswith("Vote::signer") for x in pv["calls"]):
            # must be behind the range check (ValidatedVote::try_new) or operate on a vote taken out of a ValidatedVote
            if fshort(b.defpath).endswith("ValidatedVote::try_new"):
                g = [a for a in G.guard_atoms(b, c.bb, prog) if a[0] == "lt" and a[2] is True and K.mentions_call(a[1][0], "Vote::signer")]
                cls = "signer, range-checked on the line before" if g else None
            elif any(x.endswith("ValidatedVote::into_vote") for x in pv["calls"]):
                cls = "signer of a ValidatedVote"
        elif any(x.endswith("sample_relay") or x.endswith("TurbineTree::get_root") or x.endswith("get_children") for x in pv["calls"]):
            cls = "index produced by the sampler / shuffle over the validator set"
        elif b.is_closure and K.peel(t)[0] == "param" and K.root_fn(b.defpath).endswith("Turbine::forward_shred"):
            # closure mapped over tree.get_children(): its parameter is a child index of the shuffled order
            cls = "index produced by the sampler / shuffle over the validator set"
        elif K.peel(t)[0] in ("param", "upvar"):
            # parameter: check callers guard it
            callers = prog.callers_of(K.root_fn(b.defpath))
            ok = bool(callers)
            for cc in callers:
                g = [a for a in G.guard_atoms(cc.body, cc.bb, prog) if a[0] == "lt" and a[2] is True and (K.mentions_field(a[1][0], "sender") or K.mentions_call(a[1][0], "as_usize"))]
                ok = ok and bool(g)
            cls = "parameter range-checked by every caller" if ok else None
        o.check(cls is not None, key + "|index-class", "index is: %s" % cls, c.span, {"arg": mir.show(t)[:140], "calls": sorted(fshort(x) for x in pv["calls"])[:6]})


def ob_sanitise_tx(run, oid):
    prog = run.program("lib")
    o = run.ob(oid, "client transactions are size-checked before they are serialised into a slice",
               "an oversized transaction underflows the remaining-space computation (panic, overflow checks are on in release) or yields a slice too large to shred", floor=5)
    mx = prog.const_int(A + "MAX_TRANSACTION_SIZE")
    sites = []
    for b in prog.family(A + "consensus::block_producer::produce_slice_payload"):
        for c in b.calls():
            if c.name.endswith("serialize_into") and any("Transaction" in t for t in c.targs + [c.callee_args]):
                sites.append((b, c))
    if not sites:
        o.missing("serialize_into::<Transaction> in produce_slice_payload")
    for b, c in sites:
        g = None
        for a in G.guard_atoms(b, c.bb, prog):
            if a[0] == "lt" and any(K.peel(x)[0] == "const" and K.peel(x)[2] == mx for x in a[1]) and any(K.mentions_call(x, "::len") for x in a[1]):
                # the guard must hold exactly for len <= MAX
                ca = K.peel(a[1][0])
                if ca[0] == "const":
                    ok = (a[2] is False)      # !(MAX < len)
                else:
                    ok = False
                    # lt(len, MAX+1) forms are not used; accept lt(len, c) True with c == MAX+1
                if ok:
                    g = a
        o.check(g is not None, "produce_slice_payload|serialize_into|size-check", "reached only when tx.len() <= MAX_TRANSACTION_SIZE (%s)" % mx, c.span, {"guards": K.show_atoms(prog, b, c.bb)[-5:]})
        # the per-transaction space reservation uses the same constant
        sp = [bl for bl in b.blocks if bl["term"]["k"] == "switch" and K.mentions(b.operand_term(bl["term"]["d"]), lambda t: t[0] == "const" and len(t) > 3 and t[3].endswith("MAX_TRANSACTION_SIZE"))]
        o.check(len(sp) >= 1, "produce_slice_payload|space-reservation", "the loop stops when fewer than MAX_TRANSACTION_SIZE + 8 bytes are left", b.span)
        # the amount reserved per iteration covers the largest transaction the size check lets through, as encoded
        from . import C19
        sc = C19.SizeCalc(prog, C19.wire_consts(prog), None)
        tx_max = sc.size(A + "Transaction")
        par_max = sc.size("core::option::Option<(" + A + "types::slot::Slot, " + A + "crypto::hash::Hash)>") if hasattr(sc, "size") else None
        res = []
        for bl in b.blocks:
            if bl["term"]["k"] != "switch" or bl["id"] not in b.reach():
                continue
            for v, atoms in G.switch_atoms(b, bl["id"], prog).items():
                for a in atoms:
                    if a[0] != "lt":
                        continue
                    free, thr = K.peel(a[1][0]), a[1][1]
                    if isinstance(free, tuple) and free[0] == "field" and free[2] == "0":
                        free = free[1]
                    if not (isinstance(free, tuple) and free[0] == "bin" and free[1].startswith("Sub") and K.mentions_call(free[3], "::len")):
                        continue
                    t = K.const_eval(thr)
                    if t is None:
                        continue
                    # which edge continues the loop (can reach the serialisation again)?
                    tgt = [e[1] for e in b.edges() if e[0] == bl["id"] and e[2] == ("sw", v)]
                    again = bool(tgt) and c.bb in b.reachable(tgt[0])
                    res.append((bl["id"], a[2], t, again, bl["term"].get("sp", "")))
        cont = [r for r in res if r[3]]
        stop = [r for r in res if not r[3]]
        ok = bool(cont) and all((r[1] is False and r[2] >= tx_max) for r in cont) and all(r[1] is True for r in stop)
        o.check(ok, "produce_slice_payload|space-reservation|covers-encoded-tx", "another transaction is accepted only while free space >= %d = encoded size of the largest admitted transaction (length prefix + MAX_TRANSACTION_SIZE)" % tx_max,
                cont[0][4] if cont else b.span, {"guards": [(r[1], r[2], "continues" if r[3] else "stops") for r in res], "max_encoded_transaction": tx_max})
        # the space reserved for the parent covers the largest parent the payload can end up with: a slice produced with `None` may get `Some(parent)` switched in
        # afterwards (apply_parent_ready), 40 bytes more (D20)
        caps = [c2 for c2 in b.calls() if c2.name.endswith("Vec::with_capacity") or c2.name.endswith("::with_capacity")]
        okp = False
        detp = {}
        for c2 in caps:
            ct = b.operand_term(c2.args[0])
            if not K.mentions(ct, lambda t: t[0] == "const" and len(t) > 3 and str(t[3]).endswith("MAX_DATA_PER_SLICE")):
                continue
            sizes = [y for y in mir.walk(ct) if isinstance(y, tuple) and y and y[0] == "call" and y[1].endswith("serialized_size")]
            with_some = [y for y in sizes if any(isinstance(z, tuple) and z and z[0] == "agg" and str(z[1]).endswith("option::Option") and z[2] == "Some" for z in mir.walk(y))
]
            maxes = [y for y in mir.walk(ct) if isinstance(y, tuple) and y and y[0] == "call" and y[1].rsplit("::", 1)[-1] == "max"]
            detp = {"serialized_size calls": len(sizes), "with Some(..)": len(with_some), "max": len(maxes)}
            okp = bool(with_some) and (bool(maxes) or len(sizes) == 1)
        o.check(okp, "produce_slice_payload|space-reservation|covers-largest-parent", "the space reserved for the parent is at least the encoded size of Some(parent) (max with the given parent's size)", b.span, detp)
        # the transaction counter written into the length prefix counts exactly the transactions that were serialised
        incs = []
        for (bb2, i2, dst2, rv2, sp2) in b.assignments():
            if dst2["p"] or rv2["k"] != "use":
                continue
            t2 = b.rvalue_term(rv2)
            if isinstance(t2, tuple) and t2 and t2[0] == "field" and t2[2] == "0" and isinstance(t2[1], tuple) and t2[1][0] == "bin" and t2[1][1].startswith("Add") and K.const_eval(t2[1][3]) == 1:
                base = t2[1][2]
                if isinstance(base, tuple) and base and base[0] == "local" and base[1] == dst2["l"]:
                    incs.append((bb2, sp2))
        tole = [x for x in b.calls() if x.name.rsplit("::", 1)[-1] == "to_le_bytes"]
        if incs and tole:
            okc = True
            for (bb2, sp2) in incs:
                same_guard = any(a[0] == "lt" and a[2] is False and K.const_eval(a[1][0]) == mx and K.mentions_call(a[1][1], "::len") for a in G.guard_atoms(b, bb2, prog))
                okc = okc and same_guard and (b.dominates(bb2, c.bb) or b.dominates(c.bb, bb2))
            o.check(okc and len(incs) == 1, "produce_slice_payload|tx-count=serialised", "the count written into the slice's length prefix is incremented exactly for the transactions that are serialised "
                    "(behind the same size check, on the same path)", incs[0][1], {"increments": len(incs)})
        md = prog.const_int(A + "shredder::MAX_DATA_PER_SLICE")
        if md is not None and par_max is not None:
            o.check(md - par_max - 8 - 8 >= tx_max, "produce_slice_payload|space-reservation|first-iteration",
                    "an empty slice has room for one maximal transaction: MAX_DATA_PER_SLICE - encoded parent (%d) - data length (8) - count (8) >= %d" % (par_max, tx_max), b.span)


def ob_lock_order(run, oid):
    prog = run.program("lib")
    o = run.ob(oid, "no lock-order cycle between the shared pool / blockstore / network locks",
               "two tasks taking the same two locks in opposite order deadlock: the node stops voting, producing and repairing without crashing", floor=3)
    edges, cyc, nranges, nbodies = D.lock_graph(prog)
    run.notes.append("O10.4: %d guard live ranges in %d bodies; lock-order edges: %s" % (nranges, nbodies, sorted("%s->%s" % k for k in edges) or "none"))
    o.check(nranges >= 20, "guards-analysed", "%d lock guard live ranges analysed in %d bodies" % (nranges, nbodies), "")
    if not cyc:
        o.ok("lock-graph|acyclic", "lock-order graph is acyclic (edges: %s)" % (sorted("%s->%s" % k for k in edges) or "none"), "")
    for cy in cyc[:5]:
        wit = edges.get((cy[0], cy[1]), [("", "")])[0]
        o.fail("lock-graph|cycle|%s" % "->".join(cy), "lock-order cycle %s" % " -> ".join(cy), wit[1], {"witnesses": {"%s->%s" % k: v[:3] for k, v in edges.items()}})
    for k, v in sorted(edges.items()):
        o.ok("lock-graph|edge|%s->%s" % k, "%s is acquired while %s is held (%d site(s)), e.g. in %s" % (k[1], k[0], len(v), v[0][0]), v[0][1])


def ob_error_discipline(run, oid):
    prog = run.program("lib")
    o = run.ob(oid, "results of validation / admission are matched, never unwrapped; hostile-data errors do not propagate out of the message loop",
               "an unwrap on a validation result turns every invalid message into a crash; propagating it with `?` ends the message loop", floor=3)
    U = prog.reachable_from(entry_points(prog))
    risky = ("ValidatedVote::try_new", "ValidatedCert::try_new", "ValidatedShred::try_new", "Pool::add_vote", "Pool::add_cert", "Blockstore::add_shred_from_dissemination", "Blockstore::add_shred_from_repair", "network::deserialize")
    bad = []
    n = 0
    for d in U:
        b = prog.bodies[d]
        if b.generated:
            continue
        for c in b.calls():
            if any(c.callee.endswith(u) for u in panics.UNWRAPS) and c.callee.startswith(panics.UNWRAP_OWNERS):
                n += 1
                pv = b.provenance(b.operand_term(c.args[0]))
                hit = [r for r in risky if any(x.endswith(r) for x in pv["calls"])]
                if hit:
                    bad.append((fshort(d), c.span, hit))
    o.check(not bad, "no-unwrap-on-validation", "none of the %d unwrap/expect calls in the closure takes a validation / admission / decode result" % n, "", {"bad": bad})
    for b in prog.family(A + "consensus::Alpenglow::message_loop"):
        if not b.is_closure or "closure#0}::{closure" in b.defpath:
            continue
        # `?` sites: Try::branch on results of receive() / handle_disseminator_shred only
        srcs = set()
        for c in b.calls():
            if c.callee.endswith("Try::branch"):
                pv = b.provenance(b.operand_term(c.args[0]))
                for x in pv["calls"]:
                    if x.endswith("::receive") or "handle_" in x:
                        srcs.add(x.rsplit("::", 1)[-1] if not "handle_" in x else x.split("::")[-1])
        o.check(srcs <= {"receive", "handle_disseminator_shred", "handle_disseminator_shred::{closure#0}", "{closure#0}"} or all("receive" in s or "handle_disseminator_shred" in s or "closure" in s for s in srcs), "message_loop|question-marks",
                "`?` in the message loop only on socket receive errors / the forwarder's I/O result", b.span, {"sources": sorted(srcs)})
    for b in prog.family(A + "consensus::Alpenglow::handle_disseminator_shred"):
        if not b.is_closure:
            continue
        tn = b.calls_to(A + "shredder::validated_shred::ValidatedShred::try_new")
        for c in tn:
            # the Err arm returns Ok(()) (drops the shred) rather than propagating
            errs = [(bb, sp) for (bb, rv, sp, dst) in b.aggregates("core::result::Result", "Err")]
            o.check(not errs, "handle_disseminator_shred|invalid-shred-dropped", "an invalid shred is dropped (no Err constructed from the validation failure)", c.span)


def ob_own_slots_not_ingested(run, oid):
    """the reviewed reason of the panics in BlockData::add_own_slice is 'own slices only': shreds from the network never enter the data of a slot this node leads"""
    prog = run.program("lib")
    o = run.ob(oid, "handle_disseminator_shred hands a shred to the blockstore only when this node is not the slot's leader",
               "BlockData::add_own_slice panics when a slice of the own block is already there ('added twice' / 'added after the last slice'): if a relay can "
               "echo the leader's shred into the leader's own block data first, one datagram kills block production", floor=1)
    fam = [b for b in prog.family(A + "consensus::Alpenglow::handle_disseminator_shred") if b.is_closure]
    if not fam:
        o.missing("Alpenglow::handle_disseminator_shred")
        return o
    n = 0
    for b in fam:
        for c in b.calls():
            if not c.name.endswith("add_shred_from_dissemination"):
                continue
            n += 1
            g = None
            for a in G.guard_atoms(b, c.bb, prog):
                if a[0] in ("eq", "ne") and len(a[1]) == 2:
                    l, r = a[1]
                    both = (K.mentions_call(l, "EpochInfo::leader") and K.mentions_call(r, "::own_id")) or (K.mentions_call(r, "EpochInfo::leader") and K.mentions_call(l, "::own_id"))
                    differ = (a[0] == "eq" and a[2] is False) or (a[0] == "ne" and a[2] is True)
                    if both and differ:
                        g = a
            o.check(g is not None, "handle_disseminator_shred|add_shred_from_dissemination|not-own-slot", "guarded by leader(slot).id != own_id()", c.span, {"guards": K.show_atoms(prog, b, c.bb)})
            if g is not None:
                lt = g[1][0] if K.mentions_call(g[1][0], "EpochInfo::leader") else g[1][1]
                o.check(K.mentions_field(lt, "slot") and K.mentions(lt, lambda y: isinstance(y, tuple) and y and y[0] in ("param", "upvar", "local")), "handle_disseminator_shred|leader-of-the-shreds-slot",
                        "the leader compared is the leader of the shred's own slot", c.span, {"leader": mir.show(lt)[:100]})
    if n == 0:
        o.missing("add_shred_from_dissemination call in handle_disseminator_shred")
    return o


def ob_second_cert_no_watermark_assert(run, oid):
    """one notar vote can create the notarization AND the fast-finalization certificate; PoolImpl hands them to the finality tracker one after the other"""
    prog = run.program("lib")
    o = run.ob(oid, "FinalityTracker::mark_fast_finalized does not assert slot >= first_unpruned_slot (it can be reached, in the same add_vote call, after mark_notarized moved the watermark)",
               "a validator with more than 20% of the stake lifts a block from < 60% to >= 80% with one vote: with the finalization certificate held, the notarization certificate "
               "finalizes the slot and advances the watermark, and the fast-finalization certificate of the same vote arrives for a slot below it - an assertion there panics "
               "under the pool lock (debug builds)", floor=1)
    b = prog.body(A + "consensus::pool::finality_tracker::FinalityTracker::mark_fast_finalized")
    if b is None:
        o.missing("FinalityTracker::mark_fast_finalized")
        return o
    bad = []
    pred = b.pred()
    for bl in b.blocks:
        if not b.is_panic_block(bl["id"]) or bl["id"] not in b.reach():
            continue
        # the decision that leads INTO the panic: walk back over straight-line blocks to the nearest switch
        cur, seen = bl["id"], set()
        while cur is not None and cur not in seen:
            seen.add(cur)
            ps = [p_ for p_ in pred[cur] if p_ in b.reach()]
            if len(ps) != 1:
                break
            t = b.blocks[ps[0]]["term"]
            if t["k"] == "switch":
                if K.mentions_field(b.operand_term(t["d"]), "first_unpruned_slot"):
                    bad.append((bl["id"], mir.show(b.operand_term(t["d"]))[:80]))
                break
            cur = ps[0]
    o.check(not bad, "mark_fast_finalized|no-watermark-assertion", "no panic in mark_fast_finalized is conditioned on the watermark", b.span, {"sites": bad[:3]})
    early = any(any(a[0] == "lt" and a[2] is True and any(K.mentions_field(x, "first_unpruned_slot") for x in a[1] if isinstance(x, tuple)) for a in G.guard_atoms(b, c.bb, prog)) for c in b.calls() if c.name.endswith("default"))
    o.check(early, "mark_fast_finalized|already-decided-is-a-no-op", "a slot below the watermark is answered with the empty event", b.span)
    return o


def ob_recv_flags(run, oid):
    """the reviewed reason for `&scratch[i][..len]` in UdpNetwork::recv_batch is 'len <= buffer size because MSG_TRUNC is not requested': decide that"""
    prog = run.program("lib")
    o = run.ob(oid, "recvmmsg / recv are called without MSG_TRUNC (and without MSG_PEEK): the length the kernel reports for a datagram never exceeds the buffer it was received into",
               "with MSG_TRUNC the reported length is the datagram's real length: one oversized datagram makes the receive path slice beyond its buffer and the task panics", floor=1)
    n = 0
    for d, b in sorted(prog.bodies.items()):
        if b.generated or "network::udp" not in d:
            continue
        for c in b.calls():
            last = c.name.rsplit("::", 1)[-1]
            if last in ("recvmmsg", "recv", "recvfrom", "recvmsg") and c.name.startswith("libc::"):
                n += 1
                idx = {"recvmmsg": 3, "recv": 3, "recvfrom": 3, "recvmsg": 2}[last]
                t = b.operand_term(c.args[idx])
                v = K.const_eval(t)
                o.check(v is not None and (v & 0x20) == 0 and (v & 0x2) == 0, "%s|%s|flags" % (fshort(d).split("::{closure")[0], last), "flags are a constant without MSG_TRUNC (0x20) / MSG_PEEK (0x2)", c.span, {"flags": mir.show(t)[:60]})
    o.check(n >= 1, "udp|receive-syscalls", "%d receive system call(s) in network::udp examined" % n, "")


def check(run):
    ob_recv_flags(run, "O10.7")
    ob_own_slots_not_ingested(run, "O10.1m")
    ob_second_cert_no_watermark_assert(run, "O10.1p")
    # the reviewed reason of `unreachable!("own block failed reconstruction")` in add_own_slice: whatever produce_slice_payload puts into a slice (any number of
    # client transactions that fit the byte budget) decodes again - the slice decoder's preallocation limit covers the largest count
    from . import C19 as _C19d
    with run.restricted(lambda oid: oid == "O10.10.1"):
        _C19d.check(run, prefix="O10.10")
    # the reviewed reason of the 'consensus safety violation' panics in the finality tracker is 'only if conflicting certificates were admitted': that holds
    # only while implicit finalization starts from the block recorded as finalized (not from any block registered for a finalized slot)
    from . import C08 as _C08i
    _C08i.ob_implicit_sources(run, "O10.1n")
    # "...or wedges a node": a response that does not verify must leave the request outstanding, so that the timeout re-issues it
    from . import C14 as _C14w
    with run.restricted(lambda oid: oid == "O10.9.2"):
        _C14w.check(run, prefix="O10.9", compose=False)
    from . import detectors as _DL
    _DL.ob_loop_exits(run, "O10.6", ['consensus', 'repair::', 'shredder'], 'a message loop or per-element handler that can be left early stops serving')
    ob_panic_closure(run, "O10.1")
    ob_window_arith(run, "O10.1b")
    from . import C13
    C13.ob_last_slice_prune(run, "O10.1c")
    C13.ob_content_gates(run, "O10.1j")
    from . import C14
    C14.ob_create_proof_guard(run, "O10.1d")
    C14.ob_request_identifier(run, "O10.1i")
    # the reviewed unreachable!() / expect() sites of handle_response rely on the repair bookkeeping being written only where reviewed
    D.ob_state_mutations(run, "O10.1k", ['repair::Repair'], 'handle_response treats "outstanding Shred request without a known slice root" as unreachable: freeing roots / slice counts while requests are outstanding makes a late response panic the repair task')
    # an out-of-range last-slice index accepted by check_proof_last derails the repair for good (requests beyond the block, NACKed for ever)
    from . import C15
    with run.restricted(lambda oid: oid in ("O10.8.1", "O10.8.2")):
        C15.check(run, prefix="O10.8", compose=False)
    from . import C11
    C11.ob_validated_set(run, "O10.1e")
    C11.ob_coder_reset(run, "O10.1f")
    C11.ob_restored_size_bound(run, "O10.1h")
    from . import C05
    C05.ob_stale_events(run, "O10.1g")
    ob_validate_then_use(run, "O10.2")
    ob_sanitise_tx(run, "O10.3")
    ob_lock_order(run, "O10.4")
    ob_error_discipline(run, "O10.5")
