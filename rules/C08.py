"""C08 — per-node finality tracking and pruning are certificate-justified and lossless (structural part)."""
from engine import guards as G
from engine import mir
from . import common as K
from . import detectors as D
from .common import POOL, fshort

EXPLANATION = (
    "Decides O8.1-O8.8 on the MIR of consensus::pool::{finality_tracker, parent_ready_tracker} and pool.rs: a decided "
    "per-slot status (the variants prune() treats as decided) is never left overwritten by an undecided one; direct "
    "finalization happens only from the (final, notar) pair or a fast-final certificate; the two watermarks are written "
    "only monotonically in their owners; every discard boundary is the watermark (not the highest finalized slot); "
    "admission checks the watermark before creating per-slot state; finalization events flow into the parent-ready "
    "tracker and pruning; answers are read from stored certificates; pruning covers every per-slot container. "
    "Does NOT decide commutation over all arrival orders."
)

FT = POOL + "finality_tracker::FinalityTracker"
FS = POOL + "finality_tracker::FinalizationStatus"
PRT = POOL + "parent_ready_tracker::ParentReadyTracker"
PI = POOL + "PoolImpl"


def decided_variants(prog):
    """read the decided/undecided partition from FinalityTracker::prune's predicate"""
    out = None
    for b in prog.family(FT + "::prune"):
        for (s, dterm, dty) in b.switches():
            sa = G.switch_atoms(b, s, prog)
            names_by_target = {}
            es = b.edges()
            for v, atoms in sa.items():
                for a in atoms:
                    if a[0] == "variant":
                        tgt = [e[1] for e in es if e[0] == s and e[2] == ("sw", v)][0]
                        names_by_target.setdefault(tgt, set()).update(a[1][1])
            if not names_by_target:
                continue
            # the target whose block assigns constant true to the result
            for tgt, names in names_by_target.items():
                region = [tgt]
                while b.blocks[region[-1]]["term"]["k"] == "goto" and len(region) < 6:
                    region.append(b.blocks[region[-1]]["term"]["t"])
                for bb in region:
                    for st in b.blocks[bb]["stmts"]:
                        if st["k"] == "assign":
                            t = b.rvalue_term(st["rv"])
                            if t[0] == "const" and t[1] == "bool" and t[2] == 1:
                                out = set(names)
            if out:
                return out
    return out


def status_inserts(prog, b):
    """calls BTreeMap::insert(self.status, slot, value) in body b: (call, value_variant or None)"""
    out = []
    for c in b.calls():
        if c.name.endswith("BTreeMap::insert") or c.name.endswith("BTreeMap::<K, V, A>::insert"):
            t0 = b.operand_term(c.args[0])
            if K.is_field(t0, "status", "FinalityTracker"):
                v = K.peel(b.operand_term(c.args[2]))
                var = v[2] if isinstance(v, tuple) and v[0] == "agg" and v[1] == FS else None
                out.append((c, var, v))
    return out


def ob_no_downgrade(run, oid):
    prog = run.program("lib")
    o = run.ob(oid, "a decided per-slot status is never left overwritten by an undecided one",
               "a downgraded slot stops the pruning watermark for ever (state retained without bound) or lets the same slot be reported finalized twice", floor=3)
    decided = decided_variants(prog)
    if not decided:
        o.missing("decided-status predicate in FinalityTracker::prune")
        return
    all_vars = set(v["name"] for v in prog.adts[FS]["variants"]) if FS in prog.adts else set()
    undecided = all_vars - decided
    run.notes.append("decided statuses (read from FinalityTracker::prune): %s ; undecided: %s" % (sorted(decided), sorted(undecided)))
    n = 0
    for b in K.bodies_in(prog, POOL + "finality_tracker::"):
        for (key, ok, what, sp, det) in D.no_downgrade(prog, b, "status", "FinalityTracker", FS, decided):
            if "|over-" in key or "|old-ignored" in key or "|pre-guarded" in key:
                n += 1
            o.check(ok, "%s|%s" % (fshort(b.defpath), key), what, sp, det)
    if n == 0:
        o.missing("insert of an undecided FinalizationStatus into FinalityTracker::status")


def ob_direct_finalization(run, oid):
    prog = run.program("lib")
    o = run.ob(oid, "handle_finalized_block is reached only from fast-final, or from the (final seen, notar arrives) / (notar seen, final arrives) pair",
               "otherwise a slot is reported finalized without the certificates that justify it", floor=3)
    sites = [c for b in K.bodies_in(prog, POOL + "finality_tracker::") for c in b.calls_to(FT + "::handle_finalized_block")]
    want = {"mark_notarized": "FinalPendingNotar", "mark_finalized": "Notarized"}
    for c, key in K.ordinal_keys(sites, lambda c: "%s|handle_finalized_block" % fshort(c.body.defpath)):
        fn = K.root_fn(c.body.defpath).rsplit("::", 1)[-1]
        atoms = G.guard_atoms(c.body, c.bb, prog)
        if fn == "mark_fast_finalized":
            # must not be reached when the old status was already Finalized/ImplicitlyFinalized (no double report)
            bad = [a for a in atoms if a[0] == "variant" and (a[1][1] & {"Finalized", "ImplicitlyFinalized"})]
            o.check(not bad, key + "|fast", "fast-final path (not taken when the slot was already finalized)", c.span, {"guards": G.atoms_show(atoms)})
            rec = [lambda a: a[0] == "lt" and a[2] is False and any(K.mentions_field(x, "first_unpruned_slot", "FinalityTracker") for x in a[1]),
                   lambda a: a[0] in ("is_some", "variant") and K.mentions_call(a[1][0], "BTreeMap::insert")]
            extra = D.extra_guards(prog, c.body, c.bb, rec)
            o.check(not extra, key + "|no-extra-condition", "no further condition delays the fast finalization report", c.span, {"extra": G.atoms_show(extra)})
            continue
        if fn not in want:
            o.fail(key + "|caller", "handle_finalized_block called from unexpected function %s" % fn, c.span)
            continue
        ok = any(a[0] == "variant" and a[1][1] == frozenset([want[fn]]) for a in atoms)
        o.check(ok, key + "|old=%s" % want[fn], "%s finalizes only when the displaced status is %s" % (fn, want[fn]), c.span, {"guards": G.atoms_show(atoms)})
        rec = [lambda a: a[0] == "lt" and a[2] is False and any(K.mentions_field(x, "first_unpruned_slot", "FinalityTracker") for x in a[1]),
               lambda a: a[0] in ("is_some", "variant") and K.mentions_call(a[1][0], "BTreeMap::insert")]
        extra = D.extra_guards(prog, c.body, c.bb, rec)
        o.check(not extra, key + "|no-extra-condition", "no further condition delays the finalization report", c.span, {"extra": G.atoms_show(extra)})
    # mark_fast_finalized: already-finalized arm returns without event
    b = prog.body(FT + "::mark_fast_finalized")
    if b is None:
        o.missing("FinalityTracker::mark_fast_finalized")


DECIDED = {"Finalized", "ImplicitlyFinalized", "ImplicitlySkipped"}


def decided_set_guard(prog, b, bb):
    """the set of FinalizationStatus variants under which block bb is reached, read from a guard on `status.get(slot)`:
    either `get(..).is_some_and(|s| matches!(s, A | B ..))` (the closure's decision table) or `matches!(get(..), Some(A | B ..))`.
    None when no such guard dominates bb."""
    from engine import paths
    for a in G.guard_atoms(b, bb, prog):
        if a[0] == "variant" and a[2] is True and K.mentions_call(a[1][0], "BTreeMap::get") and K.mentions_field(a[1][0], "status", "FinalityTracker"):
            return set(a[1][1])
        if a[0] == "bool" and a[2] is True and K.mentions_call(a[1][0], "is_some_and") and K.mentions_field(a[1][0], "status", "FinalityTracker"):
            cl = [x for x in mir.walk(a[1][0]) if isinstance(x, tuple) and x and x[0] == "closure"]
            cb = prog.bodies.get(cl[0][1]) if cl else None
            if cb is None:
                return None
            yes = set()
            for atoms, ret, blocks in paths.decision_table(cb, prog):
                vs = [x for x in atoms if x[0] == "variant"]
                if ret is None or not (ret[0] == "const" and ret[1] == "bool") or len(vs) != 1 or len(atoms) != 1:
                    return None
                if ret[2]:
                    yes |= set(vs[0][1][1])
            return yes
    return None


def ob_watermarks(run, oid):
    prog = run.program("lib")
    o = run.ob(oid, "highest_finalized_slot and first_unpruned_slot are written only by their owners, monotonically",
               "a decreasing watermark re-admits decided slots; a watermark advanced over an undecided slot discards live state", floor=4)
    w = K.all_field_writers(prog, FT)
    for fld, allowed in (("highest_finalized_slot", {"handle_finalized_block"}), ("first_unpruned_slot", {"prune"})):
        ws = w.get(fld, {})
        if not ws:
            o.missing("writer of FinalityTracker.%s" % fld)
        for fn, lst in sorted(ws.items()):
            nm = fn.rsplit("::", 1)[-1]
            o.check(nm in allowed and fn.startswith(FT), "%s|writer|%s" % (fld, fshort(fn)), "FinalityTracker.%s written in %s" % (fld, fshort(fn)), lst[0][0])
            for (sp, kind, b, bb) in lst:
                if kind != "assign":
                    o.fail("%s|mutborrow|%s" % (fld, fshort(fn)), "FinalityTracker.%s mutably borrowed" % fld, sp)
                    continue
                for (wb, _sp, rv) in [x for x in K.writes_of_field(b, "FinalityTracker", fld) if x[0] == bb]:
                    t = b.rvalue_term(rv)
                    if fld == "highest_finalized_slot":
                        ok = D.monotone_write(prog, b, bb, t, fld)
                        o.check(ok, "%s|monotone|%s" % (fld, fshort(fn)), "highest_finalized_slot only ever increases (max(slot, old), or written under old < slot)", sp, {"value": mir.show(t)})
                    else:
                        # written inside the loop guarded by "next slot is decided"
                        decided = decided_set_guard(prog, b, bb)
                        o.check(decided == DECIDED, "%s|guarded|%s" % (fld, fshort(fn)), "first_unpruned_slot advances exactly while the next slot's status is decided "
                                "(Finalized | ImplicitlyFinalized | ImplicitlySkipped)", sp, {"decided_set_found": sorted(decided) if decided is not None else None, "guards": K.show_atoms(prog, b, bb)})
                        pv = b.provenance(t)
                        o.check(any(x.endswith("Slot::next") for x in pv["calls"]) and not any(x.endswith("highest_finalized_slot") for x in pv["calls"]) and
                                ("alpenglow::consensus::pool::finality_tracker::FinalityTracker", "highest_finalized_slot") not in pv["fields"],
                                "%s|value|%s" % (fld, fshort(fn)), "first_unpruned_slot advances one slot at a time (next())", sp, {"value": mir.show(t)})


def ob_prune_after_decision(run, oid):
    prog = run.program("lib")
    o = run.ob(oid, "the tracker prunes after every step that can decide slots: each handle_implicitly_finalized in add_parent and every handle_finalized_block is always followed by prune()",
               "a late parent link can close the gap between two directly finalized blocks: without the prune the watermark stays behind a fully decided prefix, whose votes and certificates "
               "are then still accepted and retained", floor=3)
    # D28: ... and Pool::add_block itself - a block reconstructed for a slot below the watermark (any old leader can disseminate one at any time;
    # shreds carry no slot window) must not bring a SlotState or a waiting-child entry back
    famb = [b_ for b_ in prog.family("<" + PI + " as " + POOL + "Pool>::add_block") if b_.is_closure]
    if not famb:
        o.missing("Pool::add_block")
    for b_ in famb:
        ss_ = b_.calls_to(PI + "::slot_state")
        ins_ = [c_ for c_ in b_.calls() if c_.name.endswith("BTreeMap::entry") and K.mentions_field(b_.operand_term(c_.args[0]), "s2n_waiting_parent_cert")]
        for c_, key_ in K.ordinal_keys(ss_ + ins_, lambda c_: "Pool::add_block|%s" % ("slot_state" if c_ in ss_ else "s2n_waiting_parent_cert.entry")):
            g = G.has_guard(prog, b_, c_.bb, pred="lt", polarity=False, calls=["first_unpruned_slot"])
            o.check(g is not None, key_ + "|watermark", "per-slot state of the block's slot is only touched when !(slot < first_unpruned_slot())", c_.span,
                    {"guards": K.show_atoms(prog, b_, c_.bb)[:4]})
    b = prog.body(FT + "::add_parent")
    if b is None:
        o.missing("FinalityTracker::add_parent")
    else:
        hs = b.calls_to(FT + "::handle_implicitly_finalized")
        ps = [c.bb for c in b.calls_to(FT + "::prune")]
        o.check(bool(hs), "add_parent|handles", "add_parent resolves the ancestors of an already finalized block", b.span)
        for c in hs:
            o.check(bool(ps) and b.always_followed_by(c.bb, ps), "add_parent|prune-after-implicit", "handle_implicitly_finalized is always followed by prune()", c.span)
    b = prog.body(FT + "::handle_finalized_block")
    if b is None:
        o.missing("FinalityTracker::handle_finalized_block")
    else:
        ps = b.calls_to(FT + "::prune")
        o.check(len(ps) >= 1 and b.always_followed_by(0, [c.bb for c in ps]) and not any(D.extra_guards(prog, b, c.bb, []) for c in ps[:1]), "handle_finalized_block|prune-always",
                "every direct finalization ends in prune()", b.span)


def ob_discard_boundary(run, oid):
    prog = run.program("lib")
    o = run.ob(oid, "every discard boundary is the pruning watermark (first_unpruned_slot), never highest_finalized_slot",
               "pruning at the highest finalized slot discards undecided slots below it (gaps) whose certificates are still needed", floor=4)

    def prov_ok(b, term):
        pv = b.provenance(term)
        good = (FT, "first_unpruned_slot") in pv["fields"] or any(x.endswith("first_unpruned_slot") for x in pv["calls"])
        bad = (FT, "highest_finalized_slot") in pv["fields"] or any(x.endswith("highest_finalized_slot") or x.endswith("finalized_slot") for x in pv["calls"])
        return good and not bad, pv

    # FinalityTracker::prune: status.split_off(&root), parents.retain(>= root)
    for b in prog.family(FT + "::prune"):
        for c in b.calls():
            if c.name.endswith("::split_off") and K.is_field(b.operand_term(c.args[0]), "status", "FinalityTracker"):
                ok, pv = prov_ok(b, b.operand_term(c.args[1]))
                o.check(ok, "FinalityTracker::prune|status.split_off", "status is split at first_unpruned_slot", c.span, {"arg": mir.show(b.operand_term(c.args[1]))})
            if c.name.endswith("::retain") and K.is_field(b.operand_term(c.args[0]), "parents", "FinalityTracker"):
                cl = b.operand_term(c.args[1])
                caps = dict(cl[2]) if cl[0] == "closure" else {}
                ok = any(prov_ok(b, t)[0] for t in caps.values())
                o.check(ok, "FinalityTracker::prune|parents.retain", "parents are retained from first_unpruned_slot on", c.span)
    # PoolImpl::prune
    b = prog.body(PI + "::prune")
    if b is None:
        o.missing("PoolImpl::prune")
    else:
        for c in b.calls():
            if c.name.endswith("::split_off") and K.is_field(b.operand_term(c.args[0]), "slot_states", "PoolImpl"):
                ok, pv = prov_ok(b, b.operand_term(c.args[1]))
                o.check(ok, "PoolImpl::prune|slot_states.split_off", "slot_states is split at first_unpruned_slot()", c.span, {"arg": mir.show(b.operand_term(c.args[1]))})
            if c.name == PRT + "::prune":
                ok, pv = prov_ok(b, b.operand_term(c.args[1]))
                o.check(ok, "PoolImpl::prune|parent_ready_tracker.prune", "the parent-ready tracker is pruned at first_unpruned_slot()", c.span)
    b = prog.body(PI + "::first_unpruned_slot")
    if b is None:
        o.missing("PoolImpl::first_unpruned_slot")
    else:
        cs = [c.name for c in b.calls()]
        o.check(cs == [FT + "::first_unpruned_slot"], "PoolImpl::first_unpruned_slot|delegates", "PoolImpl::first_unpruned_slot returns the tracker's watermark", b.span, {"calls": cs})
    b = prog.body(FT + "::first_unpruned_slot")
    if b is not None:
        rd = set(n for (_bb, ow, n, _sp) in b.field_reads() if ow == FT)
        o.check(rd == {"first_unpruned_slot"}, "FinalityTracker::first_unpruned_slot|reads", "accessor reads the watermark field", b.span, {"reads": sorted(rd)})


def ob_admission(run, oid):
    prog = run.program("lib")
    o = run.ob(oid, "votes/certificates/blocks below the watermark are rejected before any per-slot state is created",
               "otherwise decided slots are resurrected (state retained for ever) or old data is accepted again", floor=3)
    for m, err in (("add_cert", "AddCertError"), ("add_vote", "AddVoteError")):
        fam = [b for b in prog.family("<" + PI + " as " + POOL + "Pool>::" + m) if b.is_closure]
        if not fam:
            o.missing("Pool::" + m)
        for b in fam:
            ss = b.calls_to(PI + "::slot_state")
            if not ss:
                continue
            first = ss[0]
            g = G.has_guard(prog, b, first.bb, pred="lt", polarity=False, calls=["first_unpruned_slot"])
            o.check(g is not None, "Pool::%s|slot_state|watermark" % m, "slot_state(slot) is only reached when !(slot < first_unpruned_slot())", first.span,
                    {"guards": K.show_atoms(prog, b, first.bb)})
            if g:
                o.check(K.mentions_call(g[1][0], "::slot") , "Pool::%s|slot_state|same-slot" % m, "the compared slot is the message's slot", first.span, {"lhs": mir.show(g[1][0])})
            g2 = G.has_guard(prog, b, first.bb, pred="lt", polarity=True, calls=["Slot::new"])
            o.check(g2 is not None, "Pool::%s|slot_state|future-bound" % m, "slot_state(slot) is only reached when slot < finalized + 2*SLOTS_PER_EPOCH", first.span)
    b = prog.body(FT + "::add_parent")
    if b is None:
        o.missing("FinalityTracker::add_parent")
    else:
        ent = [c for c in b.calls() if c.name.endswith("BTreeMap::entry") or c.name.endswith("::insert")]
        for c in ent[:1]:
            g = G.has_guard(prog, b, c.bb, pred="lt", polarity=False, fields=["first_unpruned_slot"], depth=0)
            o.check(g is not None, "FinalityTracker::add_parent|watermark", "parent link recorded only when !(block.slot < first_unpruned_slot)", c.span, {"guards": K.show_atoms(prog, b, c.bb)})
    for fn in ("mark_fast_finalized", "mark_notarized", "mark_finalized"):
        b = prog.body(FT + "::" + fn)
        if b is None:
            o.missing("FinalityTracker::" + fn)
            continue
        for (c, var, vt) in status_inserts(prog, b)[:1]:
            g = G.has_guard(prog, b, c.bb, pred="lt", polarity=False, fields=["first_unpruned_slot"], depth=0)
            o.check(g is not None, "FinalityTracker::%s|watermark" % fn, "status is touched only when !(slot < first_unpruned_slot)", c.span)


def ob_event_flow(run, oid):
    prog = run.program("lib")
    o = run.ob(oid, "every FinalizationEvent produced in pool.rs reaches ParentReadyTracker::handle_finalization; PoolImpl::handle_finalization always prunes",
               "a dropped event loses implicit finalizations/skips (no ParentReady for the next window); missing prune retains decided state", floor=5)
    producers = [FT + "::mark_notarized", FT + "::mark_fast_finalized", FT + "::mark_finalized", FT + "::add_parent"]
    for b in K.bodies_in(prog, POOL):
        if b.defpath.startswith(POOL + "finality_tracker::") or b.defpath.startswith(POOL + "parent_ready_tracker::"):
            continue
        for c, key in K.ordinal_keys(b.calls_to(producers), lambda c: "%s|%s" % (fshort(c.body.defpath), fshort(c.name))):
            consumers = []
            for d in b.calls_to([PI + "::handle_finalization", PRT + "::handle_finalization"]):
                pv = b.provenance(b.operand_term(d.args[1]))
                if c.name in pv["calls"]:
                    consumers.append(d.bb)
            o.check(bool(consumers) and b.always_followed_by(c.bb, consumers), key + "|consumed", "its FinalizationEvent is always handed to handle_finalization", c.span)
    # every registered block's parent link reaches the finality tracker, whatever else add_block finds out about the block (a link that is
    # skipped on some path - e.g. behind an early return for blocks that are already safe-to-notar - is never learnt: ancestors stay undecided)
    for b in prog.family("<" + PI + " as " + POOL + "Pool>::add_block"):
        if not b.is_closure or not b.defpath.endswith("add_block::{closure#0}"):
            continue
        ap = b.calls_to(FT + "::add_parent")
        o.check(len(ap) == 1 and b.always_followed_by(0, [c.bb for c in ap]) and not D.extra_guards(prog, b, ap[0].bb, []), "Pool::add_block|add_parent|always",
                "add_block hands (block, parent) to FinalityTracker::add_parent on every path", ap[0].span if ap else b.span)
    for b in prog.family(PI + "::handle_finalization"):
        if not b.is_closure:
            continue
        h = b.calls_to(PRT + "::handle_finalization")
        p = b.calls_to(PI + "::prune")
        o.check(bool(h) and b.always_followed_by(0, [x.bb for x in h]), "PoolImpl::handle_finalization|parent-ready", "always forwards the event to the parent-ready tracker", b.span)
        o.check(bool(p) and b.always_followed_by(0, [x.bb for x in p]), "PoolImpl::handle_finalization|prune", "always prunes", b.span)
        sp = b.calls_to(PI + "::send_parent_ready_events")
        o.check(bool(sp) and b.always_followed_by(0, [x.bb for x in sp]), "PoolImpl::handle_finalization|announce", "always announces the resulting ParentReady events", b.span)
        # order: the tracker has to see the event while its root is still the old one - pruning first moves the root past the very
        # slots the event reports (implicitly finalized ancestors, implicitly skipped slots), and the tracker's root guard drops them
        early = [x for x in p if any(b.can_reach(x.bb, y.bb) for y in h)]
        o.check(bool(h) and bool(p) and not early, "PoolImpl::handle_finalization|tracker-before-prune", "the parent-ready tracker handles the event before anything is pruned", (early[0].span if early else b.span))


def ob_cert_wiring(run, oid):
    """O1.6: finality is certificate-justified"""
    prog = run.program("lib")
    o = run.ob(oid, "the finality tracker is driven only by certificates: mark_* are called only from the matching arms of add_valid_cert",
               "finality reported without a certificate is unjustified and can conflict with other nodes", floor=3)
    want = {FT + "::mark_notarized": {"Notar"}, FT + "::mark_fast_finalized": {"FastFinal"}, FT + "::mark_finalized": {"Final"}}
    for fn, arm in want.items():
        sites = prog.callers_of(fn)
        if not sites:
            o.missing("call of " + fn)
        for c, key in K.ordinal_keys(sites, lambda c: "%s|%s" % (fshort(c.body.defpath), fshort(c.name))):
            o.check(K.root_fn(c.body.defpath) == PI + "::add_valid_cert", key + "|caller", "%s is called from add_valid_cert" % fshort(fn), c.span)
            atoms = G.guard_atoms(c.body, c.bb, prog)
            names = set(K.CERT_KINDS)
            for a in atoms:
                if a[0] == "variant" and a[1][1] <= set(K.CERT_KINDS):
                    names &= a[1][1]
            ok = names == arm
            o.check(bool(ok), key + "|arm", "%s only in the Cert::%s arm" % (fshort(fn), "/".join(sorted(arm))), c.span, {"guards": G.atoms_show(atoms)})
    # add_valid_cert callers: validated input or locally created
    for c, key in K.ordinal_keys(prog.callers_of(PI + "::add_valid_cert"), lambda c: "%s|add_valid_cert" % fshort(c.body.defpath)):
        pv = c.body.provenance(c.body.operand_term(c.args[1]))
        ok = any(x.endswith("ValidatedCert::into_cert") for x in pv["calls"]) or any(x.endswith("SlotState::add_vote") for x in pv["calls"])
        o.check(ok, key + "|source", "the certificate comes from ValidatedCert::into_cert or from SlotState::add_vote", c.span, {"calls": sorted(fshort(x) for x in pv["calls"])[:6]})


def ob_answers(run, oid):
    prog = run.program("lib")
    o = run.ob(oid, "finality/certificate queries answer from the tracker and the stored certificates only",
               "an answer computed from anything else (votes, stake counters) is not certificate-justified", floor=5)
    SC = POOL + "slot_state::SlotCertificates"
    b = prog.body("<" + PI + " as " + POOL + "Pool>::finalized_slot")
    if b is None:
        o.missing("Pool::finalized_slot")
    else:
        cs = [c.name for c in b.calls()]
        o.check(cs == [FT + "::highest_finalized_slot"], "Pool::finalized_slot|delegates", "finalized_slot() returns the tracker's highest_finalized_slot()", b.span, {"calls": cs})
    want = {"has_final_cert": {"fast_finalize", "finalize"}, "has_notar_cert": {"notar"}, "get_notarized_block": {"notar"},
            "has_skip_cert": {"skip"}, "has_notar_or_fallback_cert": {"notar", "notar_fallback"}}
    for fn, flds in want.items():
        fam = prog.family(PI + "::" + fn)
        if not fam:
            o.missing("PoolImpl::" + fn)
            continue
        rd = set()
        other = set()
        for b in fam:
            for (_bb, ow, n, _sp) in b.field_reads():
                if ow == SC:
                    rd.add(n)
                elif ow.startswith(POOL + "slot_state::") and ow != POOL + "slot_state::SlotState":
                    other.add((ow, n))
        o.check(rd == flds and not other, "PoolImpl::%s|reads" % fn, "%s reads exactly certificates.{%s}" % (fn, ",".join(sorted(flds))), fam[0].span, {"reads": sorted(rd), "other": sorted(other)})


def ob_prune_coverage(run, oid):
    prog = run.program("lib")
    o = run.ob(oid, "pruning covers every per-slot container of the pool and its trackers",
               "a container keyed by slot/block that is never pruned grows without bound (retained state must stay proportional to the undecided suffix)", floor=5)
    for adt, prune_fn in ((PI, PI + "::prune"), (FT, FT + "::prune"), (PRT, PRT + "::prune")):
        r = prog.adts.get(adt)
        if not r:
            o.missing("struct " + adt)
            continue
        fam = prog.family(prune_fn)
        touched = set()
        for b in fam:
            for (bb, ow, n, rv, sp, dst) in b.field_writes():
                if ow == adt:
                    touched.add(n)
            for (bb, ow, n, sp, _l, _pl) in b.mut_borrows_of_fields():
                if ow == adt:
                    touched.add(n)
        for f in r["variants"][0]["fields"]:
            ty = f["ty"]
            is_container = any(x in ty for x in ("BTreeMap<", "HashMap<", "BTreeSet<", "HashSet<", "Vec<"))
            keyed = "Slot" in ty or "DoubleMerkleRoot" in ty or "BlockId" in ty
            if not (is_container and keyed):
                continue
            o.check(f["name"] in touched, "%s|%s" % (fshort(adt), f["name"]), "%s.%s (%s) is pruned by %s" % (fshort(adt), f["name"], ty.replace("alpenglow::", "")[:60], fshort(prune_fn)),
                    r["span"])


def check(run):
    # "a slot is finalized exactly when the node holds the certificates": received certificates of one kind must not be refused because of another kind
    from . import C03 as _C03
    _C03.ob_once(run, "O8.17")
    # a slot is reported finalized when it holds the finalization certificate AND the notarization certificate: the latter exists as soon as the notar
    # votes reach 60%, under no other condition (creation sites carry the exact guard set)
    _C03.ob_thresholds_creation(run, "O8.18")
    ob_prune_after_decision(run, "O8.16")
    from . import detectors as _DS
    _DS.ob_structural_impls(run, "O8.15", ['consensus::pool::finality_tracker', 'types::', 'crypto::hash', 'crypto::merkle'], 'status and block-id comparisons decide what is (re)reported and what a watermark may pass')
    from . import detectors as _DL
    _DL.ob_loop_exits(run, "O8.14", ['consensus::pool'], 'implicit finalization walks whole chains and ranges of slots: a loop that stops early leaves slots undecided and unreported')
    ob_direct_reporting(run, "O8.13")
    ob_implicit_sources(run, "O8.12")
    ob_status_reporting(run, "O8.11")
    D.ob_watermark_comparisons(run, "O8.10", ["consensus::pool", "consensus::votor"], 14,
                               "an off-by-one at the watermark either discards the state of the first undecided slot (its certificates are then refused and it never becomes decided: the "
                               "watermark is stuck for ever) or keeps accepting / retaining an already decided slot")
    D.ob_state_mutations(run, "O8.9", ['consensus::pool::PoolImpl', 'consensus::pool::finality_tracker::FinalityTracker'], 'finality status, watermarks and per-slot state may only change by the reviewed transitions; anything else loses or resurrects decided slots')
    ob_no_downgrade(run, "O8.1")
    ob_direct_finalization(run, "O8.2")
    ob_watermarks(run, "O8.3")
    ob_discard_boundary(run, "O8.4")
    ob_admission(run, "O8.5")
    ob_event_flow(run, "O8.6")
    ob_cert_wiring(run, "O8.6b")
    ob_answers(run, "O8.7")
    ob_prune_coverage(run, "O8.8")


UNDECIDED = {"None", "Notarized", "FinalPendingNotar"}
ALL_STATUS = {"None", "Notarized", "FinalPendingNotar", "Finalized", "ImplicitlyFinalized", "ImplicitlySkipped"}


def displaced_outcomes(prog, b, ins, stop_calls):
    """From the block after `status.insert(..)` (call site `ins`), follow the CFG and classify what happens for every displaced
    status: {'push': set, 'silent': set, 'panic': set}. A path ends at a Vec::push on the event ('push'), at a return / the next
    loop round / another status insert ('silent'), or in a panic. Conditions on the displaced value select the cases."""
    is_old = lambda t: K.mentions(t, lambda x: x[0] == "call" and len(x) > 3 and x[3] == ins.bb and x[1].endswith("BTreeMap::insert"))
    es = b.edges()
    succ = {}
    for (a, c, l) in es:
        succ.setdefault(a, []).append((c, l))
    out = {"push": set(), "silent": set(), "panic": set()}
    start = [c for (c, l) in succ.get(ins.bb, [])]
    stack = [(s, frozenset(ALL_STATUS), frozenset([ins.bb]), frozenset()) for s in start]

    def step_env(bb, env):
        """constants held by projection-free locals after the statements of bb, on this path (a predicate helper's `false` / `true`
        results joined into one local and tested afterwards)"""
        e = dict(env)
        for st in b.blocks[bb]["stmts"]:
            if st["k"] != "assign" or st["dst"]["p"]:
                continue
            l, rv = st["dst"]["l"], st["rv"]
            v = None
            if rv["k"] == "use":
                a = rv["a"]
                if "k" in a and a["k"].get("int") is not None:
                    try:
                        v = int(a["k"]["int"])
                    except (TypeError, ValueError):
                        v = None
                elif "k" in a and a["k"].get("s") in ("true", "false"):
                    v = 1 if a["k"]["s"] == "true" else 0
                else:
                    pl = a.get("c") or a.get("m")
                    if pl is not None and not pl["p"] and pl["l"] in e:
                        v = e[pl["l"]]
            elif rv["k"] == "un" and rv.get("op") == "Not":
                pl = rv["a"].get("c") or rv["a"].get("m")
                if pl is not None and not pl["p"] and pl["l"] in e and e[pl["l"]] in (0, 1):
                    v = 1 - e[pl["l"]]
            if v is None:
                e.pop(l, None)
            else:
                e[l] = v
        t = b.blocks[bb]["term"]
        if t["k"] == "call" and not t["dst"]["p"]:
            e.pop(t["dst"]["l"], None)
        return e
    pushes = set(c.bb for c in stop_calls)
    # a later insert that puts the displaced value back ends the case silently; an insert of a NEW status is just a step on the way
    inserts = set()
    for c in b.calls():
        if c.name.endswith("BTreeMap::insert") and K.mentions_field(b.operand_term(c.args[0]), "status", "FinalityTracker") and c.bb != ins.bb:
            vt = b.operand_term(c.args[2])
            pv = K.peel(vt)
            builds_new = isinstance(pv, tuple) and pv and pv[0] == "agg" and str(pv[1]).endswith("FinalizationStatus")
            if not builds_new and (is_old(vt) or any(x.endswith("BTreeMap::insert") for x in b.provenance(vt)["calls"])):
                inserts.add(c.bb)
    n = 0
    while stack:
        bb, cases, seen, env = stack.pop()
        n += 1
        if n > 20000:
            return None
        if bb in pushes:
            out["push"] |= cases
            continue
        t = b.blocks[bb]["term"]
        if t["k"] == "return" or bb in seen or (bb in inserts and bb != ins.bb):
            # restoring the displaced status (insert of the old value) and returning is 'silent' as well
            out["silent"] |= cases
            continue
        nxt = succ.get(bb, [])
        if not nxt:
            out["panic"] |= cases
            continue
        env2 = step_env(bb, env)
        fenv = frozenset(env2.items())
        if t["k"] == "switch":
            sa = G.switch_atoms(b, bb, prog)
            dpl = t["d"].get("c") or t["d"].get("m")
            known = env2.get(dpl["l"]) if dpl is not None and not dpl["p"] else None
            arms = [int(v) for v, _ in t["arms"]]
            for (c, l) in nxt:
                if known is not None and ((l[1] == "else" and known in arms) or (l[1] != "else" and l[1] != known)):
                    continue        # this path fixed the tested local to a constant: the other edges are not its continuation
                cs = set(cases)
                for a in sa.get(l[1], []):
                    if a[0] == "is_some" and is_old(a[1][0]):
                        cs &= ({"None"} if not a[2] else (ALL_STATUS - {"None"}))
                    elif a[0] == "variant" and is_old(a[1][0]):
                        cs &= set(a[1][1])
                if cs:
                    stack.append((c, frozenset(cs), seen | {bb}, fenv))
        else:
            for (c, l) in nxt:
                stack.append((c, cases, seen | {bb}, fenv))
    return out


def ob_status_reporting(run, oid):
    prog = run.program("lib")
    o = run.ob(oid, "implicit finalization / implicit skip: a slot whose displaced status was undecided is always reported in the FinalizationEvent; one that was "
                    "already decided is never reported again",
               "the parent-ready tracker and the pool learn about implicitly finalized blocks and implicitly skipped slots only through this event: a silently changed "
               "status loses ready parents and prunable state, a repeated report announces a pair twice", floor=4)
    b = prog.body(FT + "::handle_implicitly_finalized")
    if b is None:
        o.missing("FinalityTracker::handle_implicitly_finalized")
        return
    ins = [c for c in b.calls() if c.name.endswith("BTreeMap::insert") and K.mentions_field(b.operand_term(c.args[0]), "status", "FinalityTracker")]
    pushes = [c for c in b.calls() if c.name.endswith("Vec::push") and K.mentions_arg(b, b.operand_term(c.args[0]), 4)]
    want = {"ImplicitlySkipped": "implicitly_skipped", "ImplicitlyFinalized": "implicitly_finalized"}
    done = set()
    for c in ins:
        val = b.operand_term(c.args[2])
        vs = [x[2] for x in mir.walk(val) if isinstance(x, tuple) and x and x[0] == "agg" and str(x[1]).endswith("FinalizationStatus")]
        if len(vs) != 1 or vs[0] not in want or K.mentions_call(val, "BTreeMap::insert"):
            continue        # restoring insert(slot, old)
        kind = vs[0]
        ps = [p for p in pushes if K.mentions_field(b.operand_term(p.args[0]), want[kind])]
        key = "handle_implicitly_finalized|%s" % kind
        if len(ps) != 1:
            o.fail(key + "|push-site", "expected one push to event.%s, found %d" % (want[kind], len(ps)), c.span)
            continue
        res = displaced_outcomes(prog, b, c, ps)
        if res is None:
            o.fail(key + "|paths", "too many paths", c.span)
            continue
        done.add(kind)
        det = {k: sorted(v) for k, v in res.items()}
        lost = (res["silent"] & UNDECIDED)
        o.check(not lost, key + "|undecided-always-reported", "a slot displaced from an undecided status (none / Notarized / FinalPendingNotar) is pushed to event.%s (or the "
                "contradiction panics), never changed silently" % want[kind], c.span, det)
        again = res["push"] - UNDECIDED
        o.check(not again, key + "|decided-not-reported-again", "a slot that was already decided is not reported again", c.span, det)
    for kind in want:
        if kind not in done:
            o.fail("handle_implicitly_finalized|%s|insert-site" % kind, "no status.insert(.., %s) found" % kind, b.span)


def ob_implicit_sources(run, oid):
    """who may start implicit finalization, and for which parent"""
    prog = run.program("lib")
    o = run.ob(oid, "implicit finalization starts only from a block that IS finalized: the parent handed to handle_implicitly_finalized is the recorded parent of that very block",
               "finalizing the parent of another block of a finalized slot (an equivocating sibling) finalizes a block no other node finalizes: conflicting finalized chains", floor=3)
    sites = [c for d, bd in prog.bodies.items() if not bd.generated for c in bd.calls() if c.name == FT + "::handle_implicitly_finalized"]
    if len(sites) < 3:
        o.missing("three call sites of handle_implicitly_finalized (handle_finalized_block, add_parent, recursion)")
    for c, key in K.ordinal_keys(sites, lambda c: "%s|handle_implicitly_finalized" % fshort(c.body.defpath)):
        b = c.body
        fn = K.root_fn(b.defpath).rsplit("::", 1)[-1]
        par = b.operand_term(c.args[2])
        atoms = G.guard_atoms(b, c.bb, prog)
        if fn in ("handle_finalized_block", "handle_implicitly_finalized"):
            # parent = self.parents.get(<the finalized block itself>)
            ok = K.mentions_call(par, "BTreeMap::get") and K.mentions_field(par, "parents", "FinalityTracker") and K.mentions_arg(b, par, 3 if fn == "handle_implicitly_finalized" else 2)
            src = b.operand_term(c.args[1])
            ok = ok and K.mentions_arg(b, src, 3 if fn == "handle_implicitly_finalized" else 2)
            o.check(ok, key + "|recorded-parent", "parent = parents[the block just (implicitly) finalized], source slot = that block's slot", c.span, {"parent": mir.show(par)[:120]})
            if fn == "handle_finalized_block":
                # ... and ALWAYS when that parent is known: a block finalized below the highest finalized slot resolves its ancestors too
                # (the walk from a higher block stops at the first block that is already Finalized)
                extra = D.extra_guards(prog, b, c.bb, [lambda a: a[0] in ("is_some", "variant") and K.mentions_field(a[1][0], "parents", "FinalityTracker")])
                o.check(not extra, key + "|whenever-parent-known", "every direct finalization whose parent link is known resolves its ancestors (no further condition)", c.span, {"extra": G.atoms_show(extra)})
        elif fn == "add_parent":
            # the block whose parent link arrives must be the block recorded as finalized for its slot
            g = None
            for a in atoms:
                if a[0] == "eq" and a[2] is True:
                    x, y = a[1]
                    for (p, q) in ((x, y), (y, x)):
                        if K.mentions_arg(b, p, 2) and not K.mentions_arg(b, q, 2):
                            pv = b.provenance(q)
                            if any(n == "status" for (_ow, n) in pv["fields"]):
                                g = a
            if g is None:
                # the condition may be folded into a flag: `let is_fin = matches!(status.get(..), Some(Finalized(h) | ImplicitlyFinalized(h)) if &hash == h)`:
                # then EVERY place that sets the flag to true must be behind the comparison
                def finalized_eq(a):
                    if a[0] == "eq" and a[2] is True:
                        x, y = a[1]
                        for (p_, q_) in ((x, y), (y, x)):
                            if K.mentions_arg(b, p_, 2) and not K.mentions_arg(b, q_, 2) and any(n == "status" for (_ow, n) in b.provenance(q_)["fields"]):
                                return True
                    return False
                for a in atoms:
                    if a[0] == "bool" and a[2] is True and isinstance(a[1][0], tuple) and a[1][0][0] == "local":
                        trues = []
                        for d_ in b.defs().get(a[1][0][1], []):
                            if d_[0] == "stmt" and K.const_eval(b.rvalue_term(d_[3]["rv"])) == 1:
                                trues.append(any(finalized_eq(x) for x in G.guard_atoms(b, d_[1], prog)) or D.guarded_on_every_path(prog, b, d_[1], finalized_eq))
                        if trues and all(trues):
                            g = a
            o.check(g is not None, key + "|same-block-as-finalized", "add_parent propagates only when the finalized hash recorded for the slot equals this block's hash", c.span,
                    {"guards": G.atoms_show(atoms)})
            o.check(K.is_arg(b, par, 3) and K.mentions_arg(b, b.operand_term(c.args[1]), 2), key + "|args", "handle_implicitly_finalized(block.slot, parent, ..) with add_parent's own arguments", c.span)
            # ... and whenever that is the case: nothing else (the parent's own status, the highest finalized slot, ..) stands before the walk - it is also what marks the
            # slots between parent and child as skipped, and it stops by itself at a slot that is already decided
            def own_status(a):
                return a[0] in ("variant", "is_some", "eq", "bool") and a[1] and isinstance(a[1][0], tuple) and any(n == "status" for (_ow, n) in b.provenance(a[1][0])["fields"]) \
                    and not K.mentions_arg(b, a[1][0], 3) and not (len(a[1]) > 1 and isinstance(a[1][1], tuple) and K.mentions_arg(b, a[1][1], 3))
            rec = [own_status, lambda a: g is not None and a == g,
                   # reviewed gates in front: the block's slot is not below the watermark; the link was not recorded before (first registration)
                   lambda a: a[0] == "lt" and a[2] is False and K.mentions_arg(b, a[1][0], 2) and K.mentions_field(a[1][1], "first_unpruned_slot"),
                   lambda a: a[0] == "variant" and K.mentions_field(a[1][0], "parents", "FinalityTracker") and K.mentions_arg(b, a[1][0], 2),
                   lambda a: a[0] == "eq" and a[2] is True and any(K.mentions_arg(b, x, 2) for x in a[1] if isinstance(x, tuple)) and not any(K.mentions_arg(b, x, 3) for x in a[1] if isinstance(x, tuple))]
            extra = D.extra_guards(prog, b, c.bb, rec)
            o.check(not extra, key + "|whenever-block-is-the-finalized-one", "no further condition: every link of the block finalized in its slot resolves ancestors and skips the slots in between", c.span,
                    {"extra": G.atoms_show(extra)})
        else:
            o.fail(key + "|caller", "handle_implicitly_finalized called from unreviewed function %s" % fn, c.span)


def ob_direct_reporting(run, oid):
    """mark_fast_finalized / mark_notarized / mark_finalized: for which displaced statuses the slot is reported as directly finalized
    (path classification by the value displaced by status.insert, like O8.11)"""
    prog = run.program("lib")
    o = run.ob(oid, "direct finalization is reported exactly for the displaced statuses that justify it, and never for a slot that was already decided",
               "reporting a slot that was already finalized (directly or implicitly) finalizes it a second time; reporting it from another status finalizes without the certificates", floor=6)
    want = {
        # fn: (statuses for which handle_finalized_block must be reached or panic, statuses for which it must not be reached)
        "mark_fast_finalized": (UNDECIDED, {"Finalized", "ImplicitlyFinalized"}),
        "mark_notarized": ({"FinalPendingNotar"}, ALL_STATUS - {"FinalPendingNotar"}),
        "mark_finalized": ({"Notarized"}, ALL_STATUS - {"Notarized"}),
    }
    for fn, (must, never) in want.items():
        b = prog.body(FT + "::" + fn)
        if b is None:
            o.missing("FinalityTracker::" + fn)
            continue
        ins = [c for c in b.calls() if c.name.endswith("BTreeMap::insert") and K.mentions_field(b.operand_term(c.args[0]), "status", "FinalityTracker")
               and not K.mentions_call(b.operand_term(c.args[2]), "BTreeMap::insert") and not any(
                   isinstance(x, tuple) and x and x[0] == "local" for x in [K.peel(b.operand_term(c.args[2]))])]
        first = [c for c in ins if not any(b.dominates(o2.bb, c.bb) for o2 in ins if o2 is not c)]
        rep = [c for c in b.calls() if c.name == FT + "::handle_finalized_block"]
        if len(first) != 1 or not rep:
            o.fail("%s|sites" % fn, "expected one leading status.insert and a call of handle_finalized_block (found %d / %d)" % (len(first), len(rep)), b.span)
            continue
        res = displaced_outcomes(prog, b, first[0], rep)
        if res is None:
            o.fail("%s|paths" % fn, "too many paths", b.span)
            continue
        det = {k: sorted(v) for k, v in res.items()}
        o.check(not (res["silent"] & must), "%s|justified-always-reported" % fn, "displaced %s => reported as finalized (or the contradiction panics)" % sorted(must), first[0].span, det)
        o.check(not (res["push"] & never), "%s|others-never-reported" % fn, "displaced %s => never reported (again)" % sorted(never), first[0].span, det)
