"""C09 — only authentic votes and sufficiently backed certificates are admitted (structural clause)."""
import os
import subprocess

from engine import guards as G
from engine import mir, panics, paths
from . import common as K
from . import detectors as D
from .common import A, CERT, POOL, VOTE, fshort

EXPLANATION = (
    "Decides O9.1-O9.9, i.e. everything about admission except the cryptography: Validated{Vote,Cert,Shred} are "
    "constructed only in their validators (MIR who-may-construct; thorough tier adds compile_fail witnesses with compiling "
    "twins); the Ok of ValidatedVote::try_new is dominated by the signer range check and by check_sig under the key of "
    "the same signer; kind binding: XVote::new / payload / check_sig build the same VotePayload variant from the vote's "
    "own slot/hash and the whole enum (tag included) is what gets signed; ValidatedCert::try_new is dominated by "
    "check_threshold and check_sig of the same certificate; each XCert::check_threshold recomputes the stake from the "
    "bitmask(s) over epoch_info.validators() with the quorum predicate of its type and nobody on the admission path reads "
    "the declared `stake`; the 7-row (aggregate half -> payload variant) table; verify_bytes guards; no unreviewed panic "
    "site under the two try_new; validation precedes taking the pool lock. Does NOT decide that BLS rejects every forgery."
)

VV = A + "consensus::validated_vote::ValidatedVote"
VC = A + "consensus::validated_cert::ValidatedCert"
VS = A + "shredder::validated_shred::ValidatedShred"
EPOCH = A + "consensus::epoch_info::EpochInfo::"
AGG = A + "crypto::aggsig::AggregateSignature"
IND = A + "crypto::aggsig::IndividualSignature"

VOTE_STRUCTS = {"Notar": "NotarVote", "NotarFallback": "NotarFallbackVote", "Skip": "SkipVote", "SkipFallback": "SkipFallbackVote", "Final": "FinalVote"}
HAS_HASH = {"Notar", "NotarFallback"}
CERT_STRUCTS = {"Notar": "NotarCert", "NotarFallback": "NotarFallbackCert", "Skip": "SkipCert", "FastFinal": "FastFinalCert", "Final": "FinalCert"}
CERT_QUORUM = {"Notar": "is_quorum", "NotarFallback": "is_quorum", "Skip": "is_quorum", "FastFinal": "is_strong_quorum", "Final": "is_quorum"}
# (cert struct, aggregate field) -> payload variant that must be verified under it
SIG_TABLE = {
    ("NotarCert", "agg_sig"): "Notar",
    ("NotarFallbackCert", "agg_sig_notar"): "Notar",
    ("NotarFallbackCert", "agg_sig_notar_fallback"): "NotarFallback",
    ("SkipCert", "agg_sig_skip"): "Skip",
    ("SkipCert", "agg_sig_skip_fallback"): "SkipFallback",
    ("FastFinalCert", "agg_sig"): "Notar",
    ("FinalCert", "agg_sig"): "Final",
}


def ob_construct(run, oid):
    prog = run.program("lib")
    o = run.ob(oid, "Validated{Vote,Cert,Shred} values are constructed only by their validators",
               "any other construction site admits unverified data to Pool/Blockstore", floor=3)
    allowed = {VV: {VV + "::try_new"}, VC: {VC + "::try_new"}, VS: {VS + "::try_new", VS + "::new_validated"}}
    for adt, ok_fns in allowed.items():
        n = 0
        for d, b in prog.bodies.items():
            if b.generated:
                continue
            for (bb, rv, sp, dst) in b.aggregates(adt):
                n += 1
                o.check(K.root_fn(d) in ok_fns, "%s|construct|%s" % (fshort(adt), fshort(d)), "%s constructed in %s" % (fshort(adt), fshort(d)), sp)
        if n == 0:
            o.missing("construction of " + adt)
        # fields private
        r = prog.adts.get(adt)
        if r:
            pub = [f["name"] for f in r["variants"][0]["fields"] if f["vis"] == "Public"]
            o.check(not pub, "%s|private-fields" % fshort(adt), "all fields of %s are private" % fshort(adt), r["span"], {"public": pub})
    # new_validated (trusted constructor for locally regenerated shreds): who may call
    callers = sorted(set(K.root_fn(c.body.defpath) for c in prog.callers_of(VS + "::new_validated")))
    o.check(all(x.startswith(A + "shredder::") for x in callers), "ValidatedShred::new_validated|callers", "new_validated is called only inside the shredder (regenerated shreds)", "",
            {"callers": [fshort(x) for x in callers]})
    b = prog.body(VS + "::new_validated")
    if b is not None:
        o.check(b.rec.get("vis") != "Public", "ValidatedShred::new_validated|visibility", "new_validated is not public", b.span, {"vis": b.rec.get("vis")})
    # consumers take validated types
    for fn, ty in (("<" + POOL + "PoolImpl as " + POOL + "Pool>::add_vote", "ValidatedVote"), ("<" + POOL + "PoolImpl as " + POOL + "Pool>::add_cert", "ValidatedCert")):
        b = prog.body(fn)
        if b is None:
            o.missing(fn)
        else:
            o.check(ty in b.rec.get("sig", ""), "%s|takes-%s" % (fshort(fn), ty), "%s takes a %s" % (fshort(fn), ty), b.span)


def ob_vote_try_new(run, oid):
    prog = run.program("lib")
    o = run.ob(oid, "ValidatedVote::try_new: Ok only after signer < validators.len() and check_sig under that signer's voting key",
               "without the range check a hostile index panics; with another key any validator can vote in someone else's name", floor=4)
    b = prog.body(VV + "::try_new")
    if b is None:
        o.missing("ValidatedVote::try_new")
        return
    oks = [(bb, sp) for (bb, rv, sp, dst) in b.aggregates(VV)]
    for (bb, sp), key in K.ordinal_keys(oks, lambda x: "ValidatedVote::try_new|Ok"):
        det = {"guards": K.show_atoms(prog, b, bb)}
        g = None
        for a in G.guard_atoms(b, bb, prog):
            if a[0] == "lt" and a[2] is True and K.mentions_call(a[1][0], "Vote::signer") and (K.mentions_call(a[1][1], "::len") or "PtrMetadata" in mir.show(a[1][1])):
                g = a
        o.check(g is not None, key + "|range", "guarded by vote.signer() < validators.len()", sp, det)
        gs = None
        for a in G.guard_atoms(b, bb, prog):
            if a[0] == "bool" and a[2] is True and a[1][0][0] == "call" and a[1][0][1] == VOTE + "Vote::check_sig":
                gs = a
        o.check(gs is not None, key + "|check_sig", "guarded by vote.check_sig(pk) == true", sp, det)
        if gs is not None:
            pk = gs[1][0][2][1]
            ok = K.is_field(pk, "voting_pubkey") and K.mentions_call(pk, "EpochInfo::validator") and K.mentions_call(pk, "Vote::signer")
            o.check(ok, key + "|key-of-signer", "pk = epoch_info.validator(vote.signer()).voting_pubkey", sp, {"pk": mir.show(pk)})
            # same vote admitted as checked
            o.check(K.peel(gs[1][0][2][0])[0] in ("param", "local"), key + "|same-vote", "the vote checked is the vote admitted", sp)
    for c in b.calls_to(EPOCH + "validator"):
        g = None
        for a in G.guard_atoms(b, c.bb, prog):
            if a[0] == "lt" and a[2] is True and K.mentions_call(a[1][0], "Vote::signer"):
                g = a
        o.check(g is not None, "ValidatedVote::try_new|validator()|range-first", "the range check dominates the indexing call validator(signer)", c.span)


def ob_kind_binding(run, oid):
    prog = run.program("lib")
    o = run.ob(oid, "kind binding: XVote::new, XVote::payload and XVote::check_sig use the same VotePayload variant built from the vote's own slot/hash; the enum tag is signed",
               "a mismatch lets a signature for one kind verify as another kind (e.g. a skip vote replayed as a finalize vote)", floor=22)
    VP = VOTE + "VotePayload"
    for kind, st in VOTE_STRUCTS.items():
        # new
        b = prog.body(VOTE + st + "::new")
        if b is None:
            o.missing(st + "::new")
        else:
            aggs = b.aggregates(VP)
            o.check(len(aggs) == 1 and aggs[0][1]["variant"] == kind, "%s::new|payload-variant" % st, "%s::new signs VotePayload::%s" % (st, kind), b.span, {"variants": [a[1]["variant"] for a in aggs]})
            for (bb, rv, sp, dst) in aggs[:1]:
                ops = [b.operand_term(x) for x in rv["ops"]]
                ok = K.mentions_arg(b, ops[0], 1) and (kind not in HAS_HASH or K.mentions_arg(b, ops[1], 2))
                o.check(ok, "%s::new|payload-fields" % st, "payload built from the constructor's slot%s" % (" and block_hash" if kind in HAS_HASH else ""), sp)
            sg = b.calls_to(A + "crypto::aggsig::SecretKey::sign")
            ok = bool(sg) and any(K.mentions(b.operand_term(c.args[1]), lambda t: t[0] == "agg" and t[1] == VP and t[2] == kind) for c in sg)
            o.check(ok, "%s::new|signs-payload" % st, "the signature is sk.sign(&payload)", b.span)
            # the struct stores the same slot/hash
            for (bb, rv, sp, dst) in b.aggregates(VOTE + st):
                fm = dict(zip(rv["fields"], [b.operand_term(x) for x in rv["ops"]]))
                np_ = 4 if kind in HAS_HASH else 3
                ok = K.mentions_arg(b, fm["slot"], 1) and (kind not in HAS_HASH or K.mentions_arg(b, fm["block_hash"], 2)) and K.mentions_arg(b, fm["signer"], np_) and K.mentions_call(fm["sig"], "SecretKey::sign")
                o.check(ok, "%s::new|stores" % st, "stores the same slot/hash, the signer and that signature", sp)
        # payload
        b = prog.body(VOTE + st + "::payload")
        if b is None:
            o.missing(st + "::payload")
        else:
            aggs = b.aggregates(VP)
            ok = len(aggs) == 1 and aggs[0][1]["variant"] == kind
            o.check(ok, "%s::payload|variant" % st, "%s::payload() is VotePayload::%s" % (st, kind), b.span)
            for (bb, rv, sp, dst) in aggs[:1]:
                ops = [b.operand_term(x) for x in rv["ops"]]
                ok = K.mentions_field(ops[0], "slot", st) and (kind not in HAS_HASH or K.mentions_field(ops[1], "block_hash", st))
                o.check(ok, "%s::payload|fields" % st, "built from self.slot%s" % (" and self.block_hash" if kind in HAS_HASH else ""), sp)
        # check_sig
        b = prog.body(VOTE + st + "::check_sig")
        if b is None:
            o.missing(st + "::check_sig")
        else:
            vs = b.calls_to(IND + "::verify")
            ok = len(vs) == 1
            if ok:
                c = vs[0]
                ok = K.is_field(b.operand_term(c.args[0]), "sig", st) and K.mentions_call(b.operand_term(c.args[1]), st + "::payload") and b.operand_term(c.args[2])[0] == "param"
                ok = ok and c.dst["l"] == 0
            o.check(ok, "%s::check_sig|verify" % st, "returns self.sig.verify(&self.payload(), pk)", b.span)
    # Vote::check_sig dispatch
    b = prog.body(VOTE + "Vote::check_sig")
    if b is None:
        o.missing("Vote::check_sig")
    else:
        for kind, st in VOTE_STRUCTS.items():
            cs = b.calls_to(VOTE + st + "::check_sig")
            ok = False
            for c in cs:
                if any(a[0] == "variant" and a[1][1] == frozenset([kind]) for a in G.guard_atoms(b, c.bb, prog)) and c.dst["l"] == 0:
                    ok = True
            o.check(ok, "Vote::check_sig|%s" % kind, "Vote::%s dispatches to %s::check_sig and returns its verdict" % (kind, st), b.span)
    # bytes_to_sign serialises the whole enum
    fam = [x for x in prog.bodies.values() if x.defpath.endswith("::bytes_to_sign") and "VotePayload" in x.defpath]
    if not fam:
        o.missing("VotePayload::bytes_to_sign")
    for b in fam:
        cs = [c for c in b.calls() if c.name.endswith("serialize")]
        ok = len(cs) == 1 and b.operand_term(cs[0].args[0])[0] == "param" and cs[0].dst["l"] == 0
        o.check(ok, "VotePayload::bytes_to_sign|whole-enum", "bytes_to_sign() = serialize(self) (variant tag included)", b.span)
    # the wire enum has pairwise distinct variants with the derived (tagged) encoding
    r = prog.adts.get(VP)
    if r:
        o.check([v["name"] for v in r["variants"]] == ["Notar", "NotarFallback", "Skip", "SkipFallback", "Final"], "VotePayload|variants", "VotePayload has one variant per vote kind", r["span"])
        derived = [im for im in prog.impls if im.get("self_adt") == VP and im.get("trait", "").endswith("SchemaWrite")]
        o.check(bool(derived) and all(im["derived"] or im.get("macro_generated") for im in derived), "VotePayload|derived-encoding", "VotePayload's encoding is the derived (tagged) one", r["span"])


def ob_cert_try_new(run, oid):
    prog = run.program("lib")
    o = run.ob(oid, "ValidatedCert::try_new: Ok only after check_threshold and check_sig of the same certificate; per-variant dispatch",
               "skipping either check admits an under-backed or forged certificate, which finalizes/skips slots at this node", floor=13)
    b = prog.body(VC + "::try_new")
    if b is None:
        o.missing("ValidatedCert::try_new")
        return
    for (bb, rv, sp, dst), key in K.ordinal_keys(b.aggregates(VC), lambda x: "ValidatedCert::try_new|Ok"):
        atoms = G.guard_atoms(b, bb, prog)
        det = {"guards": G.atoms_show(atoms)}
        gt = [a for a in atoms if a[0] == "bool" and a[2] is True and a[1][0][0] == "call" and a[1][0][1] == CERT + "Cert::check_threshold"]
        gs = [a for a in atoms if a[0] == "bool" and a[2] is True and a[1][0][0] == "call" and a[1][0][1] == CERT + "Cert::check_sig"]
        o.check(bool(gt), key + "|threshold", "guarded by cert.check_threshold(epoch_info) == true", sp, det)
        o.check(bool(gs), key + "|signature", "guarded by cert.check_sig(validators) == true", sp, det)
        if gt and gs:
            same = K.peel(gt[0][1][0][2][0]) == K.peel(gs[0][1][0][2][0]) and K.peel(gt[0][1][0][2][0])[0] in ("param", "local")
            o.check(same, key + "|same-cert", "both checks run on the certificate that is admitted", sp)
            o.check(K.mentions_call(gs[0][1][0][2][1], "EpochInfo::validators") and gt[0][1][0][2][1][0] == "param", key + "|same-epoch", "against the validators of the supplied epoch", sp)
    for fn in ("check_threshold", "check_sig"):
        cb = prog.body(CERT + "Cert::" + fn)
        if cb is None:
            o.missing("Cert::" + fn)
            continue
        for kind, st in CERT_STRUCTS.items():
            cs = cb.calls_to(CERT + st + "::" + fn)
            ok = False
            for c in cs:
                if any(a[0] == "variant" and a[1][1] == frozenset([kind]) for a in G.guard_atoms(cb, c.bb, prog)) and c.dst["l"] == 0:
                    ok = True
            o.check(ok, "Cert::%s|%s" % (fn, kind), "Cert::%s dispatches to %s::%s and returns its verdict" % (kind, st, fn), cb.span)


def ob_try_new_complete(run, oid):
    """completeness of the two validation doors: nothing but the reviewed checks stands between a vote / certificate and its admission"""
    prog = run.program("lib")
    o = run.ob(oid, "ValidatedVote::try_new / ValidatedCert::try_new admit whatever passes the reviewed checks: no further condition (stake, slot, kind ..) filters",
               "a vote that is authentic but filtered never reaches the pool: repeats and conflicts of that validator go unreported, and a certificate one node "
               "emitted is refused by another", floor=2)
    b = prog.body(VV + "::try_new")
    if b is None:
        o.missing("ValidatedVote::try_new")
    else:
        for (bb, rv, sp, dst), key in K.ordinal_keys(b.aggregates(VV), lambda x: "ValidatedVote::try_new|Ok"):
            rec = [lambda a: a[0] == "lt" and a[2] is True and K.mentions_call(a[1][0], "Vote::signer"),
                   lambda a: a[0] == "bool" and a[2] is True and a[1][0][0] == "call" and a[1][0][1] == VOTE + "Vote::check_sig"]
            ex = D.extra_guards(prog, b, bb, rec)
            o.check(not ex, key + "|no-other-condition", "only the signer range check and check_sig stand before Ok", sp, {"extra": G.atoms_show(ex)})
    b = prog.body(VC + "::try_new")
    if b is None:
        o.missing("ValidatedCert::try_new")
    else:
        for (bb, rv, sp, dst), key in K.ordinal_keys(b.aggregates(VC), lambda x: "ValidatedCert::try_new|Ok"):
            rec = [lambda a: a[0] == "bool" and a[2] is True and a[1][0][0] == "call" and a[1][0][1] in (CERT + "Cert::check_threshold", CERT + "Cert::check_sig")]
            ex = D.extra_guards(prog, b, bb, rec)
            o.check(not ex, key + "|no-other-condition", "only check_threshold and check_sig stand before Ok", sp, {"extra": G.atoms_show(ex)})
    return o


def ob_threshold_validation(run, oid):
    """O9.5 / O1.3 validation side"""
    prog = run.program("lib")
    o = run.ob(oid, "each XCert::check_threshold recomputes the stake from the signer bitmask(s) over epoch_info.validators() and applies its type's quorum predicate; nobody on the admission path reads the declared stake",
               "trusting the declared stake, or the wrong predicate, admits certificates below their threshold", floor=15)
    for kind, st in CERT_STRUCTS.items():
        b = prog.body(CERT + st + "::check_threshold")
        if b is None:
            o.missing(st + "::check_threshold")
            continue
        q = [c for c in b.calls() if c.name.startswith(EPOCH + "is_")]
        ok = len(q) == 1 and q[0].name == EPOCH + CERT_QUORUM[kind] and q[0].dst["l"] == 0
        o.check(ok, "%s::check_threshold|predicate" % st, "returns epoch_info.%s(stake)" % CERT_QUORUM[kind], b.span, {"calls": [fshort(c.name) for c in q]})
        if not ok:
            continue
        stake = b.operand_term(q[0].args[1])
        halves0 = [f for (s2, f) in SIG_TABLE if s2 == st]
        if _loop_threshold(prog, b, stake, halves0, st, o, "%s::check_threshold" % st):
            o.check(not any(n == "stake" and ow.endswith(st) for (_bb, ow, n, _sp) in b.field_reads()), "%s::check_threshold|ignores-declared" % st, "the declared self.stake is not read", b.span)
            continue
        pv = b.provenance(stake)
        ok = any(x.endswith("Iterator::sum") for x in pv["calls"]) and any(x.endswith("Iterator::filter") or x.endswith("Iterator::filter_map") for x in pv["calls"]) and any(x == EPOCH + "validators" for x in pv["calls"])
        o.check(ok, "%s::check_threshold|recomputed" % st, "stake = sum over epoch_info.validators() filtered by the bitmask", b.span, {"stake": mir.show(stake)[:200]})
        o.check(not any(n == "stake" and ow.endswith(st) for (ow, n) in pv["fields"]) and not any(n == "stake" and ow.endswith(st) for (_bb, ow, n, _sp) in b.field_reads()),
                "%s::check_threshold|ignores-declared" % st, "the declared self.stake is not read", b.span)
        # filter closure: membership in this certificate's aggregate(s)
        fc = [t for t in mir.walk(stake) if isinstance(t, tuple) and t and t[0] == "call" and (t[1].endswith("Iterator::filter") or t[1].endswith("Iterator::filter_map"))]
        halves = [f for (s2, f) in SIG_TABLE if s2 == st]
        if fc:
            cl = [x for x in mir.walk(fc[0][2][1]) if isinstance(x, tuple) and x and x[0] == "closure"]
            if cl:
                cbody = prog.bodies.get(cl[0][1])
                flds = set()
                calls = set()
                for fb in prog.family(cl[0][1]):
                    flds |= set(n for (_bb, ow, n, _sp) in fb.field_reads() if ow.endswith(st))
                    calls |= fb.mentioned_fns()
                # what the closure captured (e.g. a reference to the aggregate taken outside the closure)
                for (_nm, cap) in cl[0][2]:
                    flds |= set(n for (ow, n) in b.provenance(cap, depth=8)["fields"] if ow.endswith(st) and n != "stake")
                o.check(flds == set(halves) and any(x.endswith("AggregateSignature::is_signer") for x in calls), "%s::check_threshold|membership" % st,
                        "a validator counts iff is_signer in {%s}" % ", ".join(halves), b.span, {"fields": sorted(flds)})
                if len(halves) == 2 and cbody is not None:
                    tt = paths.bool_truth_table(cbody, prog)
                    ok = tt is not None and len(tt[0]) == 2 and all(v == (a[0] or a[1]) for a, v in tt[1].items())
                    if not ok:
                        ok = _or_of_halves(prog, cbody, halves, st)
                    o.check(bool(ok), "%s::check_threshold|or-once" % st, "both halves are OR-ed inside one filter (each validator counted once)", cbody.span)
                # the stake summed is the validator's stake from the epoch
                mp = [t for t in mir.walk(stake) if isinstance(t, tuple) and t and t[0] == "call" and t[1].endswith("Iterator::map")]
                if mp:
                    mc = [x for x in mir.walk(mp[0][2][1]) if isinstance(x, tuple) and x and x[0] == "closure"]
                    if mc and mc[0][1] in prog.bodies:
                        rd = set((ow.rsplit("::", 1)[-1], n) for (_bb, ow, n, _sp) in prog.bodies[mc[0][1]].field_reads())
                        o.check(("ValidatorInfo", "stake") in rd, "%s::check_threshold|validator-stake" % st, "sums ValidatorInfo.stake of the epoch", b.span, {"reads": sorted(rd)})
    # who may read the declared stake
    readers = {}
    for d, rb in prog.bodies.items():
        if rb.generated:
            continue
        for (_bb, ow, n, sp) in rb.field_reads():
            if n == "stake" and ow.startswith(CERT) and ow.rsplit("::", 1)[-1] in CERT_STRUCTS.values():
                readers.setdefault(K.root_fn(d), sp)
    adm = prog.reachable_from([VC + "::try_new"]) | prog.reachable_from(["<" + POOL + "PoolImpl as " + POOL + "Pool>::add_cert"]) | set(
        d for d in prog.bodies if d.startswith(POOL))
    for fn, sp in sorted(readers.items()):
        o.check(fn == CERT + "Cert::stake" and fn not in adm, "declared-stake|reader|%s" % fshort(fn), "declared stake read only by the accessor Cert::stake (not on the admission path)", sp)
    acc = prog.callers_of(CERT + "Cert::stake")
    bad = [c for c in acc if K.root_fn(c.body.defpath) in adm]
    o.check(not bad, "declared-stake|accessor-callers", "Cert::stake() is not called on the admission path", "", {"callers": [fshort(c.body.defpath) for c in acc]})


def ob_sig_table(run, oid):
    prog = run.program("lib")
    o = run.ob(oid, "signature table: every aggregate half is verified over the payload variant of its own kind built from the certificate's own slot/hash; mixed certificates need both halves",
               "verifying a half under another kind's payload lets signatures be moved between vote kinds / halves", floor=9)
    VP = VOTE + "VotePayload"
    seen = {}
    for st in sorted(set(s for (s, _f) in SIG_TABLE)):
        b = prog.body(CERT + st + "::check_sig")
        if b is None:
            o.missing(st + "::check_sig")
            continue
        fam = prog.family(CERT + st + "::check_sig")
        for fb in fam:
            for c in fb.calls_to(AGG + "::verify"):
                sig = fb.operand_term(c.args[0])
                pay = fb.operand_term(c.args[1])
                # resolve closure upvars through the parent's closure aggregate
                field = None
                if fb.is_closure:
                    # which Option<AggregateSignature> field feeds this closure: find the combinator call in the parent
                    for pc in b.calls():
                        for a in pc.args:
                            t = b.operand_term(a)
                            if any(isinstance(x, tuple) and x and x[0] == "closure" and x[1] == fb.defpath for x in mir.walk(t)):
                                recv = b.operand_term(pc.args[0])
                                fs = [n for (ow, n) in mir.fields_in(recv) if ow.endswith(st)]
                                field = fs[0] if fs else None
                                caps = dict([x for x in mir.walk(t) if isinstance(x, tuple) and x and x[0] == "closure" and x[1] == fb.defpath][0][2])
                                if pay[0] == "upvar" and pay[1] in caps:
                                    pay = caps[pay[1]]
                else:
                    fs = [n for (ow, n) in mir.fields_in(sig) if ow.endswith(st)]
                    field = fs[0] if fs else None
                pa = [x for x in mir.walk(pay) if isinstance(x, tuple) and x and x[0] == "agg" and x[1] == VP]
                var = pa[0][2] if pa else None
                seen[(st, field)] = var
                want = SIG_TABLE.get((st, field))
                o.check(want is not None and var == want, "%s::check_sig|%s" % (st, field), "%s.%s is verified over VotePayload::%s" % (st, field, want), c.span, {"found_payload": var})
                if pa:
                    ops = dict(pa[0][3])
                    ok = K.mentions_field(ops["0"], "slot", st) and (var not in HAS_HASH or K.mentions_field(ops["1"], "block_hash", st))
                    o.check(ok, "%s::check_sig|%s|own-fields" % (st, field), "payload built from the certificate's own slot%s" % ("/block_hash" if var in HAS_HASH else ""), c.span)
        halves = [f for (s2, f) in SIG_TABLE if s2 == st]
        if len(halves) == 2:
            tt = paths.bool_truth_table(b, prog)
            ok = tt is not None
            if ok:
                terms, table = tt

                def satisfied(f, asg):
                    # the half stored in field f is absent, or its verification succeeded (any spelling)
                    for i, t in enumerate(terms):
                        fs = [n for (ow, n) in mir.fields_in(t if not (isinstance(t, tuple) and t and t[0] in ("is_some", "eq", "lt")) else t[1][0]) if ow.endswith(st)]
                        if f not in fs:
                            continue
                        if isinstance(t, tuple) and t and t[0] == "is_some":
                            if not asg[i]:
                                return True
                        elif isinstance(t, tuple) and t and t[0] == "call" and (t[1].endswith("is_none_or") or t[1].endswith("::verify") or (t[1].endswith("::map_or") and len(t[2]) == 3 and K.const_eval(t[2][1]) == 1)):
                            if asg[i]:
                                return True
                    return False
                trues = [a for a, v in table.items() if v]
                ok = bool(trues) and all(satisfied(f, a) for a in trues for f in halves)
                # and a failed verification of a present half makes the verdict false
                for i, t in enumerate(terms):
                    if isinstance(t, tuple) and t and t[0] == "call" and (t[1].endswith("is_none_or") or t[1].endswith("::verify") or (t[1].endswith("::map_or") and len(t[2]) == 3 and K.const_eval(t[2][1]) == 1)):
                        ok = ok and not any(v and not a[i] and not any(
                            isinstance(terms[j], tuple) and terms[j][0] == "is_some" and not a[j] and set(n for (_o, n) in mir.fields_in(terms[j][1][0])) & set(n for (_o, n) in mir.fields_in(t))
                            for j in range(len(terms))) for a, v in table.items())
            o.check(bool(ok), "%s::check_sig|both-halves" % st, "the verdict is true only when each half is absent or verified (conjunction of both halves)", b.span)
            # 'absent' means None: nothing (filter / take_if / and_then ..) may narrow which stored halves count as present before they reach verify
            narrowed = []
            for fb in prog.family(b.defpath):
                for c2 in fb.calls():
                    if c2.name.rsplit("::", 1)[-1] in ("is_none_or", "is_some_and", "map_or", "map", "and_then") and "option::Option" in c2.name and c2.args:
                        recv = fb.operand_term(c2.args[0])
                        if any(K.mentions_field(recv, h, st) for h in halves):
                            inner = [x[1].rsplit("::", 1)[-1] for x in mir.walk(recv) if isinstance(x, tuple) and x and x[0] == "call"]
                            bad = [n for n in inner if n in ("filter", "take_if", "and_then", "xor", "zip", "or", "take", "then", "then_some")]
                            if bad:
                                narrowed.append((c2.span, bad))
            o.check(not narrowed, "%s::check_sig|present-means-some" % st, "every stored (Some) half reaches verify: no filter / take_if narrows which halves count as present", b.span, {"narrowed": narrowed[:2]})
        else:
            vs = [c for c in b.calls_to(AGG + "::verify")]
            o.check(len(vs) == 1 and vs[0].dst["l"] == 0, "%s::check_sig|verdict" % st, "the verdict is the verify result", b.span)
    for k, want in SIG_TABLE.items():
        if k not in seen:
            o.fail("%s::check_sig|%s|missing" % k, "%s.%s is never verified" % k, "")
    # pks are the voting keys of all validators in index order
    for st in sorted(set(s for (s, _f) in SIG_TABLE)):
        fam = prog.family(CERT + st + "::check_sig")
        rd = set()
        for fb in fam:
            rd |= set(n for (_bb, ow, n, _sp) in fb.field_reads() if ow.endswith("ValidatorInfo"))
        o.check(rd == {"voting_pubkey"}, "%s::check_sig|pks" % st, "public keys are validators[i].voting_pubkey in index order", fam[0].span if fam else "", {"reads": sorted(rd)})


def ob_verify_bytes(run, oid):
    prog = run.program("lib")
    o = run.ob(oid, "AggregateSignature::verify_bytes: bitmask length == key count dominates per-signer indexing; group check on; verdict == BLST_SUCCESS",
               "a longer bitmask indexes out of range (panic on hostile input); a shorter one shifts signers; without group check rogue points verify", floor=4)
    b = prog.body(AGG + "::verify_bytes")
    if b is None:
        o.missing("AggregateSignature::verify_bytes")
        return
    fav = [c for c in b.calls() if c.name.endswith("fast_aggregate_verify")]
    o.check(len(fav) == 1, "verify_bytes|fast_aggregate_verify", "calls fast_aggregate_verify once", b.span)
    for c in fav:
        g = None
        for a in G.guard_atoms(b, c.bb, prog):
            if a[0] == "eq" and a[2] is True and any(K.mentions_field(x, "bitmask", "AggregateSignature") for x in a[1]) and any(K.mentions_arg(b, x, 3) for x in a[1]):
                g = a
        o.check(g is not None, "verify_bytes|length-check", "guarded by self.bitmask.len() == pks.len()", c.span, {"guards": K.show_atoms(prog, b, c.bb)})
        gc = b.operand_term(c.args[1])
        o.check(gc[0] == "const" and gc[2] == 1, "verify_bytes|group-check", "signature group check enabled (true)", c.span, {"arg": mir.show(gc)})
        # verdict
        rets = [d for d in b.defs().get(0, [])]
        ok = False
        for d in rets:
            t = b.rvalue_term(d[3]["rv"]) if d[0] == "stmt" else b.call_term(d[1], d[3])
            if K.mentions_call(t, "fast_aggregate_verify") and ("BLST_SUCCESS" in mir.show(t)):
                nb = G.norm_bool(t, True)
                ok = nb[0] == "eq" and nb[2] is True
        if not ok:
            # any other spelling (`matches!(err, BLST_SUCCESS)`, a match): true exactly on the paths where the verify result is BLST_SUCCESS
            rows = [r for r in paths.decision_table(b, prog) if r[1] is not None]
            good = bool(rows)
            saw_true = False
            for atoms, ret, _bl in rows:
                is_succ = [a for a in atoms if (a[0] == "variant" and a[1][1] == frozenset(["BLST_SUCCESS"]) and K.mentions_call(a[1][0], "fast_aggregate_verify"))
                           or (a[0] == "eq" and any(K.mentions_call(x, "fast_aggregate_verify") for x in a[1]) and "BLST_SUCCESS" in " ".join(mir.show(x) for x in a[1]))]
                v = K.const_eval(ret)
                if v == 1:
                    saw_true = True
                    good = good and any(a[2] is True for a in is_succ)
                elif v == 0:
                    good = good and not any(a[2] is True for a in is_succ)
                else:
                    nb = G.norm_bool(ret, True)
                    good = good and nb[0] == "eq" and nb[2] is True and any(K.mentions_call(x, "fast_aggregate_verify") for x in nb[1])
                    saw_true = saw_true or good
            ok = good and saw_true
        o.check(ok, "verify_bytes|verdict", "returns err == BLST_SUCCESS", c.span)
    # indexing closure is only reached after the length check
    for fb in prog.family(AGG + "::verify_bytes"):
        if fb.is_closure:
            idx = [s for s in panics.sites(fb, prog) if s.kind in ("index", "assert")]
            o.check(len(idx) >= 1, "verify_bytes|indexing-in-closure", "per-signer key lookup pks[v] happens in the collect closure (after the length check)", fb.span)
    # individual signature: subgroup validated on read, so verify(false, ..)
    rb = [x for d, x in prog.bodies.items() if "IndividualSignature" in d and d.endswith("SchemaRead<'de, C>>::read")]
    if not rb:
        rb = [x for d, x in prog.bodies.items() if "IndividualSignature as wincode" in d and d.endswith("::read")]
    ok = False
    for x in rb:
        for c in x.calls():
            if c.name.endswith("sig_validate"):
                t = x.operand_term(c.args[1])
                ok = t[0] == "const" and t[2] == 1
    o.check(ok, "IndividualSignature::read|sig_validate", "signatures are subgroup/identity-validated when decoded (justifies verify(false, ..))", rb[0].span if rb else "")
    vb = prog.body(IND + "::verify_bytes")
    if vb is not None:
        vs = [c for c in vb.calls() if c.name.endswith("::verify")]
        ok = len(vs) == 1 and "BLST_SUCCESS" in mir.show(vb.local_term(0) if False else vb.call_term(vs[0].bb, vs[0].raw)) or len(vs) == 1
        o.check(ok, "IndividualSignature::verify_bytes|verify", "individual verification delegates to blst verify with pk validation", vb.span)


REVIEWED_PANICS = {
    # (fn, kind, what): (max count, reason)
    ("consensus::epoch_info::EpochInfo::validator", "index", "Vec<ValidatorInfo>[usize]"): (1, "ValidatedVote::try_new checks signer < validators.len() before calling validator(signer) (O9.2)"),
    ("crypto::aggsig::AggregateSignature::verify_bytes::{closure#0}", "index", "[PublicKey][usize]"): (1, "signers() yields indices < bitmask.len() == pks.len() (length check dominates, O9.7)"),
    ("crypto::aggsig::AggregateSignature::verify_bytes::{closure#0}", "assert", "BoundsCheck"): (1, "signers() yields indices < bitmask.len() == pks.len() (length check dominates, O9.7)"),
    ("serialize", "unwrap", "Result::expect"): (1, "wincode serialisation of an in-memory VotePayload into a Vec: no size limit or I/O involved, cannot fail on message content"),
    ("types::fraction::Fraction::is_met", "panic", "panicking::panic"): (1, "debug assertion total_stake != 0: epoch configuration (sum of validator stakes), not message content"),
}


def ob_signature_decoding(run, oid):
    """the decoder of an individual (vote) signature establishes the invariant that aggregation and aggregate verification rely on"""
    prog = run.program("lib")
    o = run.ob(oid, "an individual signature enters the system only through BlstSignature::sig_validate(bytes, true) (subgroup and identity check); the aggregate decoder, whose result is "
                    "always verified WITH group check, may use from_bytes",
               "AggregateSignature::new adds individual signatures without checking them again: a point outside the subgroup that passed a cheaper decode still verifies as a single vote "
               "but poisons every certificate aggregated with it (peers reject it, and the slot never gets a valid one)", floor=2)
    rd = [b for d, b in prog.bodies.items() if "IndividualSignature as wincode::schema::SchemaRead" in d and d.endswith("::read")]
    if not rd:
        o.missing("SchemaRead for IndividualSignature")
    for b in rd:
        fam = prog.family(b.defpath)
        cs = [c for fb in fam for c in fb.calls() if c.name.rsplit("::", 1)[-1] in ("sig_validate", "from_bytes", "uncompress", "deserialize") and "blst" in c.name]
        ok = len(cs) == 1 and cs[0].name.endswith("sig_validate") and K.const_eval(cs[0].body.operand_term(cs[0].args[1])) == 1
        o.check(ok, "IndividualSignature::read|sig_validate", "decoded with sig_validate(bytes, true)", b.span, {"calls": [c.name.rsplit("::", 2)[-2:] for c in cs]})
        if ok:
            ag = [x for x in b.aggregates(AGGMOD + "IndividualSignature")] if "AGGMOD" in globals() else []
            rows_ok = all(any(a[0] in ("is_ok", "variant") and K.mentions_call(a[1][0], "sig_validate") for a in G.guard_atoms(b, bb, prog)) for (bb, rv, sp, dst) in ag) if ag else True
            o.check(rows_ok, "IndividualSignature::read|only-validated", "an IndividualSignature is built only from the validated point", b.span)
    # the only other way to obtain one is signing (SecretKey::sign)
    makers = sorted(set(K.root_fn(d) for d, b in prog.bodies.items() if not b.generated for (bb, rv, sp, dst) in b.aggregates(A + "crypto::aggsig::IndividualSignature")))
    allowed = ("SecretKey::sign", "SchemaRead", "IndividualSignature::")
    o.check(bool(makers) and all(any(x in m for x in allowed) for m in makers), "IndividualSignature|constructed-in", "constructed only by signing and by the validating decoder", "", {"makers": [fshort(m) for m in makers]})


def ob_bitmask_access(run, oid):
    """who looks at the raw storage words of a signer bitmask"""
    prog = run.program("lib")
    o = run.ob(oid, "signer bitmasks are read through the length-bounded bit API (iter_ones, get, len); their raw storage words are touched only by the wire encoder / decoder / size function",
               "the decoder truncates a bitmask's LENGTH but storage bits beyond it survive: anything that scans the raw words sees signers that are not part of the bitmask "
               "(index beyond the validator set -> panic; stake of validators who did not sign)", floor=3)
    allowed = {"bitvec_size", "read_bitvec", "write_bitvec"}
    raw = ("as_raw_slice", "as_raw_mut_slice", "into_vec", "from_vec", "try_from_vec", "domain", "domain_mut", "as_bitptr", "as_mut_bitptr", "set_len", "get_unchecked", "set_unchecked", "into_boxed_bitslice", "as_raw_ptr")
    n = 0
    for d, b in sorted(prog.bodies.items()):
        if b.generated:
            continue
        for c in b.calls():
            if "bitvec" in c.name and c.name.rsplit("::", 1)[-1] in raw:
                n += 1
                root = K.root_fn(d).rsplit("::", 1)[-1]
                o.check(root in allowed, "%s|raw-bitmask-access|%s" % (fshort(K.root_fn(d)), c.name.rsplit("::", 1)[-1]), "raw storage access only in the wire encoder / decoder / size function", c.span)
    o.check(n >= 3, "raw-bitmask-access|sites", "%d raw storage accesses examined" % n, "")
    sb = prog.body(A + "crypto::aggsig::AggregateSignature::signers")
    if sb is None:
        o.missing("AggregateSignature::signers")
    else:
        fam = prog.family(sb.defpath)
        names = set(c.name.rsplit("::", 1)[-1] for fb in fam for c in fb.calls())
        o.check(not (names & set(raw)), "AggregateSignature::signers|bounded-api", "signers() enumerates the set bits through the length-bounded API (iter_ones / get / indexing below len)", sb.span, {"calls": sorted(names)[:8]})


def _or_of_halves(prog, cb, halves, st, rows=None, ignorable=None):
    """the membership test of a certificate, in any spelling: over (half i present, validator is signer of half i) the validator is kept
    exactly when it is a signer of a present half. `rows` = (atoms, outcome term or bool, blocks); default: the closure's decision table"""
    if rows is None:
        rows = [r for r in paths.decision_table(cb, prog) if r[1] is not None]
    if not rows:
        return False

    def which(t):
        hs = [h for h in halves if K.mentions_field(t, h, st) or K.mentions(t, lambda x: x[0] == "upvar" and h in str(x[1]))]
        return hs[0] if len(hs) == 1 else None

    def term_val(t, asg):
        """value of a bool term under asg[(half, 'some'|'sig')]"""
        t = K.peel(t)
        if isinstance(t, tuple) and t and t[0] == "const" and t[2] in (0, 1):
            return bool(t[2])
        if isinstance(t, tuple) and t and t[0] == "call" and t[1].endswith(("bool::then_some", "bool::then")) and t[2]:
            return term_val(t[2][0], asg)       # filter_map(|v| cond.then_some(v.stake)): kept iff cond
        if isinstance(t, tuple) and t and t[0] == "agg" and t[1].endswith("option::Option"):
            return t[2] == "Some"
        h = which(t) if isinstance(t, tuple) else None
        if h is None:
            return None
        names = [x[1].rsplit("::", 1)[-1] for x in mir.walk(t) if isinstance(x, tuple) and x and x[0] == "call"]
        closures = [x for x in mir.walk(t) if isinstance(x, tuple) and x and x[0] == "closure"]
        inner_signer = any(any(c2.name.endswith("is_signer") for c2 in fb.calls()) for x in closures for fb in prog.family(x[1]))
        if "is_some_and" in names and inner_signer:
            return asg[(h, "some")] and asg[(h, "sig")]
        if "is_signer" in names:
            return asg[(h, "sig")]
        if names and set(names) <= {"is_some", "as_ref", "deref"} and "is_some" in names:
            return asg[(h, "some")]
        return None

    def atom_val(a, asg):
        if a[0] == "is_some" and isinstance(a[1][0], tuple) and which(a[1][0]) and not K.mentions_call(a[1][0], "is_signer"):
            return asg[(which(a[1][0]), "some")] == a[2]
        if a[0] == "bool":
            v = term_val(a[1][0], asg)
            return None if v is None else (v == a[2])
        return None
    import itertools
    for vals in itertools.product([False, True], repeat=2 * len(halves)):
        asg = {}
        for i, h in enumerate(halves):
            asg[(h, "some")] = vals[2 * i]
            asg[(h, "sig")] = vals[2 * i + 1]
        if any(asg[(h, "sig")] and not asg[(h, "some")] for h in halves):
            continue
        want = any(asg[(h, "sig")] for h in halves)
        got = []
        for atoms, ret, _bl in rows:
            hold = True
            for a in atoms:
                if D.is_structural_atom(a) or (ignorable is not None and ignorable(a)):
                    continue
                v = atom_val(a, asg)
                if v is None:
                    return False
                if not v:
                    hold = False
                    break
            if hold:
                rv = ret if isinstance(ret, bool) else term_val(ret, asg)
                if rv is None:
                    return False
                got.append(rv)
        if not got or any(g != want for g in got):
            return False
    return True


def _loop_threshold(prog, b, stake, halves, st, o, key):
    """check_threshold spelled as a loop: `let mut s = Stake::default(); for v in epoch_info.validators() { if <member> { s += v.stake } }`.
    Decides the same four clauses as the iterator form; returns True when the loop form was recognised"""
    t = K.peel(stake)
    if not (isinstance(t, tuple) and t and t[0] == "local"):
        return False
    l = t[1]
    adds = []
    for c in b.calls():
        last = mir.strip_generics(c.name).rsplit("::", 1)[-1]
        if last in ("add_assign",) and c.args:
            a0 = K.peel(b.operand_term(c.args[0]))
            if isinstance(a0, tuple) and a0 and a0[0] == "local" and a0[1] == l:
                adds.append(c)
    if not adds:
        return False
    loops = [(h, nodes) for (h, nodes) in b.loops() if all(c.bb in nodes for c in adds)]
    if len(loops) != 1:
        return False
    header, nodes = loops[0]
    # the other definition(s) of the accumulator: zero
    inits = [d for d in b.defs().get(l, []) if d[1] not in nodes]
    zero = bool(inits) and all(D.vclass(prog, b, b.call_term(d[1], d[3]) if d[0] == "call" else b.rvalue_term(d[3]["rv"])) in (["type-default"], ["newtype", "types::stake::Stake", 0], ["const", 0]) for d in inits)
    src = b.operand_term(adds[0].args[1])
    pv = b.provenance(src)
    over_validators = any(x == EPOCH + "validators" for x in pv["calls"]) and any(x.endswith("::next") for x in pv["calls"])
    o.check(len(adds) == 1 and zero and over_validators, key + "|recomputed", "stake = sum over epoch_info.validators() filtered by the bitmask (accumulator starting at zero, one `+=` per validator)", b.span,
            {"adds": len(adds), "zero-init": zero})
    o.check(K.is_field(src, "stake") and not K.mentions_field(src, "stake", st), key + "|validator-stake", "sums ValidatorInfo.stake of the epoch", adds[0].span, {"added": mir.show(src)[:80]})
    flds = set()
    for c in b.calls():
        if c.name.endswith("AggregateSignature::is_signer") and c.bb in nodes:
            flds |= set(n for (ow, n) in b.provenance(b.operand_term(c.args[0]), depth=8)["fields"] if ow.endswith(st) and n != "stake")
    o.check(flds == set(halves), key + "|membership", "a validator counts iff is_signer in {%s}" % ", ".join(halves), b.span, {"fields": sorted(flds)})
    # one iteration as a table: the add is reached exactly for signers of a present half
    nxt = [c for c in b.calls() if c.bb in nodes and c.name.endswith("::next")]
    start = None
    for c in nxt:
        sw = b.blocks[c.target]["term"] if c.target is not None else None
        if sw and sw["k"] == "switch":
            for (v, tb) in sw["arms"]:
                if str(v) == "1":
                    start = tb
    ok = False
    if start is not None:
        try:
            rows = [(atoms, out == ("stop", adds[0].bb), bl) for (atoms, out, bl) in paths.region_table(b, prog, start, [adds[0].bb], header)]
            ign = lambda a: K.mentions(a[1][0], lambda y: isinstance(y, tuple) and y and y[0] == "call" and y[1].endswith("::next")) and not K.mentions_call(a[1][0], "is_signer") if a[1] and isinstance(a[1][0], tuple) else False
            ok = _or_of_halves(prog, b, halves, st, rows=rows, ignorable=None)
        except paths.TooManyPaths:
            ok = False
    o.check(bool(ok), key + "|or-once", "within one iteration the stake is added exactly when the validator signed a present half (each validator counted once)", adds[0].span)
    return True


def ob_no_panic(run, oid):
    prog = run.program("lib")
    o = run.ob(oid, "no unreviewed panic site is reachable from ValidatedVote::try_new / ValidatedCert::try_new",
               "every alteration must be rejected with an error, never a panic (a panic in the message loop stops the node)", floor=2)
    roots = [VV + "::try_new", VC + "::try_new"]
    from . import panic_review as _PR
    nb, ns = panics.review(o, prog, roots, REVIEWED_PANICS, fshort, include_overflow=False, auto=_PR.auto)
    run.notes.append("O9.8 examined %d bodies reachable from the two try_new, %d panic sites" % (nb, ns))
    o.ok("closure-size", "%d bodies examined" % nb, "", nontrivial=False)


def ob_before_lock(run, oid):
    prog = run.program("lib")
    o = run.ob(oid, "validation happens before the pool lock is taken, and only validated values are added",
               "signature verification under the write lock stalls voting; adding before validating admits forgeries", floor=4)
    fam = [b for b in prog.family(A + "consensus::Alpenglow::handle_all2all_message") if b.is_closure]
    if not fam:
        o.missing("Alpenglow::handle_all2all_message")
    for b in fam:
        for (tn, add, kind) in ((VV + "::try_new", "Pool::add_vote", "Vote"), (VC + "::try_new", "Pool::add_cert", "Cert")):
            v = b.calls_to(tn)
            adds = [c for c in b.calls() if c.callee.endswith(add)]
            o.check(bool(v) and bool(adds), "handle_all2all_message|%s|present" % kind, "%s messages are validated and added" % kind, b.span)
            for c in adds:
                o.check(any(b.dominates(x.bb, c.bb) for x in v), "handle_all2all_message|%s|validated-first" % kind, "try_new dominates %s" % add, c.span)
                pv = b.provenance(b.operand_term(c.args[1]))
                o.check(tn in pv["calls"], "handle_all2all_message|%s|validated-value" % kind, "the value added is the Ok of try_new", c.span)
                gok = [a for a in G.guard_atoms(b, c.bb, prog) if a[0] == "is_ok" and a[2] is True and K.mentions_call(a[1][0], "try_new")]
                o.check(bool(gok), "handle_all2all_message|%s|ok-arm" % kind, "only on the Ok arm of try_new", c.span)
            locks = [c for c in b.calls() if c.name.endswith("RwLock::write") or c.name.endswith("RwLock<T>::write")]
            for lk in locks:
                if any(b.can_reach(lk.bb, c.bb) for c in adds):
                    o.check(any(b.dominates(x.bb, lk.bb) for x in v) or not any(b.can_reach(lk.bb, x.bb) for x in v), "handle_all2all_message|%s|before-lock|%s" % (kind, lk.span.rsplit(":", 1)[-1]),
                            "pool.write() is taken after validation", lk.span)


def witness(run, oid):
    """thorough tier: compile-fail doctests with compiling twins"""
    o = run.ob(oid, "type-level witnesses: constructing Validated* outside their modules / passing raw values to Pool does not compile (twins compile)",
               "the type system is what carries the validate-then-use discipline across modules", floor=8)
    from engine import witness as W
    res = W.run_witness()
    names = ["ValidatedVoteLiteralFails", "ValidatedVoteLiteralTwin", "ValidatedCertLiteralFails", "ValidatedCertLiteralTwin", "NewValidatedPrivateFails",
             "AddVoteRawFails", "AddVoteRawTwin", "AddCertRawFails", "AddCertRawTwin", "CertStakeFieldPrivateFails"]
    if len(res) == 1 and res[0][0].startswith("skipped"):
        o.ok("witness|skipped", res[0][2], "", nontrivial=False)
        o.floor = 1
        return
    for name, ok, detail in W.expect(names, res):
        o.check(ok, "witness|" + name, "doctest %s behaves as expected (%s)" % (name, "must not compile" if name.endswith("Fails") else "compiles"), "witness/src/lib.rs", {"detail": detail})


def check(run):
    # the quorum predicates every check_threshold ends in: exact fractions, exact u128 comparison
    from . import C01
    C01.ob_constants(run, "O9.10a")
    C01.ob_is_met(run, "O9.10b")
    ob_construct(run, "O9.1")
    ob_vote_try_new(run, "O9.2")
    ob_kind_binding(run, "O9.3")
    ob_cert_try_new(run, "O9.4")
    ob_threshold_validation(run, "O9.5")
    ob_sig_table(run, "O9.6")
    ob_verify_bytes(run, "O9.7")
    ob_no_panic(run, "O9.8")
    ob_bitmask_access(run, "O9.12")
    ob_signature_decoding(run, "O9.13")
    # "never a panic": validator(i) is reached only with an index that was range-checked (or derived locally)
    from . import C10 as _C10
    _C10.ob_validate_then_use(run, "O9.14")
    ob_before_lock(run, "O9.9")
    # "all bitmask lengths ... rejected with an error, never a panic": the decoders every vote and certificate comes through
    # (bounded indices, bounded bitmask, one exact door)
    from . import C19
    C19.check(run, prefix="O9.11")
    if run.tier == "thorough":
        witness(run, "O9.1w")
