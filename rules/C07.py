"""C07 — parent-ready is announced exactly for certified, skip-connected parents (structural part)."""
from engine import guards as G
from engine import mir
from . import common as K
from . import detectors as D
from .common import POOL, fshort

EXPLANATION = (
    "Decides O7.1-O7.6: inside ParentReadyTracker every add_to_ready(state, X) for slot s is followed on every path by "
    "pushing (s, X) to the returned vector and nothing else is pushed; add_to_ready only for window-start slots; the "
    "forward scans continue only over skip-certified slots; the root guard dominates the first per-slot state creation "
    "of every entry point and bounds the backward scan; prune sets the root and retains only >= root; is_ready is "
    "written only by its owners; certificate -> tracker wiring in pool.rs; every tracker result is announced. "
    "Does NOT decide order-independence of the incremental reachability over all certificate orders and prunings."
)

PRT = POOL + "parent_ready_tracker::ParentReadyTracker"
PRS = POOL + "parent_ready_tracker::parent_ready_state::ParentReadyState"
PI = POOL + "PoolImpl"
FT = POOL + "finality_tracker::FinalityTracker"
A_SLOT = "alpenglow::types::slot::Slot::"


def ob_add_to_ready_records(run, oid):
    """ParentReadyState::add_to_ready records the parent on every path - whether or not a waiter is there to be told"""
    prog = run.program("lib")
    o = run.ob(oid, "ParentReadyState::add_to_ready records the given parent on every path (is_ready = Ready([id]) or a push of id), independent of the waiter",
               "the pair is announced by the caller in any case: if the state does not record it, the query does not list it, later waiters are not woken and the "
               "parent is not carried into the next window when this one is skipped", floor=2)
    b = prog.body(PRS + "::add_to_ready")
    if b is None:
        o.missing("ParentReadyState::add_to_ready")
        return o
    rec = []
    for (bb, ow, name, rv, sp, dst) in b.field_writes():
        if name == "is_ready" and ow == PRS:
            t = b.rvalue_term(rv) if isinstance(rv, dict) else None
            rec.append((bb, sp, "assign"))
    for c in b.calls():
        if mir.strip_generics(c.name).rsplit("::", 1)[-1] in ("push", "insert", "extend") and len(c.args) >= 2 and K.mentions(b.operand_term(c.args[-1]), lambda y: y[0] == "param" and y[1] == 2):
            rec.append((c.bb, c.span, "push"))
    o.check(len(rec) >= 2, "add_to_ready|record-sites", "one recording step per state (first parent: Ready([id]); further parents: push)", b.span, {"sites": len(rec)})
    o.check(b.always_followed_by(0, [r[0] for r in rec]), "add_to_ready|always-records", "every path to a return passes through a recording step", b.span)
    for (bb, rv, sp, dst) in b.aggregates():
        if rv.get("ak") == "adt" and rv.get("variant") == "Ready":
            t = b.operand_term(rv["ops"][0]) if rv["ops"] else None
            pv = b.provenance(t) if t is not None else {"params": set()}
            o.check(t is not None and (b.local_name(2) in pv["params"] or K.mentions(t, lambda y: isinstance(y, tuple) and y and y[0] == "param" and y[1] == 2)), "add_to_ready|Ready|contains-id",
                    "the Ready list is created with the given parent", sp, {"params": sorted(pv["params"])})
    return o


def ob_all_notar_fallback_blocks(run, oid):
    """a slot can hold notar-fallback certificates for several blocks (equivocating leader): the tracker treats every one of them as a potential parent"""
    prog = run.program("lib")
    o = run.ob(oid, "the parent-ready tracker walks ALL notarized-fallback blocks of a slot (never just the first)",
               "with only the first block looked at, which parents become ready depends on the order in which certificates and skips arrived: two nodes holding the same "
               "certificates disagree on the ready parents", floor=1)
    n = 0
    for fn in ("mark_skipped", "mark_notar_fallback", "handle_finalization"):
        for b in prog.family(PRT + "::" + fn):
            loops = b.loops()
            for c in b.calls_to(PRS + "::notar_fallback_blocks"):
                n += 1
                # consumers of the iterator: a `next` call outside every loop takes one element only
                single = []
                for c2 in b.calls():
                    last = c2.name.rsplit("::", 1)[-1]
                    if last in ("next", "nth", "last", "min", "max", "find", "position") and c2.args and K.mentions(b.operand_term(c2.args[0]), lambda y: isinstance(y, tuple) and y and y[0] == "call" and y[3] == c.bb and y[1].endswith("notar_fallback_blocks")):
                        if last != "next":
                            single.append((last, c2.span))
                            continue
                        # a for-loop creates its iterator BEFORE the loop it drives; `it().next()` creates and consumes it in one go
                        inner = [nodes for (_h, nodes) in loops if c2.bb in nodes]
                        innermost = min(inner, key=len) if inner else None
                        if innermost is None or c.bb in innermost:
                            single.append((last, c2.span))
                o.check(not single, "ParentReadyTracker::%s|notar_fallback_blocks|walked-whole" % fn, "every notar-fallback block of the slot is visited (loop / extend), not only the first", c.span, {"single-element consumers": single[:2]})
    if n == 0:
        o.missing("calls of ParentReadyState::notar_fallback_blocks in the tracker")
    return o


def check(run, prefix="O7"):
    from . import slots as _SL
    _SL.ob_slot_arithmetic(run, prefix + ".15")
    ob_add_to_ready_records(run, prefix + ".17")
    ob_all_notar_fallback_blocks(run, prefix + ".19")
    from . import detectors as _DL
    _DL.ob_loop_exits(run, "O7.14", ['consensus::pool'], 'every newly ready (slot, parent) pair must be recorded and announced: a loop that stops early drops the remaining pairs')
    # "skipped as a consequence of a finalization" / "finalized": the tracker learns these only from the FinalizationEvent
    from . import C08
    C08.ob_status_reporting(run, prefix + ".10")
    C08.ob_event_flow(run, prefix + ".12")
    C08.ob_implicit_sources(run, prefix + ".16")
    # a notarized / notar-fallback-certified block becomes a parent candidate only if its certificate is admitted: the duplicate
    # test of received certificates must not reject a second notar-fallback block of the same slot
    from . import C03
    C03.ob_once(run, prefix + ".13")
    ob_skip_chain(run, prefix + ".11")
    D.ob_watermark_comparisons(run, "O7.9", ["consensus::pool"], 10, "pairs for the slot at the root are still live: discarding them loses an announcement, keeping older ones announces a pair again")
    D.ob_state_mutations(run, "O7.8", ['consensus::pool::parent_ready_tracker::ParentReadyTracker', 'consensus::pool::parent_ready_tracker::parent_ready_state::ParentReadyState'], 'ready/skip/notar-fallback marks are monotone: removing or overwriting them loses or repeats ParentReady announcements')
    prog = run.program("lib")
    P = prefix

    # ------------------------------------------------------------------ O7.1 / O7.2
    o1 = run.ob(P + ".1", "announce <=> record: every add_to_ready(state(s), X) is followed by pushing (s, X) to the returned vector; nothing else is pushed",
                "a recorded-but-unannounced pair is never voted on by the Votor; an announced-but-unrecorded pair disagrees with parents_ready()/wait_for_parent_ready", floor=4)
    o2 = run.ob(P + ".2", "parents become ready only at window-start slots, propagated only across skip-certified slots",
                "a parent propagated past a non-skipped slot lets a leader build on a parent whose intermediate slot may still be notarized (fork)", floor=7)
    for fn in ("mark_notar_fallback", "mark_skipped"):
        b = prog.body(PRT + "::" + fn)
        if b is None:
            o1.missing("ParentReadyTracker::" + fn)
            continue
        adds = b.calls_to(PRS + "::add_to_ready")
        pushes = [c for c in b.calls() if c.name.endswith("SmallVec::push")]
        # the vector returned
        ret_pushes = []
        for c in pushes:
            t = b.operand_term(c.args[1])
            if t[0] == "tuple" and len(t[1]) == 2:
                ret_pushes.append(c)
        if not adds:
            o1.fail("%s|add_to_ready|missing" % fn, "no add_to_ready call in ParentReadyTracker::%s" % fn, b.span)
        for c, key in K.ordinal_keys(adds, lambda c: "ParentReadyTracker::%s|add_to_ready" % fn):
            x = K.peel(b.operand_term(c.args[1]))
            st = b.operand_term(c.args[0])
            slot_t = st[2][1] if st[0] == "call" and st[1].endswith("slot_state") else None
            match = [p for p in ret_pushes if K.peel(b.operand_term(p.args[1])[1][1]) == x and (slot_t is None or b.operand_term(p.args[1])[1][0] == slot_t)]
            o1.check(bool(match) and b.always_followed_by(c.bb, [p.bb for p in match]), key + "|announced", "followed on every path by push((slot, parent)) with the same slot and parent", c.span,
                     {"parent": mir.show(x), "slot": mir.show(slot_t) if slot_t else None})
            g = G.has_guard(prog, b, c.bb, pred="bool", polarity=True, calls=["Slot::is_start_of_window"])
            ok = g is not None and (slot_t is None or g[1][0][2][0] == slot_t)
            o2.check(bool(ok), key + "|window-start", "add_to_ready only when that slot is the start of a window", c.span, {"guards": K.show_atoms(prog, b, c.bb)})
            rec = [lambda a: a[0] == "lt" and a[2] is False and any(K.mentions_field(x, "root", "ParentReadyTracker") for x in a[1]),
                   lambda a: a[0] == "bool" and a[2] is True and a[1][0][0] == "call" and a[1][0][1] in (PRS + "::mark_notar_fallback", PRS + "::mark_skip", A_SLOT + "is_start_of_window")]
            extra = D.extra_guards(prog, b, c.bb, rec)
            o2.check(not extra, key + "|no-extra-condition", "no further condition suppresses a ready parent ('exactly when')", c.span, {"extra": G.atoms_show(extra)})
        for p, key in K.ordinal_keys(ret_pushes, lambda c: "ParentReadyTracker::%s|push" % fn):
            if b.operand_term(p.args[1])[1][0][0] in ("local", "param") and False:
                continue
            # pushes of (slot, parent) pairs into the result must be dominated by an add_to_ready
            t = b.operand_term(p.args[1])
            is_result = _is_result_vec(b, p)
            if not is_result:
                continue
            o1.check(any(b.dominates(a.bb, p.bb) for a in adds), key + "|recorded", "every announced pair was recorded with add_to_ready first", p.span)
        # forward scans continue only over skip-certified slots: the loop head can be re-entered from an iteration
        # only through the true edge of the is_skip_certified test (removing that edge cuts every back edge)
        es = b.edges()
        n_scan = 0
        for (s, dterm, dty) in b.switches():
            if dty == "bool" and dterm[0] == "call" and dterm[1] == PRS + "::is_skip_certified":
                heads = [c.bb for c in b.calls() if (c.name.endswith("Iterator>::next") or c.name.endswith("::next")) and b.dominates(c.bb, s)]
                inner = max(heads, key=lambda h: len(b.dominators()[h])) if heads else None
                true_edges = [i for i, e in enumerate(es) if e[0] == s and e[2][0] == "sw" and e[2][1] != 0]
                false_t = [e[1] for e in es if e[0] == s and e[2] == ("sw", 0)]
                ok = False
                if inner is not None and true_edges:
                    # iteration entry: successor(s) of the loop head's `Some` arm
                    body_entry = [e[1] for e in es if e[0] == inner]
                    r = set()
                    for be in body_entry:
                        r |= b.reachable(be, removed_edges=true_edges)
                    ok = inner not in r and bool(false_t) and not b.can_reach(false_t[0], inner)
                n_scan += 1
                o2.check(ok, "ParentReadyTracker::%s|scan-continues-only-over-skipped|%d" % (fn, n_scan - 1),
                         "every way back to the loop head passes the true edge of is_skip_certified (the scan stops at the first slot that is not skip-certified)", b.blocks[s]["term"].get("sp", ""))
        want_scans = 1 if fn == "mark_notar_fallback" else 2
        o2.check(n_scan >= want_scans, "ParentReadyTracker::%s|scans-found" % fn, "%d scan loop(s) test is_skip_certified" % want_scans, b.span, {"found": n_scan})

    # ------------------------------------------------------------------ O7.3 root guard
    o = run.ob(P + ".3", "the root guard dominates the first per-slot state creation of every tracker entry point; backward scan bounded by root; prune sets root and retains >= root",
               "re-creating state for a pruned (decided) slot re-announces pairs or grows state for ever", floor=5)
    for fn in ("mark_notar_fallback", "mark_skipped"):
        b = prog.body(PRT + "::" + fn)
        if b is None:
            continue
        ss = b.calls_to(PRT + "::slot_state")
        for c in ss[:1]:
            g = G.has_guard(prog, b, c.bb, pred="lt", polarity=False, fields=["root"], owner="ParentReadyTracker", depth=0)
            o.check(g is not None, "ParentReadyTracker::%s|root-guard" % fn, "slot_state(slot) only when !(slot < self.root)", c.span, {"guards": K.show_atoms(prog, b, c.bb)})
            if g is not None:
                arg = b.operand_term(c.args[1])
                o.check(K.peel(g[1][0]) == K.peel(arg), "ParentReadyTracker::%s|root-guard|same-slot" % fn, "the guarded slot is the one whose state is created", c.span,
                        {"guarded": mir.show(g[1][0]), "created": mir.show(arg)})
    b = prog.body(PRT + "::mark_skipped")
    if b is not None:
        ok = False
        for cb in prog.family(PRT + "::mark_skipped"):
            if cb.is_closure:
                for c in cb.calls():
                    if c.name.endswith("::ge") or c.name.endswith("::lt") or c.name.endswith("::le") or c.name.endswith("::gt"):
                        if any(K.mentions_name(cb.operand_term(a), "root") for a in c.args):
                            ok = True
        o.check(ok, "ParentReadyTracker::mark_skipped|backward-scan-bound", "the backward scan is filtered by slot >= root", b.span)
    b = prog.body(PRT + "::prune")
    if b is None:
        o.missing("ParentReadyTracker::prune")
    else:
        w = K.writes_of_field(b, "ParentReadyTracker", "root")
        o.check(bool(w) and all(b.rvalue_term(rv)[0] == "param" for (_bb, _sp, rv) in w), "ParentReadyTracker::prune|sets-root", "root = new_root", b.span)
        ret = [c for c in b.calls() if c.name.endswith("::retain") and K.is_field(b.operand_term(c.args[0]), "states", "ParentReadyTracker")]
        o.check(bool(ret), "ParentReadyTracker::prune|retain", "states.retain(slot >= new_root)", b.span)
        for c in ret:
            ct = b.operand_term(c.args[1])
            cb = prog.bodies.get(ct[1]) if isinstance(ct, tuple) and ct and ct[0] == "closure" else None
            if cb is None:
                o.fail("ParentReadyTracker::prune|retain|predicate", "retain predicate is not a closure of this function", c.span)
                continue
            # exactly `slot >= new_root`: a state at or above the root is never dropped - it may hold a registered waiter or marks that
            # only matter later (a 'blank' looking state with a waiter must survive)
            bad = D.closure_is_threshold(prog, cb, lambda x: K.mentions(x, lambda y: y[0] == "param" and y[1] == 2), lambda x: K.mentions(x, lambda y: y[0] == "upvar") and not K.mentions(x, lambda y: y[0] == "param"))
            o.check(not bad, "ParentReadyTracker::prune|retain|predicate", "a per-slot state is kept exactly when slot >= new_root (nothing else decides)", c.span, {"problems": bad[:3]})
    # every other function that creates per-slot state
    creators = sorted(set(K.root_fn(c.body.defpath) for c in prog.callers_of(PRT + "::slot_state")))
    o.check(set(x.rsplit("::", 1)[-1] for x in creators) <= {"mark_notar_fallback", "mark_skipped"}, "ParentReadyTracker::slot_state|callers",
            "per-slot state is created only in mark_notar_fallback / mark_skipped (behind the root guard)", "", {"callers": [fshort(x) for x in creators]})

    # ------------------------------------------------------------------ O7.7 propagate once
    o = run.ob(P + ".7", "a block / skip is propagated only when it was newly marked (each pair is recorded once)",
               "re-propagating an already marked block or slot inserts a (slot, parent) pair twice: the duplicate assertion in add_to_ready panics under the pool lock (or the pair is announced again)", floor=4)
    for fn, marker in (("mark_notar_fallback", PRS + "::mark_notar_fallback"), ("mark_skipped", PRS + "::mark_skip")):
        b = prog.body(PRT + "::" + fn)
        if b is None:
            continue
        for c, key in K.ordinal_keys(b.calls_to(PRS + "::add_to_ready"), lambda c: "ParentReadyTracker::%s|add_to_ready" % fn):
            g = [a for a in G.guard_atoms(b, c.bb, prog) if a[0] == "bool" and a[2] is True and a[1][0][0] == "call" and a[1][0][1] == marker]
            o.check(bool(g), key + "|newly-marked", "only after %s(..) returned true (newly marked)" % marker.rsplit("::", 1)[-1], c.span, {"guards": K.show_atoms(prog, b, c.bb)[:5]})
    for fn, fld in (("mark_skip", "skip"), ("mark_notar_fallback", "notar_fallbacks")):
        b = prog.body(PRS + "::" + fn)
        if b is None:
            o.missing("ParentReadyState::" + fn)
            continue
        import engine.paths as P_
        rows = P_.decision_table(b, prog)
        outs = set()
        for atoms, ret, blocks in rows:
            wrote = any(bb in blocks for (bb, _sp, _rv) in K.writes_of_field(b, "ParentReadyState", fld)) or any(bb in blocks for (bb, _sp) in K.mutborrows_of_field(b, "ParentReadyState", fld) if any(c.bb in blocks and c.name.endswith("::push") for c in b.calls()))
            if ret is not None and ret[0] == "const":
                outs.add((bool(ret[2]), bool(wrote)))
            elif ret is not None:
                # `let already = xs.contains(..); if !already { push } !already`: the returned term is decided by a condition of this path
                neg = False
                r2 = K.peel(ret)
                while isinstance(r2, tuple) and r2 and r2[0] == "un" and r2[1] == "Not":
                    neg = not neg
                    r2 = K.peel(r2[2])
                strip = lambda x: (x[0], x[1], x[2]) if isinstance(x, tuple) and x and x[0] == "call" else x
                val = None
                for a in atoms:
                    if a[0] == "bool" and strip(K.peel(a[1][0])) == strip(r2):
                        val = a[2] != neg
                if val is None:
                    outs.add(("?", bool(wrote)))
                else:
                    outs.add((bool(val), bool(wrote)))
        o.check(outs == {(True, True), (False, False)}, "ParentReadyState::%s|returns-newly" % fn, "%s returns true exactly on the path that records the mark" % fn, b.span, {"table(ret,wrote)": sorted(outs)})

    # ------------------------------------------------------------------ O7.4 is_ready writers
    o = run.ob(P + ".4", "is_ready is written only by add_to_ready / wait_for_parent_ready / constructors; the registered waiter is sent the first parent",
               "updating is_ready elsewhere skips the wake-up of a registered waiter or the duplicate assertion", floor=3)
    w = K.all_field_writers(prog, PRS).get("is_ready", {})
    for fn, lst in sorted(w.items()):
        nm = fn.rsplit("::", 1)[-1]
        o.check(nm in ("add_to_ready", "wait_for_parent_ready", "genesis", "default"), "is_ready|writer|%s" % fshort(fn), "ParentReadyState.is_ready written/borrowed mutably in %s" % fshort(fn), lst[0][0])
    for b in K.bodies_in(prog, POOL + "parent_ready_tracker::", include_derived=True):
        for (bb, rv, sp, dst) in b.aggregates(PRS):
            nm = K.root_fn(b.defpath).rsplit("::", 1)[-1]
            o.check(nm in ("genesis", "default"), "ParentReadyState|construct|%s" % fshort(b.defpath), "ParentReadyState constructed in %s" % nm, sp)
    b = prog.body(PRS + "::add_to_ready")
    if b is None:
        o.missing("ParentReadyState::add_to_ready")
    else:
        snd = [c for c in b.calls() if c.name.endswith("oneshot::Sender::send") or c.name.endswith("Sender<T>::send") or c.name.endswith("::send")]
        o.check(bool(snd), "add_to_ready|wakes-waiter", "a registered waiter is sent the parent", b.span)
        for c in snd:
            atoms = G.guard_atoms(b, c.bb, prog)
            o.check(any(a[0] == "variant" and a[1][1] == frozenset(["NotReady"]) for a in atoms) and any(a[0] == "is_some" and a[2] for a in atoms), "add_to_ready|wakes-waiter|arm",
                    "in the NotReady(Some(sender)) case", c.span, {"guards": G.atoms_show(atoms)})

    # ------------------------------------------------------------------ O7.5 wiring
    o = run.ob(P + ".5", "certificate -> tracker wiring: Notar/NotarFallback -> mark_notar_fallback; Skip -> mark_skipped; finalization events -> handle_finalization",
               "a certificate kind that is not wired never makes its block/slot count towards ParentReady", floor=7)
    want = {PRT + "::mark_notar_fallback": {"Notar", "NotarFallback"}, PRT + "::mark_skipped": {"Skip"}}
    for vb in prog.family(PI + "::add_valid_cert"):
        if not vb.is_closure:
            continue
        for fn, arm in want.items():
            cs = vb.calls_to(fn)
            o.check(bool(cs), "add_valid_cert|%s" % fshort(fn), "add_valid_cert calls %s" % fshort(fn), vb.span)
            for c in cs:
                names = set(K.CERT_KINDS)
                for a in G.guard_atoms(vb, c.bb, prog):
                    if a[0] == "variant" and a[1][1] <= set(K.CERT_KINDS):
                        names &= a[1][1]
                o.check(names == arm, "add_valid_cert|%s|arm" % fshort(fn), "%s in the Cert::%s arm(s)" % (fshort(fn).rsplit("::", 1)[-1], "/".join(sorted(arm))), c.span, {"arms": sorted(names)})
                # ... for EVERY admitted certificate of that kind: the tracker has its own root guard; a further condition here (slot vs highest
                # finalized slot, ..) withholds certificates for slots that are still tracked
                extra = D.extra_guards(prog, vb, c.bb, [lambda a: a[0] == "variant" and a[1][1] <= set(K.CERT_KINDS)])
                o.check(not extra, "add_valid_cert|%s|unconditional" % fshort(fn), "every admitted certificate of the arm reaches the tracker (no further condition)", c.span, {"extra": G.atoms_show(extra)})
                # argument: the certificate's own slot / block id
                t = vb.operand_term(c.args[1])
                o.check(K.mentions_call(t, "Cert::slot"), "add_valid_cert|%s|arg" % fshort(fn), "called with the certificate's own slot/block", c.span, {"arg": mir.show(t)[:160]})
    b = prog.body(PRT + "::handle_finalization")
    if b is None:
        o.missing("ParentReadyTracker::handle_finalization")
    else:
        # which of the pairs collected for one finalization event is announced: the one for the HIGHEST window (the order in which the
        # event's parts are processed is not ascending: the finalized block comes first, its ancestors after it)
        rets = [b.call_term(bl["id"], bl["term"]) for bl in b.blocks if bl["term"]["k"] == "call" and bl["term"]["dst"]["l"] == 0 and not bl["term"]["dst"]["p"] and bl["id"] in b.reach()]
        rets += [b.rvalue_term(st["rv"]) for bl in b.blocks for st in bl["stmts"] if st["k"] == "assign" and st["dst"]["l"] == 0 and not st["dst"]["p"]]
        sel = set()
        for t in rets:
            sel |= set(x.rsplit("::", 1)[-1] for x in b.provenance(t, depth=10)["calls"])
        by_max = bool(sel & {"max_by_key", "max_by", "max"})
        positional = sorted(sel & {"pop", "last", "first", "next_back", "nth", "swap_remove", "remove", "truncate", "drain", "split_off"})
        whole = not by_max and not positional       # the whole collection is returned: every pair announced
        o.check((by_max and not positional) or whole, "ParentReadyTracker::handle_finalization|selects-highest-slot",
                "of the pairs one finalization event makes ready, the announced one is selected by its slot (maximum), not by its position in the collection", b.span,
                {"selectors": sorted(sel & {"max_by_key", "max_by", "max", "pop", "last", "first", "next", "next_back", "nth"})})
        table = {}
        for c in b.calls_to([PRT + "::mark_notar_fallback", PRT + "::mark_skipped"]):
            pv = b.provenance(b.operand_term(c.args[1]))
            fs = set(n for (ow, n) in pv["fields"] if ow.endswith("FinalizationEvent"))
            table.setdefault(c.name.rsplit("::", 1)[-1], set()).update(fs)
        for c in b.calls_to([PRT + "::mark_notar_fallback", PRT + "::mark_skipped"]):
            extra = D.extra_guards(prog, b, c.bb, [lambda a: a[0] in ("is_some", "variant") and K.mentions_field(a[1][0], "finalized", "FinalizationEvent")])
            o.check(not extra, "ParentReadyTracker::handle_finalization|%s|unconditional|%s" % (c.name.rsplit("::", 1)[-1], "+".join(sorted(set(n for (ow, n) in b.provenance(b.operand_term(c.args[1]))["fields"] if ow.endswith("FinalizationEvent"))))),
                    "every block / slot of the event is marked (no further condition)", c.span, {"extra": G.atoms_show(extra)})
        o.check(table.get("mark_notar_fallback") == {"finalized", "implicitly_finalized"} and table.get("mark_skipped") == {"implicitly_skipped"},
                "ParentReadyTracker::handle_finalization|table", "finalized & implicitly finalized blocks -> mark_notar_fallback; implicitly skipped slots -> mark_skipped", b.span,
                {"table": {k: sorted(v) for k, v in table.items()}})

    # ------------------------------------------------------------------ O7.6 results announced
    o = run.ob(P + ".6", "every result of the parent-ready tracker in pool.rs is announced through send_parent_ready_events; queries read the same state",
               "a dropped result is a ParentReady that the Votor and the block producer never see", floor=5)
    producers = [PRT + "::mark_notar_fallback", PRT + "::mark_skipped", PRT + "::handle_finalization"]
    for b in K.bodies_in(prog, POOL):
        if b.defpath.startswith(POOL + "parent_ready_tracker::"):
            continue
        for c, key in K.ordinal_keys(b.calls_to(producers), lambda c: "%s|%s" % (fshort(c.body.defpath), fshort(c.name).rsplit("::", 1)[-1])):
            cons = []
            for d in b.calls_to(PI + "::send_parent_ready_events"):
                pv = b.provenance(b.operand_term(d.args[1]))
                if c.name in pv["calls"]:
                    cons.append(d.bb)
            o.check(bool(cons) and b.always_followed_by(c.bb, cons), key + "|announced", "its result is always handed to send_parent_ready_events", c.span)
    for sb in prog.family(PI + "::send_parent_ready_events"):
        if not sb.is_closure:
            continue
        evs = sb.aggregates(POOL + "PoolEvent", "ParentReady")
        snd = sb.calls_to(PI + "::send_votor_event")
        o.check(bool(evs) and bool(snd), "send_parent_ready_events|sends", "each pair becomes a PoolEvent::ParentReady sent to the Votor", sb.span)
    for fn, fld in (("parents_ready", "is_ready"), ("wait_for_parent_ready", "is_ready")):
        b = prog.body(PRT + "::" + fn)
        if b is None:
            o.missing("ParentReadyTracker::" + fn)
            continue
        rd = G.deep_fields(prog, ("call", b.defpath, (), 0), 2)
        rd |= set((ow, n) for (_bb, ow, n, _sp) in b.field_reads())
        for cb in prog.family(b.defpath):
            for c in cb.calls():
                for t in prog.callees_of_site(c):
                    rd |= set((ow, n) for (_bb, ow, n, _sp) in prog.bodies[t].field_reads())
        o.check((PRS, "is_ready") in rd, "ParentReadyTracker::%s|reads-is_ready" % fn, "%s answers from ParentReadyState.is_ready" % fn, b.span)


def _is_result_vec(b, push_call):
    """does this SmallVec::push target the vector that the function returns?"""
    t = b.operand_term(push_call.args[0])
    # the return place _0 is assigned (moved) from the same local
    target_local = push_call.args[0].get("m", push_call.args[0].get("c", {})).get("l")
    # args[0] is a &mut temp: find the local it borrows
    for d in b.defs().get(target_local, []):
        if d[0] == "stmt" and d[3]["rv"]["k"] == "ref":
            src = d[3]["rv"]["pl"]["l"]
            for r in b.defs().get(0, []):
                if r[0] == "stmt" and r[3]["rv"]["k"] == "use":
                    op = r[3]["rv"]["a"]
                    pl = op.get("m") or op.get("c")
                    if pl and pl["l"] == src:
                        return True
    return False


def ob_skip_chain(run, oid):
    """mark_skipped's backward scan: a slot hands its own ready parents on to the next window only if the slot itself is skip-certified"""
    prog = run.program("lib")
    o = run.ob(oid, "mark_skipped: the ready parents a slot already holds are passed on only when that same slot is skip-certified",
               "a slot holding a block (not skip-certified) cuts the skip chain: passing its older ready parents on lets a later window build on a block from before it, "
               "bypassing a notarized or finalized block", floor=2)
    b = prog.body(PRT + "::mark_skipped")
    if b is None:
        o.missing("ParentReadyTracker::mark_skipped")
        return
    rb = [c for c in b.calls() if c.name.endswith("ParentReadyState::ready_block_ids")]
    if not rb:
        o.missing("ParentReadyState::ready_block_ids in mark_skipped")
    for c, key in K.ordinal_keys(rb, lambda c: "mark_skipped|ready_block_ids"):
        st = b.operand_term(c.args[0])
        g = [a for a in G.guard_atoms(b, c.bb, prog) if a[0] == "bool" and a[2] is True and K.mentions_call(a[1][0], "is_skip_certified")]
        same = [a for a in g if _strip(K.peel(a[1][0])[2][0] if K.peel(a[1][0])[0] == "call" else None) == _strip(st)]
        o.check(bool(same), key + "|behind-skip-certified", "ready_block_ids(state(s)) is read only after is_skip_certified(state(s)) held for the same slot s", c.span,
                {"guards": G.atoms_show(g)})
    # and what is read is what is handed on
    ex = [c for c in b.calls() if c.name.rsplit("::", 1)[-1] == "extend" and K.mentions_call(b.operand_term(c.args[1]), "ready_block_ids")]
    o.check(len(ex) == 1, "mark_skipped|extends-candidates", "those parents are added to the candidate list", ex[0].span if ex else b.span)


def _strip(t):
    if isinstance(t, tuple):
        if t and t[0] == "call" and len(t) > 3:
            return ("call", t[1], tuple(_strip(a) for a in t[2]))
        return tuple(_strip(a) for a in t)
    return t
