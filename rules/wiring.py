"""Node wiring (consensus::Alpenglow::new / run): which component is given which channel end, key, identity and shared handle, and
that every task the protocol relies on is started. Composed into the properties whose behaviour rests on the respective edge.

The rule reads the terms of the constructor calls in Alpenglow::new: a channel end is identified by the `mpsc::channel` call
site it was destructured from (call block), a shared handle by the `Arc::new` call it is a clone of, keys / identities by the
parameter position. Nothing is matched by name of a local."""
import re

from engine import mir
from . import common as K
from . import detectors as D

A = K.A
NEW = A + "consensus::Alpenglow::new"
RUN = A + "consensus::Alpenglow::run"

_CHAN = re.compile(r"(^|::)mpsc::(bounded::|unbounded::)?(channel|unbounded_channel)$")


def _chan(term):
    """(call block, '0' | '1') when the term is (a clone of) one end of an mpsc channel created in this body"""
    t = K.peel(term)
    if isinstance(t, tuple) and t and t[0] == "field" and isinstance(t[1], tuple) and t[1][0] == "call" and _CHAN.search(t[1][1]):
        return (t[1][3], str(t[2]))
    return None


def _base(term):
    """the value a handle is a clone of (clone / deref wrappers removed); call terms keep their block, so two clones of one Arc agree"""
    return K.peel(term)


def _one(o, b, suffix, prog):
    cs = [c for c in b.calls() if c.name.endswith(suffix)]
    if len(cs) != 1:
        o.fail("%s|once" % suffix.split("::")[-2], "exactly one call of %s in Alpenglow::new (found %d)" % (suffix, len(cs)), b.span)
        return None
    c = cs[0]
    ex = D.extra_guards(prog, b, c.bb, [])
    o.check(not ex and b.always_followed_by(0, [c.bb]), "%s|unconditional" % suffix.split("::")[-2], "%s is constructed on every path, under no condition" % suffix, c.span)
    return c


def _args(c):
    return [c.body.operand_term(a) for a in c.args]


def _is_param(t, idx):
    t = K.peel(t)
    return isinstance(t, tuple) and t and t[0] == "param" and t[1] == idx


def _closure_in(term):
    for t in mir.walk(term):
        if isinstance(t, tuple) and t and t[0] == "closure":
            return t
    return None


def _spawns(b):
    return [c for c in b.calls() if c.name.endswith("task::spawn::spawn") or c.name.endswith("tokio::spawn")]


def _task_of(prog, clos_def):
    """the first crate call in the async block's body = the task's entry point; and the term of its receiver"""
    cb = prog.bodies.get(clos_def)
    if cb is None:
        return None, None, None
    for c in cb.calls():
        if c.name.startswith(A) and "{closure" not in c.name:
            return c.name, cb, c
    return None, cb, None


def ob_new(run, oid, why, parts=("channels", "identity", "handles", "tasks", "self")):
    prog = run.program("lib")
    o = run.ob(oid, "node wiring in Alpenglow::new: channel ends pair up, keys / identity by position, one shared blockstore / pool / "
               "epoch info, every task spawned unconditionally", why, floor=6)
    b = prog.bodies.get(NEW)
    if b is None:
        o.missing("consensus::Alpenglow::new")
        return o
    bs = _one(o, b, "blockstore::BlockstoreImpl::new", prog)
    pl = _one(o, b, "pool::PoolImpl::new", prog)
    rh = _one(o, b, "repair::RepairRequestHandler::new", prog)
    rp = _one(o, b, "repair::Repair::new", prog)
    vt = _one(o, b, "votor::Votor::new", prog)
    bp = _one(o, b, "block_producer::BlockProducer::new", prog)
    if not all((bs, pl, rh, rp, vt, bp)):
        return o
    bsa, pla, rha, rpa, vta, bpa = map(_args, (bs, pl, rh, rp, vt, bp))
    if not (len(bsa) >= 1 and len(pla) >= 3 and len(rha) >= 3 and len(rpa) >= 4 and len(vta) >= 5 and len(bpa) >= 7):
        o.fail("anchor-missing|constructor-arity", "a constructor called by Alpenglow::new changed its parameter list (rule cannot be evaluated; failing closed)", b.span)
        return o
    spawns = _spawns(b)
    tasks = {}
    for s in spawns:
        cl = _closure_in(b.operand_term(s.args[0]))
        if cl is None:
            continue
        name, cb, call = _task_of(prog, cl[1])
        if name:
            tasks[name.replace(A, "")] = (s, cl, cb, call)

    if "channels" in parts:
        x_tx, y_tx, z_tx = _chan(bsa[0]), _chan(pla[1]), _chan(pla[2])
        y_rx, x_rx = _chan(vta[2]), _chan(vta[3])
        o.check(x_tx is not None and x_rx is not None and x_tx[0] == x_rx[0] and (x_tx[1], x_rx[1]) == ("0", "1"), "channel|blockstore->votor",
                "the sender given to BlockstoreImpl::new and the receiver given to Votor::new (4th argument) are the two ends of one channel", bs.span,
                {"tx": mir.show(bsa[0])[:60], "rx": mir.show(vta[3])[:60]})
        o.check(y_tx is not None and y_rx is not None and y_tx[0] == y_rx[0] and (y_tx[1], y_rx[1]) == ("0", "1"), "channel|pool->votor",
                "the first sender given to PoolImpl::new and the receiver given to Votor::new (3rd argument) are the two ends of one channel", pl.span,
                {"tx": mir.show(pla[1])[:60], "rx": mir.show(vta[2])[:60]})
        t = tasks.get("repair::Repair::repair_loop")
        z_rx = None
        if t:
            s, cl, cb, call = t
            caps = dict(cl[2])
            # the receiver handed to repair_loop is a captured value; find which capture reaches argument 1
            at = cb.operand_term(call.args[1]) if len(call.args) > 1 else None
            for name, val in caps.items():
                if at is not None and K.mentions(at, lambda y, n=name: isinstance(y, tuple) and y and y[0] == "upvar" and n in y):
                    z_rx = _chan(val)
            if z_rx is None:
                rx = [_chan(v) for v in caps.values() if _chan(v)]
                z_rx = rx[0] if len(rx) == 1 else None
        o.check(z_tx is not None and z_rx is not None and z_tx[0] == z_rx[0] and (z_tx[1], z_rx[1]) == ("0", "1"), "channel|pool->repair",
                "the second sender given to PoolImpl::new and the receiver the spawned Repair::repair_loop is given are the two ends of one channel", pl.span,
                {"tx": mir.show(pla[2])[:60]})
        ends = [e[0] for e in (x_tx, y_tx, z_tx) if e]
        o.check(len(ends) == 3 and len(set(ends)) == 3, "channel|distinct", "three distinct channels (blockstore events, pool events, repair requests)", b.span)

    if "identity" in parts:
        o.check(K.mentions_call(vta[0], "ValidatorEpochInfo::own_id") and K.mentions(vta[0], lambda y: y[0] == "param" and y[1] == 7), "identity|votor-own-id",
                "Votor::new is given own_id() of the node's epoch info", vt.span, {"arg": mir.show(vta[0])[:80]})
        o.check(_is_param(vta[1], 2), "identity|voting-key", "Votor::new signs with the voting (aggregate-signature) key the node was given", vt.span, {"arg": mir.show(vta[1])[:60]})
        o.check(_is_param(bpa[0], 1), "identity|block-key", "BlockProducer::new signs shreds with the node's signature key", bp.span, {"arg": mir.show(bpa[0])[:60]})
        for nm, t, site in (("pool", pla[0], pl), ("repair-handler", rha[0], rh), ("repair", rpa[3], rp), ("block-producer", bpa[1], bp)):
            o.check(_is_param(t, 7), "identity|epoch-info|" + nm, "%s is given the node's own epoch info" % nm, site.span, {"arg": mir.show(t)[:60]})

    if "handles" in parts:
        bstore = None
        for nm, t in (("repair-handler", rha[1]), ("repair", rpa[0]), ("block-producer", bpa[4])):
            bt = _base(t)
            if bstore is None:
                bstore = bt
            o.check(bt == bstore and K.mentions_call(bt, "BlockstoreImpl::new"), "handle|blockstore|" + nm, "repair handler, repair and block producer share the one blockstore constructed here", b.span, {"arg": mir.show(bt)[:80]})
        pool = None
        for nm, t in (("repair", rpa[1]), ("block-producer", bpa[5])):
            pt = _base(t)
            if pool is None:
                pool = pt
            o.check(pt == pool and K.mentions_call(pt, "PoolImpl::new"), "handle|pool|" + nm, "repair and block producer share the one pool constructed here", b.span, {"arg": mir.show(pt)[:80]})
        a2a = _base(vta[4])
        o.check(K.mentions(a2a, lambda y: y[0] == "param" and y[1] == 3), "handle|all2all", "the Votor broadcasts on the node's all-to-all network", vt.span, {"arg": mir.show(a2a)[:60]})
        o.check(K.mentions(_base(bpa[2]), lambda y: y[0] == "param" and y[1] == 4), "handle|disseminator", "the block producer sends through the node's disseminator", bp.span)
        o.check(_is_param(bpa[3], 8), "handle|txs", "the block producer reads the node's transaction source", bp.span)
        if "self" in parts:
            aggs = [a for a in b.aggregates(adt=A + "consensus::Alpenglow")]
            if len(aggs) != 1:
                o.fail("self|once", "Alpenglow is assembled at exactly one place in new()", b.span)
            else:
                rv = aggs[0][1]
                f = dict(zip(rv["fields"], [b.operand_term(x) for x in rv["ops"]]))
                o.check(_base(f.get("blockstore")) == bstore, "self|blockstore", "the node keeps the same blockstore it gave to repair / block producer", aggs[0][2])
                o.check(_base(f.get("pool")) == pool, "self|pool", "the node keeps the same pool it gave to repair / block producer", aggs[0][2])
                o.check(_base(f.get("all2all")) == a2a, "self|all2all", "the node receives on the network the Votor broadcasts on", aggs[0][2])
                o.check(_base(f.get("disseminator")) == _base(bpa[2]), "self|disseminator", "the node receives / forwards on the disseminator the block producer sends through", aggs[0][2])
                o.check(_is_param(f.get("epoch_info"), 7), "self|epoch-info", "the node keeps its own epoch info", aggs[0][2])
                o.check(_base(f.get("cancel_token")) == _base(bpa[6]), "self|cancel-token", "one cancellation token for node and block producer", aggs[0][2])
                vh = f.get("votor_handle")
                t = tasks.get("consensus::votor::Votor::voting_loop")
                o.check(t is not None and isinstance(vh, tuple) and vh[0] == "call" and vh[3] == t[0].bb, "self|votor-handle", "votor_handle is the join handle of the spawned voting loop", aggs[0][2])

    if "tasks" in parts:
        want = {
            "repair::RepairRequestHandler::run": ("repair::RepairRequestHandler::new", rh),
            "repair::Repair::repair_loop": ("repair::Repair::new", rp),
            "consensus::votor::Votor::voting_loop": ("consensus::votor::Votor::new", vt),
        }
        for tname, (ctor, cc) in want.items():
            t = tasks.get(tname)
            if not t:
                o.fail("task|%s|spawned" % tname.split("::")[-1], "Alpenglow::new spawns a task running %s" % tname, b.span)
                continue
            s, cl, cb, call = t
            ex = D.extra_guards(prog, b, s.bb, [])
            o.check(not ex and b.always_followed_by(0, [s.bb]), "task|%s|unconditional" % tname.split("::")[-1], "the task running %s is spawned on every path" % tname, s.span)
            caps = [v for _, v in cl[2]]
            o.check(any(isinstance(v, tuple) and v[0] == "call" and v[3] == cc.bb for v in caps), "task|%s|object" % tname.split("::")[-1],
                    "the task runs the %s constructed here" % ctor.split("::")[-2], s.span)
            o.check(cb.always_followed_by(0, [call.bb]), "task|%s|entered" % tname.split("::")[-1], "the async block calls %s first, on every path" % tname, call.span)
    return o


def ob_run(run, oid, why):
    """Alpenglow::run starts message loop, standstill loop and block production on the same node, unconditionally"""
    prog = run.program("lib")
    o = run.ob(oid, "Alpenglow::run spawns message_loop, standstill_loop and block_production_loop of this node, unconditionally", why, floor=6)
    fam = [x for x in prog.family(RUN) if x.is_closure and x.defpath.endswith("run::{closure#0}")]
    if not fam:
        o.missing("consensus::Alpenglow::run")
        return o
    b = fam[0]
    tasks = {}
    for s in _spawns(b):
        cl = _closure_in(b.operand_term(s.args[0]))
        if cl is None:
            continue
        name, cb, call = _task_of(prog, cl[1])
        if name:
            tasks[name.replace(A, "")] = (s, cl, cb, call)
    for tname in ("consensus::Alpenglow::message_loop", "consensus::Alpenglow::standstill_loop", "consensus::block_producer::BlockProducer::block_production_loop"):
        short = tname.split("::")[-1]
        t = tasks.get(tname)
        if not t:
            o.fail("task|%s|spawned" % short, "Alpenglow::run spawns a task running %s" % tname, b.span)
            continue
        s, cl, cb, call = t
        ex = D.extra_guards(prog, b, s.bb, [])
        o.check(not ex and b.always_followed_by(0, [s.bb]), "task|%s|unconditional" % short, "the task running %s is spawned on every path, before the node waits for cancellation" % tname, s.span)
        caps = [v for _, v in cl[2]]
        if short == "block_production_loop":
            okc = any(K.mentions_field(v, "block_producer") for v in caps)
        else:
            okc = any(K.mentions_call(v, "Arc::new") and K.mentions(v, lambda y: isinstance(y, tuple) and y and y[0] in ("upvar", "param", "env", "field")) for v in caps)
        o.check(okc, "task|%s|object" % short, "the task runs on this node (its Arc / its block producer)", s.span, {"captures": [mir.show(v)[:60] for v in caps]})
        o.check(cb.always_followed_by(0, [call.bb]), "task|%s|entered" % short, "the async block calls %s first, on every path" % tname, call.span)
    return o


# ------------------------------------------------------------------------------------ delivery over the internal channels
CHANNELS = {
    "blockstore->votor": ("consensus::blockstore::BlockstoreImpl", "votor_channel", "consensus::blockstore::BlockstoreImpl::send_blockstore_event"),
    "pool->votor": ("consensus::pool::PoolImpl", "votor_event_channel", "consensus::pool::PoolImpl::send_votor_event"),
    "pool->repair": ("consensus::pool::PoolImpl", "repair_channel", "consensus::pool::PoolImpl::send_repair"),
}


def ob_event_delivery(run, oid, which, why):
    """events handed to another task are delivered, not dropped: the only operation on the channel is the waiting `send`, it is
    reached on every path of the sending helper, and a failure is fatal (expect / unwrap / `?`), never ignored"""
    prog = run.program("lib")
    o = run.ob(oid, "internal events are delivered with the waiting send(), unconditionally, and a failed send is never ignored", why, floor=3 * len(which))
    for name in which:
        owner, field, helper = CHANNELS[name]
        sites = []
        for d, b in prog.bodies.items():
            if b.generated or "::tests::" in d or not d.startswith((A, "<" + A)):
                continue
            for c in b.calls():
                if not c.args or "{closure" in c.name:
                    continue
                t = b.operand_term(c.args[0])
                if K.is_field(t, field, owner.rsplit("::", 1)[-1]) or (isinstance(K.peel(t), tuple) and K.peel(t)[0] == "field" and K.peel(t)[2] == field and K.mentions(t, lambda y: isinstance(y, tuple) and y and y[0] in ("param", "upvar", "env"))):
                    if c.name.endswith(("::clone", "::deref", "::borrow", "::as_ref", "fmt")):
                        continue
                    sites.append((d, b, c))
        if not sites:
            o.missing("send on %s.%s" % (owner, field))
            continue
        for d, b, c in sites:
            root = K.fshort(d.split("::{closure")[0])
            last = mir.strip_generics(c.name).rsplit("::", 1)[-1]
            is_send = last == "send" and "mpsc" in c.name
            o.check(is_send, "%s|%s|waiting-send" % (name, root), "%s.%s is only used with the waiting Sender::send (an event is never dropped because the queue is full)" % (owner.rsplit("::", 1)[-1], field), c.span,
                    {"call": c.name[-60:]})
            if not is_send:
                continue
            ex = D.extra_guards(prog, b, c.bb, [])
            if root == helper:
                o.check(not ex and b.always_followed_by(0, [c.bb]), "%s|%s|unconditional" % (name, root), "every call of the helper sends", c.span)
            fatal = False
            for c2 in b.calls():
                l2 = mir.strip_generics(c2.name).rsplit("::", 1)[-1]
                if l2 in ("expect", "unwrap", "branch") and c2.args:
                    t2 = b.operand_term(c2.args[0])
                    if K.mentions(t2, lambda y: isinstance(y, tuple) and y and y[0] == "call" and y[3] == c.bb and y[1] == (mir.strip_generics(c.resolved) if c.resolved and c.ikind == "Item" else mir.strip_generics(c.callee))):
                        fatal = b.always_followed_by(c.bb, [c2.bb])
            if not fatal:
                # `if let Err(e) = ch.send(x).await { panic!(..) }`: the Err arm of a match on the send's outcome can only panic
                cname = mir.strip_generics(c.resolved) if c.resolved and c.ikind == "Item" else mir.strip_generics(c.callee)
                for bl in b.blocks:
                    t = bl["term"]
                    if t["k"] != "switch":
                        continue
                    d = b.operand_term(t["d"])
                    if not (isinstance(d, tuple) and d and d[0] == "discr" and K.mentions(d, lambda y: isinstance(y, tuple) and y and y[0] == "call" and y[3] == c.bb and y[1] == cname)):
                        continue
                    if "Ready" not in mir.show(d):
                        continue        # the switch on Poll::{Ready, Pending} of the await itself
                    arms = dict((str(v), tb) for (v, tb) in t["arms"])
                    err = arms.get("1", t.get("else") if "0" in arms else None)
                    if err is not None and b.only_panics_from(err) and b.always_followed_by(c.bb, [bl["id"]]):
                        fatal = True
            o.check(fatal, "%s|%s|failure-fatal" % (name, root), "a failed send is fatal: its outcome always reaches expect / unwrap / `?`, or the Err arm can only panic", c.span)
    return o


# ------------------------------------------------------------------------------------ cancellation safety of receive()
def ob_receive_cancel_safe(run, oid, why):
    """UdpNetwork::receive is polled as one branch of select! loops (message_loop, repair loops): when another branch wins, the receive future is dropped.
    Nothing may be lost then: once datagrams were drained from the socket there is no suspension point before they are stored / returned."""
    prog = run.program("lib")
    o = run.ob(oid, "UdpNetwork::receive has no suspension point (.await) between draining a batch from the socket and storing / returning it", why, floor=2)
    fam = [b for d, b in prog.bodies.items() if d.startswith("<" + A + "network::udp::UdpNetwork") and d.endswith("::receive::{closure#0}")]
    if not fam:
        o.missing("UdpNetwork::receive")
        return o
    b = fam[0]
    pops = [c for c in b.calls() if c.name.endswith("::pop_front") and K.mentions_call(b.operand_term(c.args[0]), "recv_batch")]
    if not pops:
        o.missing("the drained batch's pop_front in UdpNetwork::receive")
        return o
    for c in pops:
        sw = b.blocks[c.target]["term"] if c.target is not None else None
        some = None
        if sw and sw["k"] == "switch":
            arms = dict((str(v), tb) for (v, tb) in sw["arms"])
            some = arms.get("1")
        if some is None:
            o.fail("receive|batch|shape", "the result of the batch's pop_front is matched (Some / None)", c.span)
            continue
        reach = b.reachable(some)
        ys = sorted(bb for bb in reach if b.blocks[bb]["term"]["k"] == "yield")
        o.check(not ys, "receive|batch|no-await-while-holding", "no yield is reachable after a datagram was taken out of the drained batch (it is stashed and returned synchronously)", c.span, {"yield blocks": ys[:4]})
        app = [x for x in b.calls() if x.name.endswith("::append") and x.bb in reach]
        o.check(bool(app), "receive|batch|rest-stashed", "the rest of the batch is appended to the queue on that path", c.span)
    return o


# ------------------------------------------------------------------------------------ fair select!
FAIR_SELECTS = {
    "consensus::Alpenglow::message_loop": 1,
    "consensus::votor::Votor::voting_loop": 1,
    "repair::Repair::repair_loop": 1,
    "consensus::block_producer::produce_slice_payload": 1,
    "consensus::block_producer::BlockProducer::produce_block_parent_not_ready": 1,
    "consensus::block_producer::wait_for_first_slot": 1,
}


def ob_select_fair(run, oid, fns, why):
    """the task loops multiplex several sources with tokio::select!: its default (random starting branch) keeps a source that is always ready - a flooded
    socket - from starving the timers and the internal channels; `biased;` polls in source order"""
    prog = run.program("lib")
    o = run.ob(oid, "the select! loops of the node's tasks poll their branches fairly (no `biased;`)", why, floor=len(fns))
    cnt = {}
    for d, b in prog.bodies.items():
        if b.generated or "::tests::" in d or not d.startswith((A, "<" + A)):
            continue
        n = sum(1 for c in b.calls() if c.name.endswith("thread_rng_n"))
        if n:
            root = K.fshort(d.split("::{closure")[0])
            cnt[root] = cnt.get(root, 0) + n
    for fn in fns:
        w = FAIR_SELECTS[fn]
        if prog.body(A + fn) is None and not prog.family(A + fn):
            o.missing(fn)
            continue
        o.check(cnt.get(fn, 0) >= w, "%s|fair" % fn, "%s: %d select! with a random starting branch (reviewed: %d)" % (fn, cnt.get(fn, 0), w), "",
                fail_what="%s: a select! is `biased;` now (%d fair select! found, reviewed %d): while its first branch stays ready the others - timeouts, internal channels - are never polled" % (
                    fn, cnt.get(fn, 0), w))
    return o
