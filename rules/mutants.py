def run_for(run, prop):
    pass
