"""Thorough tier: mutant self-tests. Every stored breaking change (sub-agent seeded changes under seeded/, hand-written
diffs under mutants/) that belongs to the property is applied to a scratch copy of /repo (outside /repo and /verif,
removed afterwards); the property's own quick check must report a VIOLATION on it. A diff that no longer applies is
'skipped'. Results are evidence about the checker; a missed mutant makes the run exit 2 (checker broken), never 1."""
import json
import os
import shutil
import subprocess
import tempfile

from engine import facts

VERIF = facts.VERIF


def _mutants_for(prop):
    out = []
    for base in ("seeded", "mutants"):
        d = os.path.join(VERIF, base)
        if not os.path.isdir(d):
            continue
        for name in sorted(os.listdir(d)):
            mp = os.path.join(d, name, "meta.json")
            pp = os.path.join(d, name, "patch.diff")
            if not (os.path.exists(mp) and os.path.exists(pp)):
                continue
            meta = json.load(open(mp))
            props = meta.get("caught_by") or [meta.get("property")]
            if prop in props:
                out.append(("%s/%s" % (base, name), pp, meta))
    return out


def run_one(prop, patch):
    """apply `patch` to a scratch copy of the repo's sources, run the quick check of `prop` on it; (status, [violated instance keys])"""
    import re
    repo = os.environ.get("AGL_REPO", "/repo")
    scratch_root = os.path.join(facts.SCRATCH, "mutants")
    os.makedirs(scratch_root, exist_ok=True)
    work = tempfile.mkdtemp(prefix="m-", dir=scratch_root)
    try:
        for item in ("src", "Cargo.toml", "Cargo.lock", "build.rs", "benches", "data"):
            sp = os.path.join(repo, item)
            if os.path.isdir(sp) and item in ("src", "benches"):
                shutil.copytree(sp, os.path.join(work, item))
            elif os.path.isfile(sp):
                shutil.copy2(sp, os.path.join(work, item))
        r = subprocess.run(["git", "apply", "--unsafe-paths", "--directory=" + work, patch], cwd="/", stdout=subprocess.PIPE, stderr=subprocess.STDOUT, text=True)
        if r.returncode != 0:
            r = subprocess.run(["patch", "-p1", "-s", "-d", work, "-i", patch], stdout=subprocess.PIPE, stderr=subprocess.STDOUT, text=True)
        if r.returncode != 0:
            return "skipped", []
        ev = os.path.join(work, "evidence")
        env = dict(os.environ, AGL_REPO=work, AGL_EVIDENCE_DIR=ev, VERIF_TIER="quick")
        c = subprocess.run([os.path.join(VERIF, "bin", "check"), prop], env=env, stdout=subprocess.PIPE, stderr=subprocess.STDOUT, text=True)
        keys = [m.group(1) for m in (re.match(r"^  (O[0-9a-z.]+\|[^:]*(?:::[^:]+)*?): ", l) for l in c.stdout.splitlines()) if m]
        if not keys:
            keys = [l.strip().split(": ")[0] for l in c.stdout.splitlines() if re.match(r"^  O[0-9a-z.]+\|", l)]
        return ("caught" if c.returncode == 1 else ("checker-broken" if c.returncode == 2 else "MISSED")), keys
    finally:
        shutil.rmtree(work, ignore_errors=True)


def _benign():
    d = os.path.join(VERIF, "benign")
    out = []
    if os.path.isdir(d):
        for name in sorted(os.listdir(d)):
            pp = os.path.join(d, name, "patch.diff")
            if os.path.exists(pp):
                out.append(("benign/%s" % name, pp))
    return out


def run_for(run, prop):
    # behaviour-preserving refactorings: the check must stay silent on every one of them
    bres = []
    for (name, patch) in _benign():
        status, keys = run_one(prop, patch)
        silent = status in ("MISSED", "skipped")     # rc 0 = no violation reported
        run.selftest("benign/" + name.split("/", 1)[1] + "/silent", silent, True)
        bres.append({"refactoring": name, "status": "silent" if silent else "FALSE-ALARM", "reported": keys[:3]})
    if bres:
        run.notes.append("benign refactorings: " + json.dumps(bres))
    ms = _mutants_for(prop)
    if not ms:
        return
    results = []
    for (name, patch, meta) in ms:
        status, keys = run_one(prop, patch)
        results.append({"mutant": name, "status": status, "reported": [k[:160] for k in keys[:4]], "what": meta.get("summary", "")[:160]})
    for r in results:
        run.selftest("mutant/" + r["mutant"], r["status"] in ("caught", "skipped"), True)
    run.notes.append("mutants: " + json.dumps(results))
