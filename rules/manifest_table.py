"""Per-property manifest text. A property is listed under `checks` only when rules/<ID>.py exists."""

TB = ("Trusted base: rustc nightly-1.97 MIR construction and the driver's JSON dump; intraprocedural dominance on mir_built "
      "(guards in callers are not seen); over-approximate trait fan-out; third-party crates (blst, reed-solomon-simd, sha2, "
      "wincode + derive, tokio, rand). Only the named structural obligations are decided, not the behavioural statement.")


def _e(text, ref, technique, note=TB):
    return {"text": text, "design_ref": ref, "technique": technique, "note": note}


CHECKS = {
    "C01": _e("Structural necessary conditions of finalization agreement: exact 1/5..4/5 thresholds compared in u128, per-type quorum predicates at "
              "creation and validation, certificate-driven finality tracker, the Votor's vote guards, vote-admission filters, fallback-event predicates. "
              "Agreement itself (all Byzantine behaviours x schedules) is a model-checking question and is not decided."
              " Also composes the parent-ready obligations of C07 and the finality tracker's no-downgrade, implicit-finalization-source and status-reporting obligations of C08 (one chain).", "DESIGN.md §3 C01",
              "const-eval facts + guard dominance + who-may-call over MIR"),
    "C03": _e("Store-before-aggregate, per-type threshold guards over the right stake counters, at-most-once guards, aggregation inputs and "
              "hash keys, bitmask/stake provenance in try_new, created=>stored=>announced=>broadcast must-pass-through. BLS validity and set "
              "equality over histories are not decided."
              " Composes C04 (what is counted is decided by the admission filters); certificate creation sites carry the exact guard set ('as soon as'). Composes C19 (every vote and certificate the pool counts came through the one bounded decoding door); NotarFallback duplicates are decided per block. Also composes the exact thresholds of C01 and the signature table of C09; effectful loops run to exhaustion.", "DESIGN.md §3 C03", "dominance / must-pass-through / provenance rules over MIR"),
    "C04": _e("Decision tables of check_slashable_offence and should_ignore_vote extracted by CFG path enumeration and compared with the table "
              "written from the property text (symmetry in arrival order checked on the extracted table); filter order in Pool::add_vote; "
              "writers of the running totals; signer-index provenance."
              " Every vote handed to SlotState::add_vote is recorded (one store per kind, selected by the kind only, on every path). Composes C08's discard boundary and admission obligations (per-slot records live as long as votes are admitted); structural (derived) equality of votes, hashes and indices.", "DESIGN.md §3 C04", "bounded CFG path enumeration -> decision table comparison"),
    "C05": _e("Every construction site of every vote kind in consensus::votor is dominated by the guards the voting rules require, followed by the "
              "flag updates, signed with the node's own key; flag writer sets; stale events dropped first. Interleavings across Pool x Votor are "
              "not decided."
              " should_ignore_pool_event as a truth table over (pruned, retired) per event kind; composes the safe-to-notar / safe-to-skip predicates and stake bookkeeping of C06. Parent certification is decided per block hash and the waiting registry is keyed by block id (composed from C06); effectful loops run to exhaustion.", "DESIGN.md §3 C05", "edge-dominance guards with polarity, always-followed-by, who-may-write over MIR"),
    "C06": _e("check_safe_to_notar decision structure, trigger completeness (every certificate kind accepted as parent certification re-evaluates a "
              "waiting child; several children per parent), safe-to-skip predicate sibling agreement, at-most-once flags, stake bookkeeping."
              " Exact guard sets at every event site; every comparison with a pruning watermark has the form slot < watermark. The re-evaluation on a skip vote / the own vote walks the whole pending_safe_to_notar set with no condition but already-sent. Parent certification per block hash; waiting registry keyed by block id; loops over waiting children / pending blocks run to exhaustion.",
              "DESIGN.md §3 C06", "guard dominance, tables-agree and call-graph trigger rules over MIR"),
    "C07": _e("announce<=>record pairing inside the tracker, window-start and skip-certified guards, root guard before state creation, is_ready "
              "writers, certificate->tracker wiring, every tracker result announced."
              " Scan stops at the first slot that is not skip-certified; a slot's own ready parents are passed on only behind is_skip_certified of that slot; watermark comparison form; composes the FinalizationEvent reporting rule of C08. Composes C08.event_flow (every FinalizationEvent reaches handle_finalization) and C03 at-most-once (a certificate is handed to the tracker once). The tracker handles a FinalizationEvent before anything is pruned; effectful loops run to exhaustion.", "DESIGN.md §3 C07", "dominance, pairing and wiring rules over MIR"),
    "C08": _e("No decided status left downgraded, direct finalization only from the right certificate pair, monotone watermarks written by their "
              "owners, discard boundaries are the watermark, admission before state creation, event flow into parent-ready + prune, answers from "
              "certificates, prune covers every per-slot container."
              " Watermark comparison form (slot < watermark) everywhere; a slot displaced from an undecided status is always reported in the FinalizationEvent and a decided one never again; implicit finalization starts only from the block recorded as finalized; prune advances exactly over {Finalized, ImplicitlyFinalized, ImplicitlySkipped}. Direct finalization (mark_fast_finalized / mark_notarized / mark_finalized) is reported exactly for the displaced statuses that justify it (path classification by the displaced value, constants tracked per path). Tracker-before-prune order in handle_finalization; structural equality of statuses and block ids; effectful loops run to exhaustion.", "DESIGN.md §3 C08", "must-pass-through on displaced-value arms, provenance, field coverage over MIR/ADTs"),
    "C09": _e("Admission typing (Validated* constructed only in try_new; compile-fail witnesses), range check before indexing and signature check "
              "under the same signer's key, kind binding tables (new/payload/check_sig), threshold recomputation from bitmasks with the declared "
              "stake in nobody's read set, signature/payload table for all 7 aggregate halves, verify_bytes guards, no unreviewed panic under try_new, "
              "validation before the pool lock. Cryptographic soundness of BLS is not decided. Composes the threshold constants and the exact u128 comparison of C01. Composes C19 (bounded decoders incl. read_bitvec).", "DESIGN.md §3 C09",
              "who-may-construct, guard dominance, tables-agree, who-may-read, panic-site closure"),
    "C10": _e("Reviewed panic-site closure from every network-facing entry point (each site auto-discharged by a typed idiom or listed with a "
              "reason; unlisted site => violation), sanitising of client transactions, validate-then-use typing, lock-order graph, error discipline."
              " Space reservation covers the encoded size of the largest admitted transaction; composes C11's validated-shard-set and coder-reset obligations and C14's create_proof index guard (the invariants the reviewed expect()/assert sites rely on). The count prefix of a slice payload is incremented exactly for the transactions that are serialised; composes C05 stale-event drops. Restored-size bound in Reed-Solomon deshred, repair request identifier = hash of the whole request (composed from C11 / C14); effectful loops run to exhaustion.",
              "DESIGN.md §3 C10", "call-graph closure + panic-site classification + lock live-range analysis"),
    "C11": _e("Shredder constants and per-impl arithmetic identities (const-eval), NotEnoughShreds/TooMuchData guards dominating coder calls, "
              "shreds untouched on error (no fallible op after the in-place fill), integrity gates on the Ok path."
              " Padding arithmetic of ReedSolomonCoder::shred evaluated for every payload length 0..=MAX_DATA_PER_SLICE; ValidatedShreds::try_new admits exactly even non-zero equal shard sizes with kinds matching positions; SlicePayload::try_from admits every encodable length; coder reset unconditional. The decoded tail (padding marker scan) is bounded by the data length and strips exactly one marker. Every shard appended to the reassembled payload is behind the size bound for that payload; no new state-carrying field in the coders; no lossy casts.", "DESIGN.md §3 C11",
              "const facts + dominance/post-dominance over MIR"),
    "C12": _e("ValidatedShred::try_new verdict structure, SliceCommitment covers every SliceHeader field, key provenance leader(slot), cache "
              "writers, equivocation bookkeeping, consumed-subset-of-authenticated (data/coding tag)."
              " A shred is stored only if its whole commitment equals the cached one or it fills a vacant cache entry; the 'cached commitment' argument of try_new is None or the blockstore's cache entry for the shred's own (slot, slice). Composes C15 (ordered labelled pair hash, index domain, structural Hash equality).", "DESIGN.md §3 C12",
              "field coverage, provenance, who-may-write, consumed<=authenticated field-set rule"),
    "C13": _e("Once-only flags, malformed-content gates before `completed` (incl. parent slot < block slot), hash provenance, leader fast path "
              "shares the reconstruction, Pool::add_block argument provenance."
              " 'Switched to the same parent' compares the whole block id; NoAction only for NotEnoughShreds, every other decoding error is an Error; last-slice marker prunes slices beyond it. Composes the block lookup of C14 (disseminated block only on equal hash, repaired blocks otherwise). Effectful loops run to exhaustion.", "DESIGN.md §3 C13", "guard dominance, who-may-write, provenance over MIR"),
    "C14": _e("Store only after request match + Merkle proof under the requested hash, re-request pairing after removal of the outstanding entry, "
              "identifier = content hash behind a rejecting comparison, responder table, no unreviewed panic under handle_response/answer_request."
              " Every send / store / table update of handle_response is behind the outstanding-request test for the response's own request hash; create_double_merkle_proof only after get_slice_root answered for the same block and index. Block lookup decision table (disseminated only on equal hash, otherwise repaired[hash], None only for an unknown slot); composes C15 (index domain and last-leaf rule of the proofs the requester relies on). Request identifier hashes the whole request; repaired shreds reach repaired[hash] unconditionally; effectful loops run to exhaustion.",
              "DESIGN.md §3 C14", "guard dominance, pairing (remove => re-issue on every non-storing exit), provenance"),
    "C15": _e("Index exhaustion in both proof walks (accepted index domain evaluated to be exactly index < 2^len on a finite grid), length bound dominating EMPTY_ROOTS indexing, side/label table, last-leaf rule and the "
              "EMPTY_ROOTS recurrence recomputed with hashlib from const-evaluated bytes, callers pass the index they act on."
              " hash_leaf / hash_pair have a single, unconditional, labelled result; parity tests recognised in any spelling. Hash / root equality stays derived (or field-wise); no integer cast below 32 bits of an unbounded value; no new state-carrying field.", "DESIGN.md §3 C15",
              "dependence of verdict on residual index, const recomputation, guard dominance"),
    "C16": _e("No ambient nondeterminism (thread RNG, clocks, env, hash-order iteration) reachable from relay/tree computation or sampler "
              "constructors, seed provenance (slot, slice / slot, shred), cache key = seed inputs, forwarding unconditional on the receive path."
              " RNGs used while constructing a sampler are seeded from constants only; Rotor's recipient filter excludes exactly the sampled relay and the slot's leader (truth table + provenance); Turbine forwards to every child of the tree of (slot, index_in_slot). TurbineTree children: one definition, computed unconditionally, offset own_pos*fanout+1, fanout children. A changed fanout comes with a fresh tree cache; structural equality / order of cache keys; effectful loops run to exhaustion.",
              "DESIGN.md §3 C16", "effect sets closed over the call graph + provenance"),
    "C17": _e("Determinism of all sampling strategies and constructors (same effect rule), reset on every path of the decaying sampler, reviewed "
              "panic sites of constructors/samplers, committee indexed by ShredIndex with TOTAL_SHREDS seats, FA1 phase 1 (floor(f*k) required seats: formula "
              "shape, unconditional, sibling constructors agree, always emitted). Numerical guarantees over all distributions/seeds are not decided."
              " Fait-Accompli phase 1 in all three constructors (seats = floor(raw stake fraction * k), unconditional, siblings agree, weight removed = seats*total/k); decaying sampler: accepted exactly when random >= count/max_samples, counter incremented on exactly that path under one lock. Sampler constructors keep the validator list they were given (index == id); the FA2 fallback is drawn only after the medium-node loop and reads the committee filled so far. No sampler field holds interior-mutable state behind Arc/Rc; no lossy casts; no new state-carrying field.",
              "DESIGN.md §3 C17, §8.3", "effect sets, must-pass-through, reviewed panic sites, sibling cross-check + exact guard set"),
    "C18": _e("No unreviewed panic site reachable from recover_from_standstill, bundle ranges, field coverage of get_certs/get_own_votes, Votor "
              "forwards unconditionally, trigger guard in standstill_loop."
              " get_certs / get_own_votes include every held item unconditionally and walk the whole range; should_ignore_pool_event never ignores Standstill (truth table). Composes C07 (the receiver computes its ready parents with the parent-ready tracker). Votor::broadcast sends whatever it is given (exact empty guard set).", "DESIGN.md §3 C18", "panic-site closure, provenance, ADT field coverage, guard dominance"),
    "C19": _e("Single exact decoding door with MTU-capped preallocation, SchemaRead/SchemaWrite symmetry over the wire type graph, hand-written "
              "impl pairs agree (ordered primitive sequence), bounded indices validate on read, worst-case encoded size of every wire root <= MTU. Derive-generated impls are scanned for explicit wincode length / container schema overrides (none reviewed); composes the slice-payload transaction count rule of C10. Slice-content decoders use deserialize_exact with a limit >= MAX_DATA_PER_SLICE; structural equality of wire types.",
              "DESIGN.md §3 C19", "type-graph walk + max-encoded-size calculator + reader/writer sequence agreement"),
    "C20": _e("Fork isolation by typing (no unsafe, Freeze nodes, only Arc::make_mut yields &mut into shared nodes, no &mut/Arc<Node> escapes; "
              "compile-fail witness), trie walks decide hits by whole-key equality and navigate by chunk_at(key, depth), lane-wise wrapping commitment algebra, "
              "engine determinism (effect rule, ordered map, seed table)."
              " Trie walks decide a hit by one whole-key equality and navigate by chunk_at(key, depth) (formula checked by value); bitmap/children index agreement; len bookkeeping; LtHash::observe removes/adds exactly when that side is Some; Known before Pending lookup; GENESIS only as the alternative of the parent's own hash. chunk_at evaluated on every path for all depths against its bit-string definition; finalize keeps every entry with slot >= finalized slot; structural impls; no lossy casts.",
              "DESIGN.md §3 C20", "type facts (Freeze, unsafe), who-may-call, effect sets"),
}

NOT_APPLICABLE = {
    "C02": "liveness after GST quantifies over real-time delays, timer firings and message schedules; no sound static argument in reach bounds them, "
           "and its structural prerequisites (re-broadcast, timeouts, ParentReady emission) are owned by C03/C05/C07/C18 - claiming C02 through them would be a proxy",
}

NOTES = ("Technique family: static analysis only. Nothing registered here executes alpenglow code; `cargo +nightly check` type-checks /repo while "
         "the driver dumps MIR facts. Exit codes: 0 held (KNOWN-FINDING lines allowed), 1 VIOLATION, 2 checker broken. Facts are cached per tree hash "
         "under ${AGL_SCRATCH:-/var/tmp/agl-verif}; everything there is re-creatable. See DESIGN.md.")
