"""C14 — repair stores only data matching the requested hash and cannot be derailed (structural part)."""
from engine import guards as G
from engine import mir
from . import common as K
from . import detectors as D
from .common import A, fshort

EXPLANATION = (
    "Decides O14.1-O14.7: a slice root is recorded only behind request match, matching response/request variants and a "
    "Merkle proof (last-leaf proof for the slice count) whose leaf is the stored root, whose index is the stored slice index "
    "and whose root is the block hash of the echoed, hash-matched request; a shred is stored only behind header == "
    "request indices, derived root == proven root of that slice, last-slice marker == proven slice count, leader signature, "
    "under the requested hash; an outstanding request is removed only where the answered data is accepted (pairing rule on "
    "remove => store), NACKs and timeouts re-issue; responder table (request kind -> response kind from the blockstore for the "
    "same ids, None => Nack, unknown-sender guard before indexing); every shred a node stores (and hence serves) carries "
    "signature bytes that were verified. Does NOT decide eventual completion under arbitrary interleavings."
)

R = A + "repair::"
REP = R + "Repair"
RRH = R + "RepairRequestHandler"
VS = A + "shredder::validated_shred::ValidatedShred"


def resp_field(term, variant, idx):
    """term is `response as <variant>.<idx>` (possibly cloned)"""
    t = K.peel(term)
    return isinstance(t, tuple) and t[0] == "field" and t[2] == str(idx) and isinstance(t[1], tuple) and t[1][0] == "variant" and t[1][2] == variant


def ob_request_identifier(run, oid):
    """RepairRequestType::hash keys `outstanding_requests`: a response is accepted iff the hash of the request it names is outstanding"""
    prog = run.program("lib")
    o = run.ob(oid, "the request identifier is the hash of the serialisation of the WHOLE request (kind tag and every field), not of selected fields",
               "an identifier that leaves out the kind makes LastSliceRoot(b), SliceRoot(b, 0) and Shred(b, 0, 0) the same request: a response of another kind passes the "
               "outstanding-request test and reaches code that relies on the request having been of that kind (unreachable!())", floor=2)
    b = prog.body(A + "repair::RepairRequestType::hash")
    if b is None:
        o.missing("RepairRequestType::hash")
        return
    # no per-variant field selection: the body does not inspect self's discriminant / payload
    inspects = [bl["id"] for bl in b.blocks if bl["id"] in b.reach() and bl["term"]["k"] == "switch" and K.mentions(b.operand_term(bl["term"]["d"]), lambda x: x[0] == "param" and x[1] == 1)]
    reads = [(ow, n) for (_bb, ow, n, _sp) in b.field_reads() if ow.startswith(A + "repair::RepairRequestType")]
    o.check(not inspects and not reads, "RepairRequestType::hash|whole-value", "the digest is not assembled from selected fields of the request", b.span, {"field_reads": sorted(set(reads))[:4]})
    # the digest input is a schema serialisation of a value built from the whole of self
    ret = [b.rvalue_term(st["rv"]) for bl in b.blocks for st in bl["stmts"] if st["k"] == "assign" and st["dst"]["l"] == 0 and not st["dst"]["p"]]
    ret += [b.call_term(bl["id"], bl["term"]) for bl in b.blocks if bl["term"]["k"] == "call" and bl["term"]["dst"]["l"] == 0 and not bl["term"]["dst"]["p"] and bl["id"] in b.reach()]
    ok = False
    for t in ret:
        pv = b.provenance(t, depth=10)
        ser = any(x.endswith("::serialize") or "wincode::serialize" in x or x.endswith("serialize_into") for x in pv["calls"])
        hashed = any(x.rsplit("::", 1)[-1] in ("hash", "hash_all") for x in pv["calls"])
        if ser and hashed and "self" in pv["params"]:
            ok = True
    o.check(ok, "RepairRequestType::hash|serialised", "digest = hash(serialize(value containing the whole request))", b.span)


def ob_repair_store_unconditional(run, oid):
    prog = run.program("lib")
    o = run.ob(oid, "a repaired shred is handed to the block it was requested for whatever happened in dissemination: no condition (leader flagged, slot state, ..) stands between "
                    "Blockstore::add_shred_from_repair and BlockData::add_shred of repaired[hash]",
               "repair exists for exactly the slots in which dissemination went wrong (equivocating leader): refusing repaired shreds there means the notarized block is never obtained, "
               "although every peer answers correctly", floor=3)
    SBD = A + "consensus::blockstore::slot_block_data::SlotBlockData"
    BD = A + "consensus::blockstore::slot_block_data::BlockData"
    b = prog.body(SBD + "::add_shred_from_repair")
    if b is None:
        o.missing("SlotBlockData::add_shred_from_repair")
    else:
        cs = b.calls_to(BD + "::add_shred")
        o.check(len(cs) == 1 and b.always_followed_by(0, [c.bb for c in cs]), "SlotBlockData::add_shred_from_repair|always-stores", "every call ends in BlockData::add_shred", b.span)
        for c in cs:
            extra = D.extra_guards(prog, b, c.bb, [])
            o.check(not extra, "SlotBlockData::add_shred_from_repair|no-condition", "no condition guards the hand-over", c.span, {"extra": G.atoms_show(extra)})
            recv = b.provenance(b.operand_term(c.args[0]))
            o.check((SBD, "repaired") in recv["fields"] and (SBD, "disseminated") not in recv["fields"], "SlotBlockData::add_shred_from_repair|into-repaired", "the receiving block is repaired[hash]", c.span)
    for x in prog.family("<" + A + "consensus::blockstore::BlockstoreImpl as " + A + "consensus::blockstore::Blockstore>::add_shred_from_repair"):
        if not x.is_closure:
            continue
        cs = x.calls_to(SBD + "::add_shred_from_repair")
        o.check(len(cs) == 1, "Blockstore::add_shred_from_repair|delegates", "delegates to SlotBlockData::add_shred_from_repair", x.span)
        for c in cs:
            extra = D.extra_guards(prog, x, c.bb, [])
            o.check(not extra, "Blockstore::add_shred_from_repair|no-condition", "no condition guards the delegation", c.span, {"extra": G.atoms_show(extra)})


def ob_peer_selection(run, oid):
    """whom a repair request is sent to: any other validator can be drawn, addressed by its own entry"""
    prog = run.program("lib")
    o = run.ob(oid, "repair peers are drawn from the epoch's whole validator list (validator index == position), never the node itself, and addressed by the drawn validator's own entry",
               "'as long as some peer keeps answering correctly': the one correct peer must be reachable by the draw. A sampler over a filtered or re-ordered list returns positions that are "
               "not validator ids: some validator is then never asked (and another one, or the node itself, twice as often)", floor=3)
    b = prog.body(REP + "::new")
    if b is None:
        o.missing("Repair::new")
    else:
        cs = [c for c in b.calls() if c.name.endswith("Sampler::new") or "Sampler::new" in c.name]
        o.check(len(cs) == 1, "Repair::new|sampler|one", "one sampler is constructed", b.span)
        for c in cs:
            t = b.operand_term(c.args[0])
            pv = b.provenance(t)
            names = set(x.rsplit("::", 1)[-1] for x in pv["calls"])
            whole = any(x.endswith("EpochInfo::validators") for x in pv["calls"]) and not (names & {"filter", "filter_map", "skip", "take", "retain", "remove", "swap_remove", "sort", "sort_by", "sort_by_key",
                                                                                         "sort_unstable_by_key", "rev", "dedup", "drain", "split_off", "truncate", "shuffle"}) and not pv["aggs"]
            o.check(whole, "Repair::new|sampler|whole-validator-list", "the sampler is built over epoch_info.validators() as is (no filter, no re-ordering)", c.span, {"calls": sorted(names)})
    pb = prog.body(REP + "::pick_random_peer")
    if pb is None:
        o.missing("Repair::pick_random_peer")
        return o
    for rb in pb.return_blocks():
        g = [a for a in G.guard_atoms(pb, rb, prog) if a[0] in ("eq", "ne") and len(a[1]) == 2 and (K.mentions_call(a[1][0], "own_id") or K.mentions_call(a[1][1], "own_id"))
             and ((a[0] == "eq" and a[2] is False) or (a[0] == "ne" and a[2] is True))]
        o.check(bool(g), "pick_random_peer|not-self", "a peer is returned only when its id differs from own_id()", pb.span, {"guards": K.show_atoms(prog, pb, rb)[:4]})
    rt = K.peel(pb.local_term(0))
    ok = isinstance(rt, tuple) and rt and rt[0] == "field" and rt[2] == "repair_responder_address"
    base_ok = ok and (K.mentions_call(rt[1], "sample_info") or (K.mentions_call(rt[1], "EpochInfo::validator") and K.mentions_call(rt[1], "::sample")) or K.peel(rt[1])[0] == "local")
    o.check(ok and base_ok, "pick_random_peer|address-of-the-drawn-validator", "the address returned is repair_responder_address of the drawn validator", pb.span, {"value": mir.show(rt)[:100]})
    return o


def check(run, prefix="O14", compose=True):
    P = prefix
    ob_request_identifier(run, P + ".12")
    ob_peer_selection(run, P + ".16")
    ob_repair_store_unconditional(run, P + ".13")
    # the responder answers from the blockstore's per-block maps: everything beyond the proven last slice is pruned when the last slice becomes
    # known (the range guard of get_shred / get_slice_root / create_double_merkle_proof)
    from . import C13 as _C13
    _C13.ob_last_slice_prune(run, P + ".14")
    # "no response crashes the repair task": a repaired block is handed to Pool::add_block, which asserts block.slot > parent.slot - backed by the content
    # gates of the reconstruction (every parent a block names, incl. the one a later slice switches to, lies in an earlier slot)
    _C13.ob_content_gates(run, P + ".15")
    from . import detectors as _DL
    _DL.ob_loop_exits(run, P + ".11", ['repair::', 'consensus::blockstore'], 'every missing slice / shred has to be requested: a loop that stops early never repairs the rest')
    ob_block_lookup(run, P + ".10")
    # the requester accepts a slice count only through check_proof_last / check_proof: their index-domain and last-leaf obligations
    if compose:
        from . import C15
        C15.check(run, prefix=P + ".9", compose=False)
    D.ob_state_mutations(run, P + ".8", ['repair::Repair'], 'outstanding requests, proven roots and slice counts are what responses are checked against: clearing or overwriting them derails or corrupts a repair')
    prog = run.program("lib")
    fam = [b for b in prog.family(REP + "::handle_response") if b.is_closure and b.defpath.endswith("handle_response::{closure#0}")]
    if not fam:
        run.ob(P + ".1", "store only after proof", "", floor=1).missing("Repair::handle_response")
        return
    b = fam[0]

    def insert_sites(field):
        return [c for c in b.calls() if c.name.endswith("BTreeMap::insert") and K.is_field(b.operand_term(c.args[0]), field, "Repair")]

    # ------------------------------------------------------------------ O14.1
    o = run.ob(P + ".1", "repair data is stored only after request match and proof against the requested block hash",
               "without the proof (or with a proof for another index/root) a peer plants arbitrary slice roots / shreds under the requested block id", floor=16)
    sr = insert_sites("slice_roots")
    if len(sr) != 2:
        o.fail("handle_response|slice_roots.insert|count", "expected two sites storing a slice root (LastSliceRoot, SliceRoot), found %d" % len(sr), b.span)
    for c in sr:
        atoms = G.guard_atoms(b, c.bb, prog)
        det = {"guards": G.atoms_show(atoms)[:8]}
        var = None
        for a in atoms:
            if a[0] == "variant" and a[1][0][0] in ("param", "upvar", "local") and a[1][1] <= {"LastSliceRoot", "SliceRoot", "Shred", "Nack"} and len(a[1][1]) == 1:
                var = next(iter(a[1][1]))
        key = "handle_response|slice_roots.insert|%s" % var
        if var not in ("LastSliceRoot", "SliceRoot"):
            o.fail(key + "|arm", "slice root stored outside the LastSliceRoot/SliceRoot arms", c.span, det)
            continue
        o.check(any(a[0] == "bool" and a[2] is True and K.mentions_call(a[1][0], "contains_key") and K.mentions_field(a[1][0], "outstanding_requests", "Repair") for a in atoms) or
                any(a[0] == "is_some" and a[2] is True and K.mentions_field(a[1][0], "outstanding_requests", "Repair") for a in atoms),
                key + "|request-match", "only for a response whose request hash is outstanding", c.span, det)
        o.check(any(a[0] == "variant" and a[1][1] == frozenset([var]) and resp_field(a[1][0], var, 0) for a in atoms), key + "|variant-match", "the echoed request has the same kind as the response", c.span, det)
        chk = "check_proof_last" if var == "LastSliceRoot" else "check_proof"
        pa = [a for a in atoms if a[0] == "bool" and a[2] is True and a[1][0][0] == "call" and a[1][0][1].endswith("MerkleTree::" + chk)]
        o.check(bool(pa), key + "|proof", "guarded by DoubleMerkleTree::%s(..) == true" % chk, c.span, det)
        if not pa:
            continue
        leaf, idx, root, proof = pa[0][1][0][2]
        kt = b.operand_term(c.args[1])
        vt = b.operand_term(c.args[2])
        stored_block = K.peel(kt[1][0]) if kt[0] == "tuple" else None
        stored_slice = K.peel(kt[1][1]) if kt[0] == "tuple" else None
        o.check(K.peel(leaf) == K.peel(vt), key + "|leaf-is-stored-root", "the proven leaf is the root that gets stored", c.span, {"leaf": mir.show(leaf), "stored": mir.show(vt)})
        o.check(idx[0] == "call" and idx[1].endswith("SliceIndex::inner") and K.peel(idx[2][0]) == stored_slice, key + "|index-is-stored-slice", "the proven index is the slice index it is stored under", c.span,
                {"index": mir.show(idx), "stored_slice": mir.show(stored_slice)})
        # root = hash of the request's block id (field .1 of the block id inside the echoed request)
        rt = K.peel(root)
        ok = isinstance(rt, tuple) and rt[0] == "field" and rt[2] == "1" and K.peel(rt[1]) == stored_block and resp_field(b.operand_term({"c": {"l": 0, "p": []}}) if False else rt[1][1] if rt[1][0] == "field" else rt[1], var, 0) or \
            (isinstance(rt, tuple) and rt[0] == "field" and rt[2] == "1" and mir.show(stored_block) == mir.show(K.peel(rt[1])))
        o.check(bool(ok), key + "|root-is-request-hash", "the proof is checked against the block hash of the request the data is stored under", c.span, {"root": mir.show(rt), "stored_block": mir.show(stored_block)})
        o.check(K.mentions(stored_block, lambda t: t[0] == "variant" and t[2] == var) , key + "|block-from-request", "the block id comes from the echoed (hash-matched) request", c.span)
    # shreds
    st = [c for c in b.calls() if c.callee.endswith("Blockstore::add_shred_from_repair")]
    if len(st) != 1:
        o.fail("handle_response|add_shred_from_repair|count", "expected one site storing a repaired shred, found %d" % len(st), b.span)
    for c in st:
        atoms = G.guard_atoms(b, c.bb, prog)
        det = {"guards": G.atoms_show(atoms)[:14]}
        key = "handle_response|add_shred_from_repair"
        o.check(any(a[0] == "variant" and a[1][1] == frozenset(["Shred"]) and resp_field(a[1][0], "Shred", 0) for a in atoms), key + "|variant-match", "the echoed request is a Shred request", c.span, det)
        for fld, ridx in (("slot", None), ("slice_index", 1), ("shred_index", 2)):
            g = [a for a in atoms if a[0] == "eq" and a[2] is True and any(K.mentions_field(x, fld) and K.mentions_call(x, "Shred::payload") for x in a[1]) and
                 any(K.mentions(x, lambda t: t[0] == "variant" and t[2] == "Shred") and not K.mentions_call(x, "Shred::payload") for x in a[1])]
            o.check(bool(g), key + "|header-%s" % fld, "shred.%s equals the requested one" % fld, c.span, det)
        g = [a for a in atoms if a[0] == "eq" and a[2] is True and any(K.mentions_call(x, "Shred::slice_root") for x in a[1]) and any(K.mentions_field(x, "slice_roots", "Repair") for x in a[1])]
        o.check(bool(g), key + "|root-proven", "shred.slice_root() equals the proven root of that slice", c.span, det)
        g = [a for a in atoms if a[0] == "is_ok" and a[2] is True and K.mentions_call(a[1][0], "ValidatedShred::try_new")]
        o.check(bool(g), key + "|signature", "behind ValidatedShred::try_new(..) being Ok", c.span, det)
        if g:
            tn = [t for t in mir.walk(g[0][1][0]) if isinstance(t, tuple) and t and t[0] == "call" and t[1] == VS + "::try_new"][0]
            o.check(K.peel(tn[2][1])[0] == "agg" and K.peel(tn[2][1])[2] == "None", key + "|no-cache", "signature always verified for repair (no cached commitment)", c.span)
        h = b.operand_term(c.args[1])
        o.check(K.mentions(h, lambda t: t[0] == "variant" and t[2] == "Shred") and not K.mentions_call(h, "Shred::payload"), key + "|filed-under-request-hash", "filed under the requested block hash", c.span, {"hash": mir.show(h)})
        pv = b.provenance(b.operand_term(c.args[2]))
        o.check(VS + "::try_new" in pv["calls"], key + "|validated-value", "the stored value is the Ok of try_new", c.span)

    # ------------------------------------------------------------------ O14.2
    o = run.ob(P + ".2", "no derailment: an outstanding request is removed only where the answered data is accepted; NACKs and timeouts re-issue",
               "removing the request before validation lets one invalid response cancel the retry: repair never completes although peers answer correctly", floor=12)
    rem = [c for c in b.calls() if (c.name.endswith("BTreeMap::remove")) and K.is_field(b.operand_term(c.args[0]), "outstanding_requests", "Repair")]
    stores = [c.bb for c in sr] + [c.bb for c in st]
    if not rem:
        o.fail("handle_response|outstanding.remove|missing", "answered requests are never removed", b.span)
    for c, key in K.ordinal_keys(rem, lambda c: "handle_response|outstanding_requests.remove"):
        paired = any(b.dominates(s, c.bb) for s in stores) or b.always_followed_by(c.bb, stores)
        wit = None if paired else b.path_avoiding(c.bb, stores)
        o.check(paired, key + "|paired-with-store", "every path through this removal stores the answered data (no exit between removal and store)", c.span,
                {"path_to_return_without_store": wit[:12] if wit else None})
    # unsolicited responses do nothing: whatever handle_response sends, stores or removes happens behind the
    # "this request is outstanding" test for the response's own request hash
    acts = [c for c in b.calls() if c.name.endswith("Repair::send_request") or c.name.endswith("Blockstore::add_shred_from_repair")
            or (c.name.rsplit("::", 1)[-1] in ("insert", "remove") and any(K.is_field(b.operand_term(c.args[0]), f, "Repair") for f in ("outstanding_requests", "slice_roots", "last_slices")))]
    for c, key in K.ordinal_keys(acts, lambda c: "handle_response|%s" % c.name.rsplit("::", 1)[-1]):
        g = [a for a in G.guard_atoms(b, c.bb, prog) if a[0] in ("bool", "is_some") and a[2] is True and K.mentions_field(a[1][0], "outstanding_requests", "Repair")
             and K.mentions_call(a[1][0], "request_type") and K.mentions_call(a[1][0], "hash")]
        o.check(bool(g), key + "|solicited-only", "reached only when the response answers a request that is outstanding (hash of the response's own request type)", c.span)
    nack = [c for c in b.calls_to(REP + "::send_request") if any(a[0] == "variant" and a[1][1] == frozenset(["Nack"]) for a in G.guard_atoms(b, c.bb, prog))]
    o.check(bool(nack), "handle_response|Nack|retry", "a NACK re-issues the request immediately", b.span)
    for lb in prog.family(REP + "::repair_loop"):
        rr = [c for c in lb.calls() if c.name.endswith("BTreeMap::remove") and K.is_field(lb.operand_term(c.args[0]), "outstanding_requests", "Repair")]
        for c in rr:
            snd = [x.bb for x in lb.calls_to(REP + "::send_request")]
            # on Some(request): send_request follows
            ok = any(lb.can_reach(c.bb, s) for s in snd)
            g_ok = False
            for s in lb.calls_to(REP + "::send_request"):
                for a in G.guard_atoms(lb, s.bb, prog):
                    if a[0] == "is_some" and a[2] is True and K.mentions_field(a[1][0], "outstanding_requests", "Repair"):
                        g_ok = True
            o.check(ok and g_ok, "repair_loop|timeout|retry", "a timed-out outstanding request is re-issued", c.span)
    sb = [x for x in prog.family(REP + "::send_request") if x.is_closure and x.defpath.endswith("send_request::{closure#0}")]
    for x in sb:
        ins = [c for c in x.calls() if c.name.endswith("BTreeMap::insert") and K.is_field(x.operand_term(c.args[0]), "outstanding_requests", "Repair")]
        psh = [c for c in x.calls() if c.name.endswith("BinaryHeap::push")]
        o.check(bool(ins) and bool(psh) and x.always_followed_by(0, [c.bb for c in ins]) and x.always_followed_by(0, [c.bb for c in psh]), "send_request|registers", "send_request records the request as outstanding and arms its timeout", x.span)

    # ------------------------------------------------------------------ O14.3
    o = run.ob(P + ".3", "identifier = content hash: repaired shreds must agree with the proven slice count (last-slice marker is signed but not covered by the block hash)",
               "a leader-signed contradictory is_last completes the repaired block early with another root: it is stored under the requested id and assert_eq!(hash) kills the repair task", floor=3)
    ls = insert_sites("last_slices")
    o.check(len(ls) == 1, "handle_response|last_slices.insert", "the proven index of the last slice is remembered per block", b.span, {"n": len(ls)})
    for c in ls:
        atoms = G.guard_atoms(b, c.bb, prog)
        pa = [a for a in atoms if a[0] == "bool" and a[2] is True and a[1][0][0] == "call" and a[1][0][1].endswith("MerkleTree::check_proof_last")]
        ok = bool(pa) and K.peel(pa[0][1][0][2][1][2][0]) == K.peel(b.operand_term(c.args[2])) if pa and pa[0][1][0][2][1][0] == "call" else False
        o.check(bool(ok), "handle_response|last_slices.insert|proven", "only the index proven by check_proof_last is recorded", c.span)
    for c in st:
        atoms = G.guard_atoms(b, c.bb, prog)
        g = [a for a in atoms if a[0] == "eq" and a[2] is True and any(K.mentions_field(x, "is_last") and K.mentions_call(x, "Shred::payload") for x in a[1]) and
             any(K.mentions_field(x, "last_slices", "Repair") for x in a[1])]
        o.check(bool(g), "handle_response|add_shred_from_repair|last-marker", "shred.is_last == (slice == proven last slice) before storing", c.span, {"guards": G.atoms_show(atoms)[:14]})

    # request issuance order (backs the two unreachable!() in the Shred arm)
    for c in b.calls_to(REP + "::send_request"):
        t = b.operand_term(c.args[1])
        aggs = [x for x in mir.walk(t) if isinstance(x, tuple) and x and x[0] == "agg" and x[1] == R + "RepairRequestType"]
        for a_ in aggs:
            if a_[2] == "Shred":
                ok = any(b.dominates(x.bb, c.bb) for x in sr)
                o.check(ok, "handle_response|send_request(Shred)|after-root", "Shred requests are issued only after the slice root was recorded", c.span)
            if a_[2] == "SliceRoot":
                ok = any(b.dominates(x.bb, c.bb) for x in ls)
                o.check(ok, "handle_response|send_request(SliceRoot)|after-last", "SliceRoot requests are issued only after the last-slice index was recorded", c.span)

    # ------------------------------------------------------------------ O14.4
    o = run.ob(P + ".4", "responder: request kind -> response kind with data read from the blockstore for the same ids; cannot serve => Nack; unknown sender dropped before indexing",
               "a responder answering with data of another block/slice makes honest requesters reject honest answers", floor=8)
    tb = [x for x in prog.family(RRH + "::try_build_response") if x.is_closure]
    want = {"LastSliceRoot": {"get_last_slice_index", "get_slice_root", "create_double_merkle_proof"}, "SliceRoot": {"get_slice_root", "create_double_merkle_proof"}, "Shred": {"get_shred"}}
    for x in tb:
        for (bb, rv, sp, dst) in x.aggregates(R + "RepairResponse"):
            var = rv["variant"]
            if var not in want:
                continue
            atoms = G.guard_atoms(x, bb, prog)
            arm = [a for a in atoms if a[0] == "variant" and a[1][1] == frozenset([var]) and K.mentions_field(a[1][0], "req_type", "RepairRequest")]
            o.check(bool(arm), "try_build_response|%s|arm" % var, "RepairResponse::%s is built only for a %s request" % (var, var), sp)
            ops = [x.operand_term(op) for op in rv["ops"]]
            calls = set()
            for t in ops[1:]:
                pv = x.provenance(t)
                calls |= set(c.rsplit("::", 1)[-1] for c in pv["calls"] if "Blockstore::" in c)
            o.check(want[var] <= calls, "try_build_response|%s|sources" % var, "payload comes from blockstore.%s for the requested ids" % "/".join(sorted(want[var])), sp, {"calls": sorted(calls)})
            o.check(K.mentions_field(ops[0], "req_type", "RepairRequest"), "try_build_response|%s|echo" % var, "the request is echoed back", sp)
            # same ids: every blockstore call in this arm takes ids from the request
            for c in x.calls():
                if "Blockstore::" in c.callee and any(a[0] == "variant" and a[1][1] == frozenset([var]) for a in G.guard_atoms(x, c.bb, prog)):
                    a1 = x.operand_term(c.args[1])
                    o.check(K.mentions_field(a1, "req_type", "RepairRequest"), "try_build_response|%s|%s|ids" % (var, c.callee.rsplit("::", 1)[-1]), "%s is asked for the requested block id" % c.callee.rsplit("::", 1)[-1], c.span)
    _create_proof_guard(prog, o, tb)
    ab = [x for x in prog.family(RRH + "::answer_request")]
    nack = False
    for x in ab:
        for (bb, rv, sp, dst) in x.aggregates(R + "RepairResponse", "Nack"):
            nack = True
    o.check(nack, "answer_request|Nack", "a request that cannot be served is answered with Nack", ab[0].span if ab else "")
    for x in ab:
        if not x.is_closure:
            continue
        for c in x.calls_to(RRH + "::send_response"):
            g = None
            for a in G.guard_atoms(x, c.bb, prog):
                if a[0] == "lt" and a[2] is True and K.mentions_field(a[1][0], "sender", "RepairRequest"):
                    g = a
            o.check(g is not None, "answer_request|send_response|known-sender", "send_response (which indexes validator(sender)) only for sender < validators.len()", c.span, {"guards": K.show_atoms(prog, x, c.bb)[:6]})
            o.check(K.mentions_field(x.operand_term(c.args[2]), "sender", "RepairRequest"), "answer_request|send_response|to-sender", "the answer goes to the requester", c.span)

    # ------------------------------------------------------------------ O14.7
    o = run.ob(P + ".7", "every shred a node stores (and later serves to repair requesters / copies into regenerated shreds) carries signature bytes that were verified",
               "a served shred with an unverifiable signature is rejected by every honest requester: the node cannot answer 'with data that verifies'", floor=2)
    tn = prog.body(VS + "::try_new")
    if tn is None:
        o.missing("ValidatedShred::try_new")
    else:
        for (bb, rv, sp, dst) in tn.aggregates(VS):
            key = "ValidatedShred::try_new|Ok"
            atoms = G.guard_atoms(tn, bb, prog)
            ver = any(a[0] == "bool" and a[2] is True and a[1][0][0] == "call" and a[1][0][1].endswith("Signature::verify_bytes") for a in atoms)
            cached = any(a[0] == "is_some" and a[2] is True for a in atoms)
            o.check(ver, key + ("|cached-commitment-path" if cached else "|uncached-path") + "|signature-verified",
                    "Ok only after the shred's own signature bytes verified", sp, {"guards": G.atoms_show(atoms)[:5]})


def _create_proof_guard(prog, o, tb):
    # the Merkle tree's create_proof asserts index < leaves: the slice index handed to create_double_merkle_proof must have been
    # established as existing by a successful get_slice_root for the same (block, slice) before (backs the panic review entry)
    for x in tb:
        for c in x.calls():
            if not c.callee.endswith("Blockstore::create_double_merkle_proof"):
                continue
            bid, idx = K.peel(x.operand_term(c.args[1])), K.peel(x.operand_term(c.args[2]))

            def strip(t):
                # drop the trailing block id of call terms so that terms are compared structurally
                if isinstance(t, tuple) and t and t[0] == "call":
                    return ("call", t[1], tuple(strip(a) for a in t[2]))
                if isinstance(t, tuple):
                    return tuple(strip(a) for a in t)
                return t
            ok = False
            for a in G.guard_atoms(x, c.bb, prog):
                ts = [t for t in mir.walk(a[1][0]) if isinstance(t, tuple) and t and t[0] == "call" and t[1].endswith("Blockstore::get_slice_root")]
                positive = (a[0] == "is_some" and a[2] is True) or (a[0] == "variant" and a[1][1] == frozenset(["Continue"])) or (a[0] == "variant" and a[1][1] == frozenset(["Some"]))
                for t in ts:
                    if positive and strip(K.peel(t[2][1])) == strip(bid) and strip(K.peel(t[2][2])) == strip(idx):
                        ok = True
            o.check(ok, "try_build_response|create_double_merkle_proof|index-established", "create_double_merkle_proof(block, i) runs only after get_slice_root(block, i) answered for the same block and index "
                    "(out-of-range index => Nack, not the assert in MerkleTree::create_proof)", c.span, {"guards": K.show_atoms(prog, x, c.bb)[-4:]})
    callers = sorted(set(K.root_fn(d) for d, bd in prog.bodies.items() if not bd.generated for c in bd.calls()
                         if c.callee.endswith("Blockstore::create_double_merkle_proof") or c.callee.endswith("MerkleTree::create_proof")))
    allowed = {RRH + "::try_build_response", "<" + A + "consensus::blockstore::BlockstoreImpl as " + A + "consensus::blockstore::Blockstore>::create_double_merkle_proof", A + "shredder::fill_missing_shreds"}
    o.check(set(callers) <= allowed, "create_proof|callers", "the asserting MerkleTree::create_proof is reached only from the reviewed callers (responder after get_slice_root; shredder with 0..TOTAL_SHREDS)", "",
            {"callers": [fshort(x) for x in callers], "unreviewed": [fshort(x) for x in callers if x not in allowed]})


def ob_create_proof_guard(run, oid):
    """stand-alone form (used by C10): the asserting MerkleTree::create_proof is reached from the responder only with an index that
    get_slice_root has answered for"""
    prog = run.program("lib")
    o = run.ob(oid, "the repair responder hands create_double_merkle_proof only slice indices that get_slice_root answered for (request index out of range => Nack, not a panic)",
               "MerkleTree::create_proof asserts index < leaves: a request naming a slice beyond the block's last slice would kill the responder task", floor=3)
    tb = [x for x in prog.family(RRH + "::try_build_response") if x.is_closure]
    if not tb:
        o.missing("RepairRequestHandler::try_build_response")
    _create_proof_guard(prog, o, tb)


def ob_block_lookup(run, oid):
    """BlockstoreImpl::get_block_data - the lookup behind everything the responder serves and behind 'already repaired?'"""
    from engine import paths
    prog = run.program("lib")
    o = run.ob(oid, "a block is looked up as the slot's disseminated block only if that block's hash equals the requested hash; in every other case the repaired blocks are consulted",
               "otherwise a block the node holds through repair next to a different disseminated block of the slot (equivocating leader) is reported as not held: requests for it are "
               "NACKed and it is repaired again for ever", floor=3)
    b = prog.body(A + "consensus::blockstore::BlockstoreImpl::get_block_data")
    if b is None:
        o.missing("BlockstoreImpl::get_block_data")
        return
    rows = paths.decision_table(b, prog)
    n_dis = n_rep = 0
    bad = []
    for atoms, ret, blocks in rows:
        if ret is None:
            bad.append("no result")
            continue
        if K.mentions_call(ret, "from_residual"):
            continue        # slot unknown: `?`
        pr = K.peel(ret)
        if isinstance(pr, tuple) and pr and pr[0] == "agg" and str(pr[2]) == "None":
            # slot unknown, spelled `let Some(..) = self.slot_data(slot) else { return None }`: legitimate only when the slot's data is absent
            unknown = [a for a in atoms if a[0] == "is_some" and a[2] is False and not K.mentions_field(a[1][0], "completed") and not K.mentions_field(a[1][0], "repaired")
                       and (K.mentions_call(a[1][0], "slot_data") or K.mentions_field(a[1][0], "block_data"))]
            if unknown and not any(K.mentions_field(x, "completed") or K.mentions_field(x, "repaired") for a in atoms for x in a[1] if isinstance(x, tuple)):
                continue
        if K.mentions_field(ret, "disseminated") and not K.mentions_field(ret, "repaired"):
            ok = any(a[0] == "eq" and a[2] is True and any(K.mentions_field(x, "completed") for x in a[1]) and any(K.mentions_arg(b, x, 2) for x in a[1]) for a in atoms)
            # `completed.as_ref().is_some_and(|(h, _)| h == hash)`: the equality lives in a closure that captured the requested hash
            ok = ok or any(a[0] == "bool" and a[2] is True and K.mentions_field(a[1][0], "completed") and K.mentions_call(a[1][0], "is_some_and")
                           and D.closure_compares_capture(prog, a[1][0], lambda t: K.mentions_arg(b, t, 2)) for a in atoms)
            n_dis += 1
            if not ok:
                bad.append("disseminated returned without hash equality")
        elif K.mentions_field(ret, "repaired") and K.mentions_call(ret, "BTreeMap::get") and K.mentions_arg(b, ret, 2):
            n_rep += 1
        else:
            bad.append("row answers %s under %s" % (mir.show(ret)[:60], G.atoms_show(atoms)[-2:]))
    o.check(not bad and n_dis >= 1, "get_block_data|disseminated-only-on-equal-hash", "the disseminated block is returned only when its completed hash == requested hash", b.span, {"bad": bad[:3]})
    o.check(not bad and n_rep >= 1, "get_block_data|otherwise-repaired", "every other case (not completed, or another hash) consults repaired[hash]", b.span, {"rows": len(rows), "repaired_rows": n_rep})
    callers = sorted(set(K.root_fn(c.body.defpath).rsplit("::", 1)[-1] for c in prog.callers_of(b.defpath)))
    o.check({"get_block", "get_shred", "get_slice_root", "get_last_slice_index", "create_double_merkle_proof"} <= set(callers), "get_block_data|used-by-all-getters",
            "all block getters go through this lookup", b.span, {"callers": callers})
