"""C05 — a correct node's own votes obey the voting rules (structural necessary conditions)."""
from engine import guards as G
from engine import mir
from . import common as K
from . import detectors as D
from .common import VOTOR, VOTE, fshort

EXPLANATION = (
    "Decides, on the MIR of every body in consensus::votor, the guard/writer/provenance obligations O5.1-O5.9: "
    "each construction site of each vote kind is dominated by the guards the voting rules require (with the right "
    "polarity and over the right per-slot flags), is followed on every path by the flag updates that make the rule "
    "hold for later events, signs with the node's own key/index, and the per-slot flags are written only by the "
    "functions entitled to. Does NOT decide the invariant over all interleavings (joint Pool x Votor state space)."
)

SS = VOTOR + "SlotState"


def vote_sites(prog, kind):
    out = []
    for b in K.bodies_in(prog, VOTOR):
        for c in b.calls_to(K.VOTE_CTORS[kind]):
            out.append(c)
        for (bb, rv, sp, dst) in b.aggregates(VOTE + "Vote", kind):
            out.append(("agg", b, bb, sp))
    return out


def ob_prune_boundary(run, oid):
    """what the Votor forgets and what it still reacts to must meet at one boundary"""
    prog = run.program("lib")
    o = run.ob(oid, "Votor::prune discards exactly the slots below first_unpruned_slot(), the boundary below which should_ignore_pool_event drops events",
               "if per-slot voting state (voted, voted_notar, retired) is dropped for a slot whose events are still handled, a late SafeToSkip / SafeToNotar / timeout finds a blank "
               "state and the node votes again in a slot it already voted (or even finalized) in", floor=2)
    b = prog.body(VOTOR + "Votor::prune")
    if b is None:
        # prune folded into its caller(s): the discard step is wherever Votor.slots is split / retained
        cands = [x for d, x in prog.bodies.items() if d.startswith(VOTOR + "Votor::") and not x.generated and any(
            c.name.rsplit("::", 1)[-1] in ("split_off", "retain") and c.args and K.mentions_field(x.operand_term(c.args[0]), "slots", "Votor") for c in x.calls())]
        if len(cands) != 1:
            o.missing("Votor::prune")
            return o
        b = cands[0]
    so = [c for c in b.calls() if c.name.rsplit("::", 1)[-1] in ("split_off", "retain") and c.args and K.mentions_field(b.operand_term(c.args[0]), "slots", "Votor")]
    o.check(len(so) == 1, "Votor::prune|one-discard", "one discard step", b.span, {"found": len(so)})
    for c in so:
        if c.name.endswith("split_off"):
            kt = K.peel(b.operand_term(c.args[1]))
            ok = isinstance(kt, tuple) and kt and kt[0] == "call" and kt[1] == VOTOR + "Votor::first_unpruned_slot" and len(kt[2]) == 1
            o.check(ok, "Votor::prune|split_off|at-first_unpruned_slot", "split_off(&self.first_unpruned_slot()): the key is that helper's value, unmodified", c.span, {"key": mir.show(kt)[:100]})
    ig = prog.body(VOTOR + "Votor::should_ignore_pool_event")
    if ig is None:
        o.missing("Votor::should_ignore_pool_event")
    else:
        o.check(bool(ig.calls_to(VOTOR + "Votor::first_unpruned_slot")), "should_ignore_pool_event|same-boundary", "should_ignore_pool_event compares with first_unpruned_slot() as well", ig.span)
    return o


def check(run, prefix="O5"):
    from . import slots as _SL
    _SL.ob_slot_arithmetic(run, prefix + ".13")
    ob_prune_boundary(run, prefix + ".15")
    from . import detectors as _DL
    _DL.ob_loop_exits(run, prefix + ".12", ['consensus::votor'], 'the voting rules are applied to every pending slot / block of a window: a loop that stops early leaves slots unvoted')
    # "fallback votes only after the safe-to-notar / safe-to-skip condition held at that node": the Votor acts on the pool's events,
    # so the predicates behind those events are part of this property's necessary conditions as well
    if prefix == "O5":
        from . import C06
        C06.ob_s2n_table(run, prefix + ".11a")
        C06.ob_safe_to_skip(run, prefix + ".11b")
        C06.ob_bookkeeping(run, prefix + ".11c")
        C06.ob_parent_certified(run, prefix + ".11d")
        C06.ob_registry(run, prefix + ".11e")
        C06.ob_triggers(run, prefix + ".11f")
    D.ob_state_mutations(run, "O5.10", ['consensus::votor::Votor', 'consensus::votor::SlotState'], "the per-slot voting flags are what makes the node's votes non-slashable: any other write can re-enable a vote")
    prog = run.program("lib")
    P = prefix

    # ------------------------------------------------------------------ O5.1 notar
    o = run.ob(P + ".1", "Vote::Notar only when not yet voted, on an acceptable parent; then voted/voted_notar are set",
               "otherwise a node can notarize two blocks in a slot, or a block whose parent it never accepted", floor=4)
    sites = vote_sites(prog, "Notar")
    if not sites:
        o.missing("construction of Vote::Notar in consensus::votor")
    for c, key in K.ordinal_keys(sites, lambda c: "%s|Vote::Notar" % fshort(c.body.defpath if not isinstance(c, tuple) else c[1].defpath)):
        if isinstance(c, tuple):
            o.fail(key + "|raw-aggregate", "Vote::Notar built by a raw aggregate instead of the signing constructor", c[3])
            continue
        b, bb = c.body, c.bb
        g = G.has_guard(prog, b, bb, pred="bool", polarity=False, fields=["voted"], owner="votor::SlotState")
        o.check(g is not None, key + "|not-voted", "guarded by !has_voted(slot) (reads SlotState.voted)", c.span,
                detail={"guards": K.show_atoms(prog, b, bb)})
        # window-start split
        sw = [s for s in G.find_switch(prog, b, calls=["first_slot_in_window"], dominating=bb) + G.find_switch(prog, b, calls=["is_start_of_window"], dominating=bb)]
        if not sw:
            o.fail(key + "|window-split", "no switch on 'slot is the first slot of its window' dominates the vote", c.span)
            continue
        s, tv, fv = sw[0]
        g1 = G.has_guard(prog, b, bb, polarity=True, fields=["parents_ready"], owner="votor::SlotState", assume=((s, tv),))
        ok1 = g1 is not None and G.deep_calls(prog, g1[1][0], 1) and any(x.endswith("::contains") for x in G.deep_calls(prog, g1[1][0], 1))
        o.check(bool(ok1), key + "|first-slot-parent-ready", "first slot of window: guarded by parents_ready.contains(parent)", c.span,
                detail={"guards": K.show_atoms(prog, b, bb, ((s, tv),))})
        g2 = G.has_guard(prog, b, bb, pred="eq", polarity=True, calls=["Slot::prev"], assume=((s, fv),))
        o.check(g2 is not None, key + "|later-slot-parent-prev", "later slot: guarded by parent_slot == slot.prev()", c.span,
                detail={"guards": K.show_atoms(prog, b, bb, ((s, fv),))})
        g3 = G.has_guard(prog, b, bb, pred="eq", polarity=True, fields=["voted_notar"], owner="votor::SlotState", assume=((s, fv),))
        ok3 = g3 is not None and any(K.mentions_field(x, "parent", "BlockInfo") and K.mentions_arg(b, x, 3) for x in g3[1])
        o.check(bool(ok3), key + "|later-slot-voted-parent", "later slot: guarded by voted_notar(parent_slot) == Some(parent_hash)", c.span)
        # followed by flag writes
        w1 = [x[0] for x in K.writes_of_field(b, "votor::SlotState", "voted", const=1)]
        w2 = [x[0] for x in K.writes_of_field(b, "votor::SlotState", "voted_notar")]
        o.check(bool(w1) and b.always_followed_by(bb, w1), key + "|sets-voted", "every path after the vote sets voted = true", c.span)
        o.check(bool(w2) and b.always_followed_by(bb, w2), key + "|sets-voted-notar", "every path after the vote sets voted_notar", c.span)

    # ------------------------------------------------------------------ O5.2 final
    o = run.ob(P + ".2", "Vote::Final only for the own-notarized, certified block in a clean window; then retired",
               "otherwise a node finalizes a block it did not notarize / without a notar cert / after a skip or fallback vote", floor=4)
    sites = vote_sites(prog, "Final")
    if not sites:
        o.missing("construction of Vote::Final in consensus::votor")
    for c, key in K.ordinal_keys(sites, lambda c: "%s|Vote::Final" % fshort(c.body.defpath if not isinstance(c, tuple) else c[1].defpath)):
        if isinstance(c, tuple):
            o.fail(key + "|raw-aggregate", "Vote::Final built by a raw aggregate", c[3])
            continue
        b, bb = c.body, c.bb
        ga = G.has_guard(prog, b, bb, pred="eq", polarity=True, fields=["block_notarized"], owner="votor::SlotState")
        gb = G.has_guard(prog, b, bb, pred="eq", polarity=True, fields=["voted_notar"], owner="votor::SlotState")
        gc = G.has_guard(prog, b, bb, pred="bool", polarity=False, fields=["bad_window"], owner="votor::SlotState")
        det = {"guards": K.show_atoms(prog, b, bb)}
        o.check(ga is not None, key + "|notarized", "guarded by block_notarized == Some(hash)", c.span, det)
        o.check(gb is not None, key + "|voted-notar", "guarded by voted_notar == Some(hash)", c.span, det)
        o.check(gc is not None, key + "|not-bad-window", "guarded by !bad_window", c.span, det)
        if ga and gb:
            # both compare with the same right-hand side (the hash this call is about)
            same = ga[1][1] == gb[1][1] or ga[1][0] == gb[1][0]
            o.check(same, key + "|same-hash", "block_notarized and voted_notar are compared with the same hash", c.span,
                    {"a": mir.show(ga[1][1]), "b": mir.show(gb[1][1])})
        w = [x[0] for x in K.writes_of_field(b, "votor::SlotState", "retired", const=1)]
        o.check(bool(w) and b.always_followed_by(bb, w), key + "|sets-retired", "every path after the vote sets retired = true", c.span)

    # ------------------------------------------------------------------ O5.3 skip
    o = run.ob(P + ".3", "Vote::Skip only for unvoted slots; voted and bad_window are set on the same path",
               "otherwise a node skips a slot it notarized (slashable) or later finalizes in a window it skipped", floor=3)
    sites = vote_sites(prog, "Skip")
    if not sites:
        o.missing("construction of Vote::Skip in consensus::votor")
    for c, key in K.ordinal_keys(sites, lambda c: "%s|Vote::Skip" % fshort(c.body.defpath if not isinstance(c, tuple) else c[1].defpath)):
        if isinstance(c, tuple):
            o.fail(key + "|raw-aggregate", "Vote::Skip built by a raw aggregate", c[3])
            continue
        b, bb = c.body, c.bb
        g = G.has_guard(prog, b, bb, pred="bool", polarity=False, fields=["voted"], owner="votor::SlotState")
        o.check(g is not None, key + "|not-voted", "guarded by !has_voted(s)", c.span, {"guards": K.show_atoms(prog, b, bb)})
        for fld in ("voted", "bad_window"):
            ws = [x[0] for x in K.writes_of_field(b, "votor::SlotState", fld, const=1)]
            same_path = any(b.dominates(w, bb) for w in ws) or (bool(ws) and b.always_followed_by(bb, ws))
            o.check(same_path, key + "|sets-" + fld, "%s = true is written on every path through the skip vote" % fld, c.span)

    # ------------------------------------------------------------------ O5.4 fallback votes
    o = run.ob(P + ".4", "fallback votes only in the SafeToNotar/SafeToSkip arms behind should_ignore_pool_event; then bad_window and window skip",
               "otherwise a fallback vote is cast without the safe-to condition, in a retired slot (after finalizing), or a final vote can follow it", floor=8)
    for kind, ev in (("NotarFallback", "SafeToNotar"), ("SkipFallback", "SafeToSkip")):
        sites = vote_sites(prog, kind)
        if not sites:
            o.missing("construction of Vote::%s in consensus::votor" % kind)
        for c, key in K.ordinal_keys(sites, lambda c: "%s|Vote::%s" % (fshort(c.body.defpath if not isinstance(c, tuple) else c[1].defpath), kind)):
            if isinstance(c, tuple):
                o.fail(key + "|raw-aggregate", "Vote::%s built by a raw aggregate" % kind, c[3])
                continue
            b, bb = c.body, c.bb
            atoms = G.guard_atoms(b, bb, prog)
            in_arm = any(a[0] == "variant" and a[1][1] == frozenset([ev]) for a in atoms)
            o.check(in_arm, key + "|event-arm", "inside the PoolEvent::%s arm only" % ev, c.span, {"guards": G.atoms_show(atoms)})
            g = G.has_guard(prog, b, bb, pred="bool", polarity=False, calls=["should_ignore_pool_event"])
            o.check(g is not None, key + "|not-ignored", "behind the false edge of should_ignore_pool_event", c.span)
            w = [x[0] for x in K.writes_of_field(b, "votor::SlotState", "bad_window", const=1)]
            o.check(bool(w) and b.always_followed_by(bb, w), key + "|sets-bad-window", "always followed by bad_window = true", c.span)
            tsw = [x.bb for x in b.calls_to(VOTOR + "Votor::try_skip_window")]
            o.check(bool(tsw) and b.always_followed_by(bb, tsw), key + "|skips-window", "always followed by try_skip_window(slot)", c.span)
            # the slot/hash voted on are those of the event
            t = c.body.operand_term(c.args[0])
            o.check(K.mentions(t, lambda x: x[0] == "variant" and x[2] == ev), key + "|event-slot", "votes on the slot carried by the event", c.span, {"arg0": mir.show(t)})

    _ignore_table_checks(prog, o)

    # ------------------------------------------------------------------ O5.5 writers
    o = run.ob(P + ".5", "per-slot voting flags are written only by the functions entitled to",
               "a stray writer can clear voted/bad_window/retired or set block_notarized without a notar cert", floor=8)
    allowed = {
        "voted": {"try_notar", "try_skip_window"},
        "voted_notar": {"try_notar"},
        "bad_window": {"try_skip_window", "handle_pool_event"},
        "block_notarized": {"handle_cert_created"},
        "retired": {"try_final"},
        "parents_ready": {"handle_pool_event"},
        "pending_block": {"try_notar", "handle_blockstore_event"},
        "received_shred": {"handle_blockstore_event"},
    }
    writers = K.all_field_writers(prog, SS)
    fields = K.adt_fields(prog, SS)
    if fields is None:
        o.missing("struct consensus::votor::SlotState")
        fields = []
    for f in fields:
        if f not in allowed:
            o.fail("%s|unknown-field" % f, "new per-slot field %s has no reviewed writer set (add it to the table)" % f)
            continue
        ws = writers.get(f, {})
        for fn, lst in sorted(ws.items()):
            nm = fn.rsplit("::", 1)[-1]
            ok = nm in allowed[f] and fn.startswith(VOTOR + "Votor")
            o.check(ok, "%s|writer|%s" % (f, fshort(fn)), "SlotState.%s written in %s" % (f, fshort(fn)), lst[0][0])
        # values: flags are only ever set to true
        if f in ("voted", "bad_window", "retired", "received_shred"):
            for fn, lst in ws.items():
                for (sp, kind, b, bb) in lst:
                    if kind == "assign":
                        vals = [b.rvalue_term(rv) for (wb, _sp, rv) in K.writes_of_field(b, "votor::SlotState", f) if wb == bb]
                        for v in vals:
                            o.check(v[0] == "const" and v[2] == 1, "%s|value|%s" % (f, fshort(fn)), "SlotState.%s is only ever set to true" % f, sp, {"value": mir.show(v)})
    # raw constructions of the per-slot state
    for b in K.bodies_in(prog, VOTOR):
        for (bb, rv, sp, dst) in b.aggregates(SS):
            nm = K.root_fn(b.defpath)
            ok = nm in (VOTOR + "Votor::new",) or "Default" in nm
            o.check(ok, "construct|%s" % fshort(nm), "votor::SlotState constructed in %s" % fshort(nm), sp)
    # block_notarized only from a Notar certificate
    hcc = prog.family(VOTOR + "Votor::handle_cert_created")
    for b in hcc:
        for (bb, sp, rv) in K.writes_of_field(b, "votor::SlotState", "block_notarized"):
            atoms = G.guard_atoms(b, bb, prog)
            ok = any(a[0] == "variant" and a[1][1] == frozenset(["Notar"]) for a in atoms)
            o.check(ok, "block_notarized|from-notar-cert", "block_notarized written only in the Cert::Notar arm", sp, {"guards": G.atoms_show(atoms)})
            t = b.rvalue_term(rv)
            o.check(K.mentions_call(t, "NotarCert::block_hash") or K.mentions(t, lambda x: x[0] == "variant" and x[2] == "Notar"), "block_notarized|value",
                    "block_notarized is the hash of that notar certificate", sp, {"value": mir.show(t)})

    # ------------------------------------------------------------------ O5.6 timeouts
    o = run.ob(P + ".6", "timeouts skip only unvoted slots (crashed-leader timeout additionally only without shreds)",
               "a timeout firing after the node voted must not produce a skip vote path that bypasses has_voted", floor=3)
    for b in prog.family(VOTOR + "Votor::handle_timeout_event"):
        for c, key in K.ordinal_keys(b.calls_to(VOTOR + "Votor::try_skip_window"), lambda c: "%s|try_skip_window" % fshort(c.body.defpath)):
            atoms = G.guard_atoms(b, c.bb, prog)
            g = G.has_guard(prog, b, c.bb, pred="bool", polarity=False, fields=["voted"], owner="votor::SlotState")
            o.check(g is not None, key + "|not-voted", "timeout skip guarded by !has_voted(slot)", c.span, {"guards": G.atoms_show(atoms)})
            crashed = any(a[0] == "variant" and a[1][1] == frozenset(["TimeoutCrashedLeader"]) for a in atoms)
            if crashed:
                g2 = G.has_guard(prog, b, c.bb, pred="bool", polarity=False, fields=["received_shred"], owner="votor::SlotState")
                o.check(g2 is not None, key + "|no-shred", "crashed-leader timeout guarded by !received_shred(slot)", c.span)

    # ------------------------------------------------------------------ O5.7 event arms
    o = run.ob(P + ".7", "ParentReady records the parent and re-checks pending blocks; final certs only raise highest_final_cert_slot",
               "a lost ParentReady blocks notarization of the window; a decreasing highest_final_cert_slot resurrects pruned slots", floor=3)
    for b in prog.family(VOTOR + "Votor::handle_pool_event"):
        for (bb, sp) in K.mutborrows_of_field(b, "votor::SlotState", "parents_ready"):
            atoms = G.guard_atoms(b, bb, prog)
            o.check(any(a[0] == "variant" and a[1][1] == frozenset(["ParentReady"]) for a in atoms), "handle_pool_event|parents_ready-insert|arm",
                    "parents_ready is extended only in the ParentReady arm", sp)
            cp = [x.bb for x in b.calls_to(VOTOR + "Votor::check_pending_blocks")]
            o.check(bool(cp) and b.always_followed_by(bb, cp), "handle_pool_event|parents_ready-insert|recheck",
                    "always followed by check_pending_blocks()", sp)
    hw = K.all_field_writers(prog, VOTOR + "Votor").get("highest_final_cert_slot", {})
    for fn, lst in hw.items():
        for (sp, kind, b, bb) in lst:
            if kind != "assign":
                o.fail("highest_final_cert_slot|mutborrow|%s" % fshort(fn), "highest_final_cert_slot mutably borrowed", sp)
                continue
            for (wb, _sp, rv) in [w for w in K.writes_of_field(b, "votor::Votor", "highest_final_cert_slot") if w[0] == bb]:
                t = b.rvalue_term(rv)
                ok = D.monotone_write(prog, b, bb, t, "highest_final_cert_slot")
                if fn.endswith("Votor::new"):
                    ok = True
                o.check(ok, "highest_final_cert_slot|monotone|%s" % fshort(fn), "highest_final_cert_slot only ever increases (max(old, slot), or written under old < slot)", sp, {"value": mir.show(t)})

    # set_timeouts(slot) asserts a window start: every caller passes one
    for c, key in K.ordinal_keys(prog.callers_of(VOTOR + "Votor::set_timeouts"), lambda c: "%s|set_timeouts" % fshort(c.body.defpath)):
        t = c.body.operand_term(c.args[1])
        ok = K.mentions_call(t, "first_slot_in_window") or (K.peel(t)[0] == "call" and K.peel(t)[1].endswith("Slot::new") and K.const_eval(K.peel(t)[2][0]) == 0) or \
            K.mentions(t, lambda x: x[0] == "variant" and x[2] == "ParentReady") or D.vclass(prog, c.body, t) == ["newtype", "types::slot::Slot", 0]
        o.check(bool(ok), key + "|window-start", "set_timeouts is called with a window-start slot (first_slot_in_window(), a ParentReady slot, or slot 0)", c.span, {"arg": mir.show(t)[:100]})

    # ------------------------------------------------------------------ O5.8 signing identity
    o = run.ob(P + ".8", "every vote is signed with the node's own key and index",
               "a vote signed with another key or index is not the node's own vote (and can be slashable for someone else)", floor=5)
    for kind in K.VOTE_KINDS:
        for c, key in K.ordinal_keys([c for c in vote_sites(prog, kind) if not isinstance(c, tuple)], lambda c: "%s|Vote::%s" % (fshort(c.body.defpath), kind)):
            n = len(c.args)
            sk = c.body.operand_term(c.args[n - 2])
            idx = c.body.operand_term(c.args[n - 1])
            o.check(K.is_field(sk, "voting_key", "votor::Votor") and K.is_field(idx, "validator_index", "votor::Votor"), key + "|identity",
                    "signed with self.voting_key / self.validator_index", c.span, {"sk": mir.show(sk), "signer": mir.show(idx)})

    # ------------------------------------------------------------------ O5.9 stale events dropped first
    o = run.ob(P + ".9", "blockstore/timeout events for old or retired slots are dropped before any state change or vote",
               "otherwise a late block or timeout makes the node vote in a slot it already finalized", floor=4)
    for fn in ("handle_blockstore_event", "handle_timeout_event"):
        fam = prog.family(VOTOR + "Votor::" + fn)
        if not fam:
            o.missing("Votor::" + fn)
        for b in fam:
            acts = []
            for c in b.calls():
                if c.name.startswith(VOTOR + "Votor::try_") or c.name.endswith("Votor::state_mut") or c.name.endswith("Votor::check_pending_blocks"):
                    acts.append((c.bb, c.span, K.fshort(c.name)))
            for (bb, sp, what), key in K.ordinal_keys(acts, lambda a: "%s|%s" % (fshort(b.defpath), a[2])):
                g1 = G.has_guard(prog, b, bb, pred="lt", polarity=True, fields=["highest_final_cert_slot"])
                g2 = G.has_guard(prog, b, bb, pred="bool", polarity=False, fields=["retired"], owner="votor::SlotState")
                o.check(g1 is not None and g2 is not None, key + "|fresh-slot", "%s only for slot > highest_final_cert_slot and not retired" % what, sp,
                        {"guards": K.show_atoms(prog, b, bb)})


def ignore_table(prog, body):
    """For should_ignore_pool_event: per PoolEvent variant the boolean function result(lt, retired), as a dict
    {(lt, retired): bool}, from the decision table of the body (CFG path enumeration; spelling-independent).
    lt = `slot < first_unpruned_slot()`, retired = `is_retired(slot)`. None for a variant whose rows use any other condition."""
    from engine import paths
    rows = paths.decision_table(body, prog)

    def classify(kind, args):
        if kind == "lt" and K.mentions_call(args[1], "first_unpruned_slot") and K.mentions_call(args[0], "slot"):
            return "lt"
        if kind == "bool" and K.mentions_call(args[0], "is_retired"):
            return "retired"
        return None
    variants = set()
    prows = []
    for atoms, ret, blocks in rows:
        vs = None
        conds = {}
        bad = False
        for a in atoms:
            if a[0] == "variant":
                vs = a[1][1] if vs is None else (vs & a[1][1])
                continue
            c = classify(a[0], a[1])
            if c is None:
                bad = True
            else:
                conds[c] = a[2]
        if vs is None:
            continue
        variants |= set(vs)
        r = None
        if ret is not None and ret[0] == "const" and ret[1] == "bool":
            r = ("const", bool(ret[2]))
        elif ret is not None:
            nb = G.norm_bool(ret, True)
            c = classify(nb[0], nb[1])
            r = ("atom", c, nb[2]) if c else None
        prows.append((vs, conds, r, bad))
    out = {}
    for v in variants:
        fn = {}
        ok = True
        for lt in (False, True):
            for rt in (False, True):
                env = {"lt": lt, "retired": rt}
                vals = set()
                for vs, conds, r, bad in prows:
                    if v in vs and all(env[k] == pol for k, pol in conds.items()):
                        if bad or r is None:
                            ok = False
                        else:
                            vals.add(r[1] if r[0] == "const" else (env[r[1]] == r[2]))
                if len(vals) != 1:
                    ok = False
                else:
                    fn[(lt, rt)] = next(iter(vals))
        out[v] = fn if ok else None
    return out



def _ignore_table_checks(prog, o):
    sib = prog.body(VOTOR + "Votor::should_ignore_pool_event")
    if sib is None:
        o.missing("Votor::should_ignore_pool_event")
        return
    table = ignore_table(prog, sib)
    want = {
        "Standstill": ("never ignored", lambda lt, rt: False),
        "CertCreated": ("ignored exactly when slot < first_unpruned_slot()", lambda lt, rt: lt),
        "ParentReady": ("ignored exactly when pruned or retired", lambda lt, rt: lt or rt),
        "SafeToNotar": ("ignored exactly when pruned or retired", lambda lt, rt: lt or rt),
        "SafeToSkip": ("ignored exactly when pruned or retired", lambda lt, rt: lt or rt),
    }
    for v, (name, fn) in want.items():
        got = table.get(v)
        exp = {(lt, rt): bool(fn(lt, rt)) for lt in (False, True) for rt in (False, True)}
        o.check(got == exp, "consensus::votor::Votor::should_ignore_pool_event|%s" % v,
                "should_ignore_pool_event(%s): %s (truth table over the two conditions)" % (v, name), sib.span,
                {"got": {"lt=%s,retired=%s" % k: x for k, x in got.items()} if got else None})


def ob_stale_events(run, oid):
    """stand-alone form (used by C10): the stale-event filter the Votor's asserts on `slot >= first_unpruned_slot()` rely on"""
    prog = run.program("lib")
    o = run.ob(oid, "Votor drops pool events for pruned slots before acting on them (truth table of should_ignore_pool_event per event kind)",
               "try_final / try_notar / state_mut assert slot >= first_unpruned_slot(): an event for a pruned slot that is not dropped first kills the voting task", floor=5)
    _ignore_table_checks(prog, o)
