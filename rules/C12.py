"""C12 — shreds are bound to leader, slot, slice and position; equivocation is detected (structural part)."""
import itertools

from engine import guards as G
from engine import mir, paths
from . import common as K
from . import detectors as D
from .common import A, fshort

EXPLANATION = (
    "Decides O12.1-O12.6: the verdict table of ValidatedShred::try_new extracted by CFG path enumeration (Ok iff cached == "
    "commitment, or no cache and the signature verifies; cached != commitment => Equivocation iff the signature verifies, "
    "else InvalidSignature) over the commitment SliceCommitment::new(header, root derived from this shred's payload, "
    "index and proof); SliceCommitment::new covers every field of SliceHeader and the root in disjoint byte ranges that "
    "fill SLICE_COMMITMENT_LEN; both callers verify under leader(slot of this shred).pubkey; commitment-cache writers and "
    "equivocation bookkeeping precede storage; the leader is flagged only on Equivocation|InvalidShred; consumed-subset-of-"
    "authenticated: every field (and the data/coding tag) that consumers read from a stored shred is covered by the "
    "commitment/Merkle derivation, or checked against a covered field before the shred is stored. "
    "Does NOT decide Ed25519 unforgeability nor order-independence over all arrival orders."
)

SH = A + "shredder::"
VS = SH + "validated_shred::ValidatedShred"
SBD = A + "consensus::blockstore::slot_block_data::"
BD = SBD + "BlockData"


def ob_verdict_table(run, oid):
    prog = run.program("lib")
    o = run.ob(oid, "verdict table of ValidatedShred::try_new; the commitment checked is the one derived from this very shred",
               "any other table accepts altered shreds, or reports equivocation for shreds the leader never signed", floor=8)
    b = prog.body(VS + "::try_new")
    if b is None:
        o.missing("ValidatedShred::try_new")
        return
    try:
        rows = paths.decision_table(b, prog)
    except paths.TooManyPaths:
        o.fail("try_new|too-many-paths", "path bound exceeded")
        return
    shred_p, cached_p, pk_p = (b.local_name(i) for i in (1, 2, 3))

    def ev(a, r):
        pred, args, pol = a[0], a[1], a[2]
        if pred == "is_some" and K.peel(args[0]) == ("param", 2, cached_p):
            return (r["cached"] != "none") == pol
        if pred == "eq" and any(K.mentions(x, lambda t: t == ("param", 2, cached_p)) for x in args) and any(K.mentions_call(x, "SliceCommitment::new") for x in args):
            if r["cached"] == "none":
                raise KeyError("vacuous")
            return (r["cached"] == "same") == pol
        if pred == "bool" and args[0][0] == "call" and args[0][1].endswith("Signature::verify_bytes"):
            return r["verify"] == pol
        if pred in ("bool", "switch") and (args[0] == ("const", "bool", 1) or (args[0][0] == "const")):
            return True
        if pred in ("variant", "is_some", "discr") and K.mentions(args[0], lambda t: t[0] == "agg" and t[1] == "core::option::Option"):
            # hotpath::measure wrapper: `if let Some(x) = None::<T>` never taken
            return (pred == "is_some" and pol is False) or (pred != "is_some")
        raise ValueError("unknown atom %s" % G.atoms_show([a]))

    def outcome(t):
        if t[0] == "agg" and t[1] == "core::result::Result":
            if t[2] == "Ok":
                return "Ok"
            inner = dict(t[3])["0"]
            return inner[2]
        return "?" + mir.show(t)[:40]

    spec = {("none", True): "Ok", ("none", False): "InvalidSignature", ("same", True): "Ok", ("same", False): "Ok",
            ("diff", True): "Equivocation", ("diff", False): "InvalidSignature"}
    try:
        for cached, verify in itertools.product(["none", "same", "diff"], [True, False]):
            r = {"cached": cached, "verify": verify}
            outs = set()
            for atoms, ret, blocks in rows:
                try:
                    if all(ev(a, r) for a in atoms):
                        outs.add(outcome(ret))
                except KeyError:
                    continue
            want = spec[(cached, verify)]
            o.check(outs == {want}, "try_new|cached=%s,verify=%s" % (cached, verify), "cached=%s, signature %s => %s" % (cached, "valid" if verify else "invalid", want), b.span, {"got": sorted(outs)})
    except ValueError as e:
        o.fail("try_new|idiom-unknown", "verdict table not decidable: %s (failing closed)" % e, b.span)
    # commitment and verification operate on this shred
    for c in b.calls_to(A + "crypto::signature::Signature::verify_bytes"):
        sig, msg, pk = (b.operand_term(x) for x in c.args)
        ok = K.is_field(sig, "slice_sig", "Shred") and K.mentions_call(msg, "SliceCommitment::new") and K.peel(pk) == ("param", 3, pk_p)
        o.check(ok, "try_new|verify|%s" % c.span.rsplit(":", 1)[-1], "verify_bytes(shred.slice_sig, commitment, pk)", c.span, {"sig": mir.show(sig), "pk": mir.show(pk)})
    for c in b.calls_to(SH + "SliceCommitment::new"):
        h, root = (b.operand_term(x) for x in c.args)
        ok = K.is_field(h, "header", "ShredPayload") and K.mentions_call(h, "Shred::payload") and K.mentions_call(root, "Shred::slice_root") and K.mentions(h, lambda t: t == ("param", 1, shred_p))
        o.check(ok, "try_new|commitment", "commitment = SliceCommitment::new(&shred.payload().header, &shred.slice_root())", c.span)
    for (bb, rv, sp, dst) in b.aggregates(VS):
        fm = dict(zip(rv["fields"], [b.operand_term(x) for x in rv["ops"]]))
        ok = K.peel(fm["shred"]) == ("param", 1, shred_p) and K.mentions_call(fm["slice_root"], "Shred::slice_root")
        o.check(ok, "try_new|stores|%s" % sp.rsplit(":", 1)[-1], "the validated value holds this shred and its derived root", sp)
    sr = prog.body(SH + "Shred::slice_root")
    if sr is None:
        o.missing("Shred::slice_root")
    else:
        cs = [c for c in sr.calls() if c.name.endswith("MerkleTree::derive_root")]
        ok = len(cs) == 1 and cs[0].dst["l"] == 0
        if ok:
            d, i, p = (sr.operand_term(x) for x in cs[0].args)
            ok = K.is_field(d, "data", "ShredPayload") and K.mentions_field(i, "shred_index", "ShredPayload") and K.is_field(p, "merkle_path", "Shred")
        o.check(bool(ok), "Shred::slice_root|derivation", "root = derive_root(payload.data, *payload.shred_index, merkle_path)", sr.span)


def ob_commitment_coverage(run, oid):
    prog = run.program("lib")
    o = run.ob(oid, "SliceCommitment::new signs every field of SliceHeader and the slice root, in disjoint ranges filling SLICE_COMMITMENT_LEN",
               "a header field that is not signed can be altered in transit (replay under another slot/slice, flipped last-slice marker)", floor=5)
    b = prog.body(SH + "SliceCommitment::new")
    if b is None:
        o.missing("SliceCommitment::new")
        return
    hdr = A + "types::slice::SliceHeader"
    fields = set(K.adt_fields(prog, hdr) or [])
    rd = set(n for (_bb, ow, n, _sp) in b.field_reads() if ow == hdr)
    o.check(bool(fields) and rd == fields, "SliceCommitment::new|header-coverage", "reads every field of SliceHeader (%s)" % ", ".join(sorted(fields)), b.span, {"missing": sorted(fields - rd)})
    total = prog.const_int(SH + "SLICE_COMMITMENT_LEN")
    regions = D.written_regions(b, hdr)
    ok = D.contiguous(regions, total)
    covered = total if ok else -1
    o.check(ok and covered == total, "SliceCommitment::new|layout", "written ranges are contiguous, disjoint and fill all %s bytes" % total, b.span, {"regions": regions})
    srcs = [tuple(n) for (_s, _e, n) in regions]
    o.check(("slot",) in srcs and ("slice_index",) in srcs and ("is_last",) in srcs and any("slice_root" in n for n in srcs), "SliceCommitment::new|sources",
            "one range each for slot, slice_index, is_last and the slice root", b.span, {"sources": srcs})
    widths = {tuple(n): e - s for (s, e, n) in regions}
    o.check(widths.get(("slot",)) == 8 and widths.get(("slice_index",)) == 8 and widths.get(("is_last",)) == 1 and any(w == 32 for n, w in widths.items() if "slice_root" in n),
            "SliceCommitment::new|widths", "8 + 8 + 1 + 32 bytes", b.span, {"widths": {",".join(k): v for k, v in widths.items()}})
    # leader side signs exactly this commitment
    d = prog.body(SH + "data_and_coding_to_output_shreds")
    if d is None:
        o.missing("shredder::data_and_coding_to_output_shreds")
    else:
        sg = [c for c in d.calls() if c.name.endswith("SecretKey::sign_bytes")]
        ok = len(sg) == 1 and K.mentions_call(d.operand_term(sg[0].args[1]), "SliceCommitment::new") and K.mentions_call(d.operand_term(sg[0].args[1]), "get_root")
        o.check(ok, "data_and_coding_to_output_shreds|signs-commitment", "the leader signs SliceCommitment::new(&header, &tree.get_root())", d.span)


def ob_key_provenance(run, oid):
    prog = run.program("lib")
    o = run.ob(oid, "every caller verifies a shred under the key of the leader of that shred's slot",
               "verifying under another validator's key lets a non-leader inject slices for the slot", floor=2)
    sites = [c for c in prog.callers_of(VS + "::try_new") if not c.body.generated]
    if len(sites) < 2:
        o.missing("two call sites of ValidatedShred::try_new (dissemination, repair)")
    for c, key in K.ordinal_keys(sites, lambda c: "%s|ValidatedShred::try_new" % fshort(c.body.defpath)):
        b = c.body
        pk = b.operand_term(c.args[2])
        sh = b.operand_term(c.args[0])
        ok = K.is_field(pk, "pubkey", "ValidatorInfo") and K.mentions_call(pk, "EpochInfo::leader")
        o.check(ok, key + "|leader-key", "pk = epoch_info.leader(slot).pubkey", c.span, {"pk": mir.show(pk)[:160]})
        if not ok:
            continue
        lead = [t for t in mir.walk(pk) if isinstance(t, tuple) and t and t[0] == "call" and t[1].endswith("EpochInfo::leader")][0]
        slot_t = lead[2][1]
        direct = K.mentions_field(slot_t, "slot", "SliceHeader") and (K.peel(sh) in [x for x in mir.walk(slot_t)] or K.mentions(slot_t, lambda t: t == K.peel(sh)))
        guarded = False
        if not direct:
            # repair: the slot is the requested one and header.slot == slot is checked before
            for a in G.guard_atoms(b, c.bb, prog):
                if a[0] == "eq" and a[2] is True and any(K.mentions_field(x, "slot", "SliceHeader") for x in a[1]) and any(K.peel(x) == K.peel(slot_t) or mir.show(K.peel(slot_t)) in mir.show(x) for x in a[1]):
                    guarded = True
        o.check(direct or guarded, key + "|slot-of-this-shred", "the slot is this shred's header.slot (directly, or by an equality check before)", c.span,
                {"slot": mir.show(slot_t)[:120], "guards": K.show_atoms(prog, b, c.bb)[:6]})


def ob_equivocation(run, oid):
    prog = run.program("lib")
    o = run.ob(oid, "commitment cache written only on first sight / own slices; conflicting commitment or last-slice markers => Equivocation before anything is stored; leader flagged only on Equivocation|InvalidShred",
               "a cache overwritten by a later commitment hides equivocation; flagging on other errors blames a correct leader", floor=7)
    ws = {}
    for b in K.bodies_in(prog, A + "consensus::blockstore"):
        for c in b.calls():
            if c.name.endswith("VacantEntry::insert") or c.name.endswith("BTreeMap::insert") or c.name.endswith("::or_insert") or c.name.endswith("::or_insert_with"):
                t = b.operand_term(c.args[0])
                if K.mentions_field(t, "commitment_cache", "BlockData"):
                    ws.setdefault(K.root_fn(b.defpath), []).append(c)
    o.check(set(x.rsplit("::", 1)[-1] for x in ws) == {"add_shred", "add_own_slice"}, "commitment_cache|writers", "commitment_cache is written in BlockData::add_shred and add_own_slice only", "", {"writers": [fshort(x) for x in ws]})
    # every validated dissemination shred of a slot whose leader is not yet flagged reaches BlockData::add_shred (the commitment / last-slice
    # comparison): detection of a conflicting signed shred must not depend on when it arrives (e.g. after the first block was completed)
    sb = prog.body(A + "consensus::blockstore::slot_block_data::SlotBlockData::add_shred_from_dissemination")
    if sb is None:
        o.missing("SlotBlockData::add_shred_from_dissemination")
    else:
        for c in sb.calls_to(A + "consensus::blockstore::slot_block_data::BlockData::add_shred"):
            extra = D.extra_guards(prog, sb, c.bb, [lambda a: a[0] == "bool" and K.is_field(K.peel(a[1][0]), "leader_misbehaved", "SlotBlockData")])
            o.check(not extra, "add_shred_from_dissemination|compare|always", "only the leader-already-flagged test stands before the comparison with the cached commitment", c.span, {"extra": G.atoms_show(extra)})
    # no other mutation of the cache: entries are never removed, cleared or replaced (a forgotten commitment can no longer expose equivocation)
    muts = []
    for mb in K.bodies_in(prog, A + "consensus::blockstore"):
        for c in mb.calls():
            if c.args and K.is_field(K.peel(mb.operand_term(c.args[0])), "commitment_cache", "BlockData"):
                op = c.name.rsplit("::", 1)[-1]
                # calls taking the map mutably: look at the borrow kind of the argument's defining statement
                a0 = c.args[0]
                pl = a0.get("m") or a0.get("c")
                mutable = False
                if pl and not pl["p"]:
                    for d in mb.defs().get(pl["l"], []):
                        if d[0] == "stmt" and d[3]["rv"]["k"] == "ref" and d[3]["rv"].get("mut"):
                            mutable = True
                if mutable:
                    muts.append((K.root_fn(mb.defpath).rsplit("::", 1)[-1], op, c.span))
        for (bb, ow, name, rv, sp, dst) in mb.field_writes():
            if name == "commitment_cache" and ow == BD and not K.root_fn(mb.defpath).endswith("::new"):
                muts.append((K.root_fn(mb.defpath).rsplit("::", 1)[-1], "assign", sp))
    for (fn, op, sp) in muts:
        ok = (fn, op) in (("add_shred", "entry"), ("add_own_slice", "insert"))
        o.check(ok, "commitment_cache|mutation|%s.%s" % (fn, op), "commitment_cache is mutated by %s via %s (allowed: add_shred.entry on first sight, add_own_slice.insert)" % (fn, op), sp)
    b = prog.body(BD + "::add_shred")
    if b is None:
        o.missing("BlockData::add_shred")
        return
    for c in ws.get(BD + "::add_shred", []):
        atoms = G.guard_atoms(b, c.bb, prog)
        o.check(any(a[0] == "variant" and a[1][1] == frozenset(["Vacant"]) for a in atoms), "BlockData::add_shred|cache-insert|vacant", "inserted only when no commitment is cached for the slice", c.span, {"guards": G.atoms_show(atoms)})
        o.check(K.mentions_call(b.operand_term(c.args[1]), "ValidatedShred::commitment"), "BlockData::add_shred|cache-insert|value", "the cached value is this shred's commitment", c.span)
    # storage site(s)
    stores = []
    for (bb, i, dst, rv, sp) in b.assignments():
        t = b.rvalue_term(rv)
        if t[0] == "agg" and t[1] == "core::option::Option" and t[2] == "Some" and K.peel(dict(t[3])["0"]) == ("param", 2, b.local_name(2)) and dst["p"]:
            stores.append((bb, sp))
    if not stores:
        o.fail("BlockData::add_shred|store|missing", "no storage of the shred found", b.span)
    eqs = [(bb, sp) for (bb, rv, sp, dst) in b.aggregates(SBD + "AddShredError", "Equivocation")]
    o.check(len(eqs) >= 2, "BlockData::add_shred|equivocation-sites", "Equivocation is reported for a conflicting commitment and for contradictory last-slice markers", b.span, {"n": len(eqs)})
    got_c = got_l = False
    for (bb, sp) in eqs:
        atoms = G.guard_atoms(b, bb, prog)
        if any(a[0] == "variant" and a[1][1] == frozenset(["Occupied"]) for a in atoms) and any(a[0] == "eq" and a[2] is False and any(K.mentions_call(x, "ValidatedShred::commitment") for x in a[1]) for a in atoms):
            got_c = True
        if any(a[0] == "is_some" and a[2] is True and K.mentions_field(a[1][0], "last_slice", "BlockData") for a in atoms) or any(K.mentions_field(x, "last_slice", "BlockData") for a in atoms for x in a[1] if isinstance(x, tuple)):
            got_l = True
    # ... and for nothing else: Equivocation blames the leader (InvalidBlock). Each site is one of the two cases
    for (bb, sp), key in K.ordinal_keys(eqs, lambda x: "BlockData::add_shred|equivocation-site"):
        atoms = G.guard_atoms(b, bb, prog)
        is_c = any(a[0] == "variant" and a[1][1] == frozenset(["Occupied"]) for a in atoms) and any(a[0] == "eq" and a[2] is False and any(K.mentions_call(x, "ValidatedShred::commitment") for x in a[1]) for a in atoms)
        is_l = any(K.mentions_field(x, "last_slice", "BlockData") for a in atoms for x in a[1] if isinstance(x, tuple))
        o.check(is_c or is_l, key + "|justified", "Equivocation only for a conflicting signed commitment or contradictory signed last-slice markers (never for differences in unsigned bytes)", sp,
                {"guards": G.atoms_show(atoms)[-4:]})
    o.check(got_c, "BlockData::add_shred|equivocation|commitment", "occupied cache entry != this shred's commitment => Equivocation", b.span)
    o.check(got_l, "BlockData::add_shred|equivocation|last-slice", "last-slice marker contradicting the known last slice => Equivocation", b.span)
    for (sbb, ssp) in stores:
        ent = [c.bb for c in b.calls() if c.name.endswith("BTreeMap::entry") and K.mentions_field(b.operand_term(c.args[0]), "commitment_cache", "BlockData")]
        o.check(bool(ent) and all(b.dominates(e, sbb) for e in ent), "BlockData::add_shred|store|after-cache-check", "the commitment check dominates the storage of the shred", ssp)
        o.check(not any(sbb in _reach_after_err(prog, b, ebb) for (ebb, _sp) in eqs), "BlockData::add_shred|store|not-after-equivocation", "nothing is stored on an Equivocation path", ssp)
        # exactness: between the cache lookup and the store, every path either fills a vacant cache entry with this shred's commitment or
        # passes the equality of the cached commitment with this shred's WHOLE commitment (slot, slice index, last flag, root)
        es = b.edges()
        removed_nodes = set(c.bb for c in b.calls() if c.name.endswith("VacantEntry::insert") and K.mentions_field(b.operand_term(c.args[0]), "commitment_cache", "BlockData")
                            and K.mentions_call(b.operand_term(c.args[1]), "ValidatedShred::commitment"))
        removed_edges = []
        for (s_, dterm, dty) in b.switches():
            for v, atoms in G.switch_atoms(b, s_, prog).items():
                for a in atoms:
                    if a[0] == "eq" and a[2] is True and any(K.mentions_field(x, "commitment_cache", "BlockData") and K.mentions_call(x, "OccupiedEntry::get") for x in a[1]) and any(
                            K.peel(x)[0] == "call" and K.peel(x)[1].endswith("ValidatedShred::commitment") for x in a[1]):
                        removed_edges += [i for i, e in enumerate(es) if e[0] == s_ and e[2] == ("sw", v)]
        removed_edges += [i for i, e in enumerate(es) if e[1] in removed_nodes]
        # a block that builds an Err(..) result is on its way out (returned directly or through `?`): not a way to the store
        err_nodes = set(bb2 for (bb2, rv2, sp2, dst2) in b.aggregates("core::result::Result", "Err"))
        removed_edges += [i for i, e in enumerate(es) if e[0] in err_nodes]
        for e0 in ent:
            r_ = b.reachable(e0, removed_edges=removed_edges)
            o.check(bool(removed_nodes) and bool(removed_edges) and sbb not in r_, "BlockData::add_shred|store|only-identical-commitment",
                    "a shred is stored only if its whole commitment equals the cached one, or it is the first of its slice (fills the cache)", ssp)
    # the shred is stored at the array position named by its own (authenticated) shred index
    for (bb, i, dst, rv, sp) in b.assignments():
        t = b.rvalue_term(rv)
        if t[0] == "agg" and t[1] == "core::option::Option" and t[2] == "Some" and K.peel(dict(t[3])["0"]) == ("param", 2, b.local_name(2)) and dst["p"] and dst["p"][-1][0] == "i":
            it = b.local_term(dst["p"][-1][1])
            o.check(K.mentions_field(it, "shred_index", "ShredPayload") and K.mentions(it, lambda x: x == ("param", 2, b.local_name(2))), "BlockData::add_shred|store|position",
                    "stored at slice_shreds[*shred.payload().shred_index] (position == index, asserted by ValidatedShreds::try_new)", sp, {"index": mir.show(it)[:100]})
    # flagging
    for fn in ("add_shred_from_dissemination", "add_shred_from_repair"):
        for fb in prog.family("<" + A + "consensus::blockstore::BlockstoreImpl as " + A + "consensus::blockstore::Blockstore>::" + fn):
            for c in fb.calls():
                if c.name.endswith("BlockstoreImpl::flag_leader_misbehavior") or c.name.endswith("Blockstore>::flag_leader_misbehavior"):
                    names = None
                    for a in G.guard_atoms(fb, c.bb, prog):
                        if a[0] == "variant" and a[1][1] <= {"Duplicate", "Equivocation", "InvalidShred", "TypeMismatch"}:
                            names = set(a[1][1]) if names is None else names & a[1][1]
                    o.check(names is not None and names <= {"Equivocation", "InvalidShred"}, "Blockstore::%s|flag|only-on-misbehaviour" % fn, "leader flagged only on Equivocation | InvalidShred", c.span,
                            {"flagged_on": sorted(names) if names else None, "guards": K.show_atoms(prog, fb, c.bb)[:5]})


def ob_door_equivocation_reported(run, oid):
    """the validation door of the dissemination path sees a conflicting commitment before the blockstore does: it has to report it"""
    prog = run.program("lib")
    o = run.ob(oid, "handle_disseminator_shred flags the leader exactly when ValidatedShred::try_new answers Equivocation (a second validly signed commitment for a cached slice)",
               "the cached commitment is consulted before the blockstore sees the shred, so the blockstore's own equivocation check never fires on this path: if the door only drops "
               "the shred, a leader signing two versions of a slice is never reported; if it flagged on InvalidSignature too, anyone could get a correct leader flagged", floor=2)
    fam = [b for b in prog.family(A + "consensus::Alpenglow::handle_disseminator_shred") if b.is_closure]
    if not fam:
        o.missing("Alpenglow::handle_disseminator_shred")
        return o
    n = 0
    for b in fam:
        for c in b.calls():
            if not c.name.endswith("flag_leader_misbehavior"):
                continue
            n += 1
            names = None
            for a in G.guard_atoms(b, c.bb, prog):
                if a[0] == "variant" and K.mentions_call(a[1][0], "ValidatedShred::try_new") and a[1][1] <= {"Equivocation", "InvalidSignature"}:
                    names = set(a[1][1]) if names is None else names & a[1][1]
            o.check(names == {"Equivocation"}, "handle_disseminator_shred|flag|exactly-on-equivocation", "flag_leader_misbehavior is called on try_new's Equivocation verdict only", c.span, {"on": sorted(names) if names else None})
            slot_ok = len(c.args) >= 2 and K.mentions_field(b.operand_term(c.args[1]), "slot")
            o.check(slot_ok, "handle_disseminator_shred|flag|shreds-slot", "for the shred's own slot", c.span)
    if n == 0:
        o.fail("handle_disseminator_shred|flag|missing", "try_new's Equivocation verdict is dropped without flagging the leader", fam[0].span)
    return o


def ob_layout(run, oid):
    prog = run.program("lib")
    o = run.ob(oid, "ValidatedShreds::try_new: kind must match index, sizes equal and even, before decoding",
               "a coding shard decoded as data (or vice versa) reconstructs garbage / panics inside the decoder", floor=3)
    b = prog.body(SH + "validated_shreds::ValidatedShreds::try_new")
    if b is None:
        o.missing("ValidatedShreds::try_new")
        return
    cs = b.mentioned_fns()
    o.check(any(x.endswith("ValidatedShred::is_data") for x in cs) and any(x.endswith("ValidatedShred::is_coding") for x in cs), "ValidatedShreds::try_new|kind-check", "checks is_data / is_coding against the position", b.span)
    somes = [(bb, sp) for (bb, rv, sp, dst) in b.aggregates(SH + "validated_shreds::ValidatedShreds")]
    for (bb, sp) in somes:
        atoms = G.guard_atoms(b, bb, prog)
        o.check(any(K.mentions_call(x, "is_multiple_of") or K.mentions(x, lambda t: t[0] == "bin" and t[1] == "Rem") for a in atoms for x in a[1] if isinstance(x, tuple)),
                "ValidatedShreds::try_new|even-size", "Some only for a non-zero even shard size", sp, {"guards": G.atoms_show(atoms)[:6]})
    nones = [(bb, sp) for (bb, rv, sp, dst) in b.aggregates("core::option::Option", "None") if dst["l"] == 0]
    o.check(len(nones) >= 3, "ValidatedShreds::try_new|rejections", "rejects odd/zero size, unequal sizes and kind/index mismatch", b.span, {"n": len(nones)})


def ob_consumed_authenticated(run, oid):
    prog = run.program("lib")
    o = run.ob(oid, "consumed is a subset of authenticated: every field / tag consumers read from an admitted shred is covered by the signed commitment or the Merkle derivation, or checked against a covered field before the shred is stored",
               "an unauthenticated field that consumers act on lets anyone who saw one valid shred alter it: here a flipped data/coding tag makes reconstruction fail with InvalidLayout and the correct leader is reported", floor=4)
    owners = {SH + "Shred", SH + "ShredPayload", A + "types::slice::SliceHeader"}
    auth = set()
    for fn in (VS + "::try_new", SH + "Shred::slice_root", SH + "SliceCommitment::new", SH + "Shred::payload"):
        for fb in prog.family(fn):
            for (_bb, ow, n, _sp) in fb.field_reads():
                if ow in owners or ow.startswith(SH + "ShredPayloadType"):
                    auth.add((ow.rsplit("::", 1)[-1] if not ow.startswith(SH + "ShredPayloadType") else "ShredPayloadType", n))
    # the signed/derived set, stated explicitly
    covered = {("Shred", "merkle_path"), ("Shred", "slice_sig"), ("Shred", "payload_type"), ("ShredPayload", "header"), ("ShredPayload", "shred_index"), ("ShredPayload", "data"),
               ("SliceHeader", "slot"), ("SliceHeader", "slice_index"), ("SliceHeader", "is_last"), ("ShredPayloadType", "0")}
    o.ok("authenticated-set", "authenticated fields: %s" % sorted(auth), "", nontrivial=False)
    consumed = {}
    for d, b in prog.bodies.items():
        if b.generated or d.startswith(VS) or d.startswith(SH + "Shred::") or d.startswith(SH + "SliceCommitment"):
            continue
        for (_bb, ow, n, sp) in b.field_reads():
            if ow in owners:
                consumed.setdefault((ow.rsplit("::", 1)[-1], n), []).append((fshort(d), sp))
    for k, users in sorted(consumed.items()):
        o.check(k in auth, "field|%s.%s" % k, "%s.%s (read by %d consumer fn(s)) is covered by the commitment / Merkle derivation" % (k[0], k[1], len(set(u for u, _ in users))), users[0][1],
                {"consumers": sorted(set(u for u, _ in users))[:8]})
    # the data/coding tag: consumers = callers of is_data / is_coding and discriminant matches on ShredPayloadType with distinct arms
    tag_consumers = set()
    for c in prog.callers_of([VS + "::is_data", VS + "::is_coding", SH + "Shred::is_data", SH + "Shred::is_coding"]):
        if not (c.body.defpath.startswith(VS) or c.body.defpath.startswith(SH + "Shred::")):
            tag_consumers.add(K.root_fn(c.body.defpath))
    for d, b in prog.bodies.items():
        if b.generated or d.startswith(SH + "Shred::") or d.startswith(VS):
            continue
        for (s, dterm, dty) in b.switches():
            info = G._discr_info(b, s)
            if info and info[0] == SH + "ShredPayloadType":
                tag_consumers.add(K.root_fn(d))
    # is the tag authenticated by try_new? (a guard on it on the Ok path / it flows into the commitment)
    tnb = prog.body(VS + "::try_new")
    tag_in_validator = False
    if tnb is not None:
        for c in tnb.calls():
            if c.name in (SH + "Shred::is_data", SH + "Shred::is_coding"):
                tag_in_validator = True
    run.notes.append("O12.6: tag consumers: %s ; tag tested by the validator: %s" % (sorted(fshort(x) for x in tag_consumers), tag_in_validator))
    if tag_consumers and not tag_in_validator:
        # then every function that stores a network-derived shred into BlockData.shreds must check tag against index first
        b = prog.body(BD + "::add_shred")
        if b is None:
            o.missing("BlockData::add_shred")
            return
        stores = []
        for (bb, i, dst, rv, sp) in b.assignments():
            t = b.rvalue_term(rv)
            if t[0] == "agg" and t[1] == "core::option::Option" and t[2] == "Some" and K.peel(dict(t[3])["0"]) == ("param", 2, b.local_name(2)) and dst["p"]:
                stores.append((bb, sp))
        for (sbb, ssp) in stores:
            g = None
            for a in G.guard_atoms(b, sbb, prog):
                if a[0] == "eq" and a[2] is True:
                    xs = a[1]
                    has_tag = any(K.mentions_call(x, "is_data") or K.mentions_call(x, "is_coding") for x in xs)
                    has_idx = any(K.mentions_field(x, "shred_index", "ShredPayload") for x in xs)
                    if has_tag and has_idx:
                        g = a
            o.check(g is not None, "tag|%s|store|checked-against-index" % fshort(b.defpath),
                    "the unauthenticated data/coding tag is checked against the (authenticated) shred index before the shred is stored", ssp,
                    {"tag_consumers": sorted(fshort(x) for x in tag_consumers), "guards": K.show_atoms(prog, b, sbb)[:6]})
            if g is not None:
                cst = [x for x in mir.consts_in(g[1][0]) + mir.consts_in(g[1][1]) if x[0] == "const" and len(x) > 3 and x[3].endswith("DATA_OUTPUT_SHREDS")]
                o.check(bool(cst) or "DATA_OUTPUT_SHREDS" in mir.show(g[1][0]) + mir.show(g[1][1]), "tag|%s|store|against-data-count" % fshort(b.defpath), "data iff index < DATA_OUTPUT_SHREDS of the shredder in use", ssp)
        # other writers of BlockData.shreds store locally produced shreds only
        w = K.all_field_writers(prog, BD).get("shreds", {})
        names = set(x.rsplit("::", 1)[-1] for x in w)
        o.check(names <= {"add_shred", "add_own_slice", "mark_last_slice", "try_reconstruct_slice", "new"}, "tag|BlockData.shreds|writers", "BlockData.shreds is written only by add_shred (checked), add_own_slice (own shreds), reconstruction and pruning", "",
                {"writers": sorted(names)})
    elif tag_consumers:
        o.ok("tag|validated", "the tag is tested by ValidatedShred::try_new", "")


def check(run):
    ob_cache_argument(run, "O12.7")
    ob_verdict_table(run, "O12.1")
    ob_commitment_coverage(run, "O12.2")
    ob_key_provenance(run, "O12.3")
    ob_equivocation(run, "O12.4")
    ob_layout(run, "O12.5")
    ob_consumed_authenticated(run, "O12.6")
    # "payload at its shred index is proven under that root; replay under another index is rejected": decided by the Merkle walk
    # (side selected by the index bit, ordered and labelled pair hash, index domain)
    from . import C15
    C15.check(run, prefix="O12.8")
    # "no shred that passes validation for a correct leader's slice can cause that leader to be reported": the block-level gates that turn
    # validated shreds into InvalidShred (parent switch rules) refuse only what a correct leader never produces
    from . import C13
    C13.ob_content_gates(run, "O12.9")
    # "a correct leader is never flagged": a set of shreds that each passed ValidatedShred::try_new must not be refused by the layout check in front of
    # the decoder for a reason an attacker controls (anything but position / kind / size) - a failed deshred is blamed on the leader
    from . import C11 as _C11
    _C11.ob_validated_set(run, "O12.10")
    C13.ob_error_mapping(run, "O12.11")
    ob_door_equivocation_reported(run, "O12.14")
    C13.ob_flag_callers(run, "O12.16")
    # a correct leader is never flagged: the blockstore's own bookkeeping of slices may refuse a reconstructed slice for the reviewed reasons only
    # (mutation map of BlockData / SlotBlockData), and the decoder of a slice's transactions admits everything a slice can carry
    D.ob_state_mutations(run, "O12.12", ['consensus::blockstore::slot_block_data::BlockData', 'consensus::blockstore::slot_block_data::SlotBlockData'],
                         'a new refusal or removal in the slice bookkeeping turns valid leader-signed shreds into an InvalidShred verdict, which is blamed on the leader')
    from . import C19 as _C19s
    with run.restricted(lambda oid: oid == "O12.13.1"):
        _C19s.check(run, prefix="O12.13")
    if run.tier == "thorough":
        witness(run, "O12.1w")


def witness(run, oid):
    o = run.ob(oid, "type-level witnesses (compile_fail doctests with compiling twins)", "the type system carries this part of the property across module boundaries", floor=3)
    from engine import witness as W
    res = W.run_witness()
    if len(res) == 1 and res[0][0].startswith("skipped"):
        o.ok("witness|skipped", res[0][2], "", nontrivial=False)
        o.floor = 1
        return
    for name, ok, detail in W.expect(['ValidatedShredLiteralFails', 'ValidatedShredLiteralTwin', 'NewValidatedPrivateFails'], res):
        o.check(ok, "witness|" + name, "doctest %s behaves as expected (%s)" % (name, "must not compile" if name.endswith("Fails") else "compiles"), "witness/src/lib.rs", {"detail": detail})


def _reach_after_err(prog, b, ebb):
    """blocks reachable from the block that builds an error value, knowing that a `?` applied to that very error value takes
    its Break edge (Try::branch(Err(e)) is Break): the Continue edges of such switches are not followed"""
    es = b.edges()
    # locals that hold the error built at ebb: the Result::Err aggregate fed by it (same block or goto successors)
    err_locals = set()
    frontier = [ebb]
    seen = set()
    while frontier:
        x = frontier.pop()
        if x in seen or len(seen) > 6:
            continue
        seen.add(x)
        for st in b.blocks[x]["stmts"]:
            if st["k"] == "assign" and st["rv"]["k"] == "agg" and str(st["rv"].get("adt", "")).endswith("result::Result") and st["rv"].get("variant") == "Err" and not st["dst"]["p"]:
                err_locals.add(st["dst"]["l"])
        t = b.blocks[x]["term"]
        if t["k"] == "goto":
            frontier.append(t["t"])
    removed = []
    if err_locals:
        for c in b.calls():
            if c.name.endswith("Try>::branch") or c.name.endswith("Try::branch"):
                a0 = c.raw["args"][0]
                pl = a0.get("m") or a0.get("c")
                if pl and not pl["p"] and pl["l"] in err_locals:
                    res = c.dst["l"]
                    for (s_, dterm, dty) in b.switches():
                        sa = G.switch_atoms(b, s_, prog)
                        for v, atoms in sa.items():
                            for a in atoms:
                                if a[0] == "variant" and a[1][1] == frozenset(["Continue"]) and K.mentions(a[1][0], lambda x: x[0] == "call" and len(x) > 3 and x[3] == c.bb):
                                    removed += [i for i, e in enumerate(es) if e[0] == s_ and e[2] == ("sw", v)]
    return b.reachable(ebb, removed_edges=removed)


def ob_cache_argument(run, oid):
    """who may hand ValidatedShred::try_new a 'cached commitment' (which skips the signature check on a match)"""
    prog = run.program("lib")
    o = run.ob(oid, "the commitment handed to ValidatedShred::try_new as 'cached' is None or the blockstore's cached commitment for that slot/slice - never one built from the shred itself",
               "a cached commitment shortcuts signature verification when it equals the shred's own commitment: one derived from the shred always matches, so any unsigned shred "
               "with a consistent Merkle proof would be accepted as the leader's", floor=2)
    sites = [c for d, bd in prog.bodies.items() if not bd.generated for c in bd.calls() if c.name == VS + "::try_new"]
    if len(sites) < 2:
        o.missing("two call sites of ValidatedShred::try_new (dissemination, repair)")
    for c, key in K.ordinal_keys(sites, lambda c: "%s|ValidatedShred::try_new" % fshort(c.body.defpath)):
        b = c.body
        t = b.operand_term(c.args[1])
        pv = b.provenance(t, depth=8)
        is_none = K.peel(t)[0] == "agg" and K.peel(t)[2] == "None" and not pv["calls"]
        from_store = any(x.endswith("Blockstore::cached_commitment") for x in pv["calls"])
        built = any(x.endswith("SliceCommitment::new") or x.endswith("ValidatedShred::commitment") for x in pv["calls"]) or any(str(a[0]).endswith("SliceCommitment") for a in pv["aggs"])
        shred_arg = b.operand_term(c.args[0])
        o.check((is_none or from_store) and not built, key + "|cached-argument", "cached commitment is None, or read from the blockstore's cache (not constructed here)", c.span,
                {"term": mir.show(t)[:160]})
        if from_store:
            cc = [x for x in mir.walk(t) if isinstance(x, tuple) and x and x[0] == "call" and x[1].endswith("Blockstore::cached_commitment")]
            okk = bool(cc) and K.mentions_field(cc[0][2][1], "slot", "SliceHeader") and K.mentions_field(cc[0][2][2], "slice_index", "SliceHeader")
            o.check(okk, key + "|cache-key", "looked up under the shred's own (slot, slice index)", c.span)
