"""C20 — execution state: persistent map semantics, fork isolation, content commitment (structural part)."""
from engine import effects
from engine import guards as G
from engine import mir
from . import common as K
from . import detectors as D
from .common import A, fshort

EXPLANATION = (
    "Decides O20.1-O20.3: fork isolation by typing - execution::state contains no unsafe code, State/Node/Branch/Leaf are "
    "Freeze (no interior mutability), the only calls producing a mutable reference into a shared Arc<Node> are "
    "Arc::make_mut / Arc::get_mut (no get_mut_unchecked, as_ptr, from_raw, transmute, raw-pointer casts), and no public "
    "function of the module hands out &mut Node / Arc<Node>; under these Rust's aliasing rules give 'a fork never observes a "
    "later write of another fork' (thorough tier adds compile_fail witnesses). Commitment algebra: AddAssign/SubAssign "
    "are lane-wise wrapping_add/wrapping_sub over the zip of all lanes, observe = remove(old) then add(new), entries hash "
    "(key, value) of their own arguments. Engine determinism: no ambient effect reachable from DummyExecution's operations, "
    "blocks kept in an ordered map, block seed = parent's computed hash, else parent block hash, else genesis; transactions "
    "folded in order. Map semantics, canonical structure and commitment == recomputation over all operation sequences are NOT decided."
)

ST = A + "execution::state::"
CM = A + "execution::commitment::"
EX = A + "execution::"


def ob_finalize_retention(run, oid):
    """DummyExecution::finalize: which tracked blocks survive"""
    from engine import paths
    prog = run.program("lib")
    o = run.ob(oid, "finalize keeps every tracked block whose slot is >= the finalized slot - in particular the finalized block itself - whatever way it arrived (pending or known by hash)",
               "a child that begins after finalize is seeded from the parent's tracked commitment; dropping the parent's entry for one kind of arrival makes the child's commitment depend on how "
               "the parent was delivered", floor=2)
    fam = [b for b in prog.family("<" + EX + "DummyExecution as " + EX + "ExecutionEngine>::finalize")]
    cl = [b for b in fam if b.is_closure]
    rets = [c for b in fam for c in b.calls() if c.name.rsplit("::", 1)[-1] == "retain" and K.mentions_field(b.operand_term(c.args[0]), "blocks")]
    o.check(len(rets) == 1 and len(cl) == 1, "finalize|retain", "one retain over the tracked blocks", fam[0].span if fam else "")
    for b in cl:
        rows = paths.decision_table(b, prog)
        bad = []
        for atoms, ret, _bl in rows:
            other = [a for a in atoms if not D.is_structural_atom(a)]
            if other:
                bad.append("depends on %s" % G.atoms_show(other)[:2])
                continue
            t = K.peel(ret) if ret is not None else None
            is_slot = lambda x: K.mentions_call(x, "slot") and K.mentions(x, lambda y: y[0] == "param")
            is_fin = lambda x: K.mentions(x, lambda y: y[0] == "upvar") and not K.mentions(x, lambda y: y[0] == "param")

            def val(x, sv, fv):
                """truth value of a comparison term over (entry slot = sv, finalized slot = fv); None = not understood"""
                x = K.peel(x)
                if isinstance(x, tuple) and x and x[0] == "un" and str(x[1]) == "Not":
                    v = val(x[2], sv, fv)
                    return None if v is None else (not v)
                if isinstance(x, tuple) and x and x[0] == "const" and x[2] in (0, 1):
                    return bool(x[2])
                if isinstance(x, tuple) and x and ((x[0] == "call" and len(x[2]) == 2) or x[0] == "bin"):
                    op = x[1].rsplit("::", 1)[-1].lower()
                    a0, a1 = (x[2][0], x[2][1]) if x[0] == "call" else (x[2], x[3])
                    n0 = sv if is_slot(a0) else (fv if is_fin(a0) else None)
                    n1 = sv if is_slot(a1) else (fv if is_fin(a1) else None)
                    if n0 is None or n1 is None or op not in ("ge", "le", "gt", "lt", "eq", "ne"):
                        return None
                    return {"ge": n0 >= n1, "le": n0 <= n1, "gt": n0 > n1, "lt": n0 < n1, "eq": n0 == n1, "ne": n0 != n1}[op]
                return None
            vs = [val(t, sv, 5) for sv in (4, 5, 6)] if t is not None else [None]
            ok = vs == [False, True, True]
            if not ok:
                bad.append("keeps when %s (slot below / at / above the finalized slot: %s)" % (mir.show(t)[:70] if t is not None else None, vs))
        o.check(not bad and bool(rows), "finalize|keeps-from-finalized-slot", "kept iff entry.slot() >= finalized slot, for every kind of entry", b.span, {"problems": bad[:3]})


# panic sites of the execution module on the reviewed tree: (fn, kind, what) -> (count, reason). The trie's own sites rest on its shape invariants (bitmap <-> children
# vector, a branch has >= 2 entries, ..), which the crate's randomized differential tests exercise and which are NOT decided here; what this table decides is that no NEW
# way to panic appears in the read / write API (a lookup, an iteration or a length query of any state, the empty one included, answers - it does not abort)
EXEC_PANICS = {
    ("execution::commitment::LtHash::add_entry", "arith", "add_assign LtHash"): (1, "lane-wise wrapping addition (O20.2): cannot overflow"),
    ("execution::commitment::LtHash::remove_entry", "arith", "sub_assign LtHash"): (1, "lane-wise wrapping subtraction (O20.2)"),
    ("execution::commitment::LtHash::digest", "method", "slice::chunks_exact_mut"): (1, "chunk size is the constant 2"),
    ("execution::commitment::LtHash::digest", "method", "slice::copy_from_slice"): (1, "2-byte chunk <- u16::to_le_bytes()"),
    ("execution::commitment::LtHash::digest", "index", "[u8; 2048][_]"): (1, "bytes[2 * i..2 * i + 2] with i < NUM_LANES over the [u8; 2 * NUM_LANES] buffer (index spelling of chunks_exact_mut(2).zip(lanes))"),
    ("execution::commitment::LtHash::hash_entry", "method", "slice::chunks_exact_mut"): (1, "constant chunk size LANES_PER_BLOCK"),
    ("execution::commitment::LtHash::hash_entry", "method", "slice::chunks_exact"): (1, "constant chunk size 2"),
    ("execution::commitment::LtHash::hash_entry", "assert", "BoundsCheck"): (2, "pair[0], pair[1] of a chunks_exact(2) chunk"),
    ("execution::state::Branch::insert_child", "panic", "panicking::panic"): (1, "trie shape invariant (slot not occupied): debug assertion"),
    ("execution::state::Branch::remove_child", "panic", "panicking::panic"): (1, "trie shape invariant (slot occupied): debug assertion"),
    ("execution::state::State::get", "index", "SmallVec<[Arc<Node>; 4]>[_]"): (1, "child position = popcount of the bitmap below an occupied bit < children.len() (bitmap <-> children invariant)"),
    ("execution::state::State::insert_rec", "panic", "panicking::panic"): (2, "unreachable!() arms of the node match / depth bound (keys differ within 256 bits)"),
    ("execution::state::State::insert_rec", "index", "SmallVec<[Arc<Node>; 4]>[_]"): (1, "bitmap <-> children invariant"),
    ("execution::state::State::remove", "unwrap", "Option::expect"): (1, "remove_rec returns a value whenever the key was found (checked before the call)"),
    ("execution::state::State::remove_rec", "panic", "panicking::panic"): (1, "unreachable!() arm"),
    ("execution::state::State::remove_rec", "index", "SmallVec<[Arc<Node>; 4]>[_]"): (4, "bitmap <-> children invariant"),
    ("execution::state::chunk_at", "panic", "panicking::panic"): (1, "depth bound assertion (depth < 52: keys are 256 bits, 5 bits per level)"),
    ("execution::state::chunk_at", "assert", "DivisionByZero"): (2, "division by the constant 8"),
    ("execution::state::chunk_at", "assert", "RemainderByZero"): (1, "remainder by the constant 8"),
    ("execution::state::chunk_at", "assert", "BoundsCheck"): (1, "byte index < 32 for depth < 52 (O20.6 evaluates chunk_at for every depth)"),
    ("execution::state::split_leaves", "panic", "panicking::panic"): (1, "two different keys differ within 256 bits"),
    ("execution::state::take_leaf_value", "panic", "panicking::panic"): (2, "called on a uniquely owned leaf only (caller matched it)"),
}


def ob_exec_panics(run, oid):
    from engine import panics
    from . import panic_review
    prog = run.program("lib")
    o = run.ob(oid, "no new way to panic in the execution module: every panic site of execution::{state, commitment} is one of the reviewed ones",
               "'answers lookups, length and ordered iteration exactly like an ordinary ordered map': a map never aborts on a lookup, an iteration or a length query - of any state, "
               "the empty one included", floor=15)
    roots = [d for d, b in prog.bodies.items() if d.startswith(A + "execution::state::") or d.startswith(A + "execution::commitment::")]
    roots = [d for d in roots if "::tests::" not in d and not prog.bodies[d].generated]
    if not roots:
        o.missing("execution::state / execution::commitment")
        return o
    panics.review(o, prog, roots, EXEC_PANICS, fshort, scope=lambda d: d.startswith(A + "execution::"), auto=panic_review.auto)
    return o


def check(run):
    ob_exec_panics(run, "O20.11")
    ob_finalize_retention(run, "O20.10")
    from . import detectors as _DC
    _DC.ob_narrowing_casts(run, "O20.9", ['execution::'], 'trie chunk indices and bitmap positions are small by construction (masked); anything else that is narrowed loses key bits')
    from . import detectors as _DS
    _DS.ob_structural_impls(run, "O20.8", ['execution::', 'crypto::hash'], 'state commitments and account keys are compared and ordered structurally: a partial comparison merges distinct states')
    from . import detectors as _DL
    _DL.ob_loop_exits(run, "O20.7", ['execution'], 'trie walks and per-transaction loops visit every element: a loop that stops early gives a state that depends on iteration order')
    D.ob_state_mutations(run, "O20.4", ['execution::DummyExecution', 'execution::BlockExec'], 'block execution records are written once per block and folded in order')
    prog = run.program("lib")
    ob_trie_lookup(run, "O20.5")
    ob_trie_arith(run, "O20.6")

    # ------------------------------------------------------------------ O20.1
    o = run.ob("O20.1", "fork isolation by typing: no unsafe, Freeze nodes, only Arc::make_mut/get_mut yield &mut into shared nodes, no &mut Node / Arc<Node> escapes",
               "any other way to mutate a node that two forks share makes a write on one fork visible in the other", floor=12)
    bodies = K.bodies_in(prog, ST, include_derived=True)
    if not bodies:
        o.missing("module execution::state")
    nunsafe = [(fshort(b.defpath), b.rec.get("unsafe_blocks", 0), b.rec.get("unsafe_fn")) for b in bodies if b.rec.get("unsafe_blocks", 0) or b.rec.get("unsafe_fn")]
    o.check(not nunsafe, "state|no-unsafe", "no unsafe block or unsafe fn in execution::state (%d bodies)" % len(bodies), "", {"unsafe": nunsafe})
    for nm in ("State", "Node", "Branch", "Leaf"):
        r = prog.adts.get(ST + nm)
        if r is None:
            o.missing("type execution::state::" + nm)
            continue
        o.check(r.get("freeze") is True, "%s|freeze" % nm, "%s is Freeze (contains no interior mutability)" % nm, r["span"], {"freeze": r.get("freeze")})
        if nm != "State":
            o.check(r["vis"] != "Public", "%s|private" % nm, "%s is not public" % nm, r["span"], {"vis": r["vis"]})
        for v in r["variants"]:
            for f in v["fields"]:
                bad = any(x in f["ty"] for x in ("Cell<", "RefCell<", "Mutex<", "RwLock<", "Atomic", "UnsafeCell", "*mut ", "*const ", "OnceCell", "OnceLock"))
                o.check(not bad and f["vis"] != "Public", "%s.%s|plain-private" % (nm, f["name"]), "%s.%s: %s (private, no cell/lock/raw pointer)" % (nm, f["name"], f["ty"].replace("alpenglow::", "")), r["span"])
    ALLOWED_MUT = ("alloc::sync::Arc::make_mut", "alloc::sync::Arc::get_mut")
    FORBIDDEN = ("get_mut_unchecked", "Arc::as_ptr", "Arc::into_raw", "Arc::from_raw", "Arc::increment_strong_count", "Arc::decrement_strong_count", "mem::transmute", "ptr::", "UnsafeCell", "as_mut_ptr", "NonNull")
    arc_calls = {}
    for b in bodies:
        for c in b.calls():
            if "alloc::sync::Arc" in c.name or any(f in c.name for f in FORBIDDEN):
                arc_calls.setdefault(c.name, []).append(c.span)
        for (bb, i, dst, rv, sp) in b.assignments():
            if rv["k"] == "rawptr" or (rv["k"] == "cast" and rv["ck"] in ("Transmute", "PtrToPtr")):
                arc_calls.setdefault("raw-pointer/transmute rvalue", []).append(sp)
    for nm, sps in sorted(arc_calls.items()):
        safe = nm in ALLOWED_MUT or nm.rsplit("::", 1)[-1] in ("new", "clone", "as_ref", "deref", "try_unwrap", "ptr_eq", "eq", "ne", "fmt", "drop", "default") or "Deref>::deref" in nm or "AsRef" in nm or "Clone>::clone" in nm
        o.check(safe and not any(f in nm for f in FORBIDDEN), "arc-call|%s" % nm.replace("alloc::sync::", ""), "%s (%d site(s)) cannot alias-mutate a shared node" % (nm.replace("alloc::sync::", ""), len(sps)), sps[0])
    mm = [c for b in bodies for c in b.calls() if c.name in ALLOWED_MUT]
    o.check(len(mm) >= 3, "arc-call|make_mut-is-the-writer", "mutation goes through Arc::make_mut (copy-on-write) at %d sites" % len(mm), mm[0].span if mm else "")
    for b in bodies:
        if b.is_closure or b.generated:
            continue
        sig = b.rec.get("sig", "")
        ret = sig.split("->")[-1] if "->" in sig else ""
        if b.rec.get("vis") == "Public":
            bad = ("mut alpenglow::execution::state::Node" in ret) or ("Arc<alpenglow::execution::state::Node" in ret) or ("mut alpenglow::execution::state::Branch" in ret)
            o.check(not bad, "%s|no-node-escape" % fshort(b.defpath), "public fn does not return &mut Node / Arc<Node>", b.span, {"returns": ret.strip()[:120]})

    # ------------------------------------------------------------------ O20.2
    o = run.ob("O20.2", "commitment algebra: lane-wise wrapping add/sub over all lanes; observe = remove(old) then add(new); entry hash of (key, value)",
               "a non-wrapping or partial-lane operation makes the commitment order dependent or panics on overflow; a wrong observe drifts from the recomputed commitment", floor=7)
    LT = CM + "LtHash"
    for trait, op, inv in (("AddAssign", "wrapping_add", "wrapping_sub"), ("SubAssign", "wrapping_sub", "wrapping_add")):
        bs = [x for d, x in prog.bodies.items() if d.startswith("<" + LT + " as core::ops::arith::" + trait) and not x.is_closure]
        if not bs:
            o.missing("impl %s for LtHash" % trait)
            continue
        b = bs[0]
        cs = set(c.name.rsplit("::", 1)[-1] for fb in prog.family(b.defpath) for c in fb.calls())
        o.check(op in cs and inv not in cs and not any(x in cs for x in ("add", "sub", "saturating_add", "saturating_sub", "checked_add", "checked_sub")), "LtHash::%s|wrapping" % trait, "%s uses %s on every lane" % (trait, op), b.span, {"calls": sorted(cs)})
        z = [c for c in b.calls() if c.name.endswith("Iterator::zip")]
        ok = len(z) == 1 and K.mentions_field(b.operand_term(z[0].args[0]), "lanes", "LtHash") and K.mentions_field(b.operand_term(z[0].args[1]), "lanes", "LtHash")
        if not ok and not z:
            # index form: `for i in 0..NUM_LANES { self.lanes[i] = self.lanes[i].<op>(rhs.lanes[i]) }` - the range covers the whole array and one
            # index is used on both sides
            nl = prog.const_int(CM + "NUM_LANES")
            full = False
            for (bb, rv, sp, dst) in b.aggregates():
                if rv.get("ak") == "adt" and rv["adt"].endswith("ops::range::Range"):
                    ts = [b.operand_term(x) for x in rv["ops"]]
                    end = K.const_eval(ts[1])
                    if end is None and isinstance(K.peel(ts[1]), tuple) and K.peel(ts[1])[0] == "call" and K.peel(ts[1])[1].rsplit("::", 1)[-1] == "len" and K.mentions_field(ts[1], "lanes", "LtHash"):
                        end = nl
                    full = K.const_eval(ts[0]) == 0 and nl is not None and end == nl
            same_index = False
            for (bb, i, dst, rv, sp) in b.assignments():
                if not dst["p"]:
                    continue
                dt = b.place_term(dst)
                if isinstance(dt, tuple) and dt and dt[0] == "index" and K.mentions_field(dt[1], "lanes", "LtHash"):
                    vt = b.rvalue_term(rv)
                    ixs = [x[2] for x in mir.walk(vt) if isinstance(x, tuple) and x and x[0] == "index" and K.mentions_field(x[1], "lanes", "LtHash")]
                    same_index = len(ixs) == 2 and all(x == dt[2] for x in ixs) and K.mentions(dt[2], lambda y: isinstance(y, tuple) and y and y[0] == "call" and y[1].endswith("::next"))
            ok = full and same_index
        o.check(ok, "LtHash::%s|all-lanes" % trait, "iterates self.lanes zipped with rhs.lanes (no take/skip/step), or indexes both with one index over 0..NUM_LANES", b.span)
        o.check(not any(x in cs for x in ("take", "skip", "step_by", "chunks", "split_at")), "LtHash::%s|no-partial" % trait, "no partial traversal of the lanes", b.span)
        ov = [bl for bl in b.blocks if bl["term"]["k"] == "assert" and bl["term"]["ak"].startswith("Overflow")]
        o.check(not ov, "LtHash::%s|no-checked-arith" % trait, "no overflow-checked arithmetic in the lane update", b.span)
    for fn, op in (("add_entry", "AddAssign"), ("remove_entry", "SubAssign")):
        b = prog.body(LT + "::" + fn)
        if b is None:
            o.missing("LtHash::" + fn)
            continue
        he = b.calls_to(LT + "::hash_entry")
        ok = len(he) == 1 and b.operand_term(he[0].args[0]) == ("param", 2, b.local_name(2)) and b.operand_term(he[0].args[1]) == ("param", 3, b.local_name(3))
        o.check(ok, "LtHash::%s|hashes-own-args" % fn, "%s hashes (key, value) of its own arguments" % fn, b.span)
        ops = [c for c in b.calls() if op + "<" in c.callee_args or c.name.endswith(op + ">::" + ("add_assign" if op == "AddAssign" else "sub_assign")) or c.name.endswith("::" + ("add_assign" if op == "AddAssign" else "sub_assign"))]
        o.check(len(ops) == 1, "LtHash::%s|op" % fn, "%s applies %s exactly once" % (fn, op), b.span)
        for c in ops:
            ex = D.extra_guards(prog, b, c.bb, [])
            o.check(not ex and b.always_followed_by(0, [c.bb]), "LtHash::%s|unconditional" % fn, "%s folds the entry in / out on every path, whatever the commitment currently is (the identity included: "
                    "a per-block delta starts from it)" % fn, c.span, {"extra": G.atoms_show(ex)})
    b = prog.body(LT + "::observe")
    if b is None:
        o.missing("LtHash::observe")
    else:
        rm = b.calls_to(LT + "::remove_entry")
        ad = b.calls_to(LT + "::add_entry")
        ok = len(rm) == 1 and len(ad) == 1
        if ok:
            ok = any(a[0] == "is_some" and a[2] and K.peel(a[1][0]) == ("param", 3, b.local_name(3)) for a in G.guard_atoms(b, rm[0].bb, prog)) and \
                 any(a[0] == "is_some" and a[2] and K.peel(a[1][0]) == ("param", 4, b.local_name(4)) for a in G.guard_atoms(b, ad[0].bb, prog)) and \
                 not b.can_reach(ad[0].bb, rm[0].bb)
        o.check(bool(ok), "LtHash::observe|remove-then-add", "observe removes the old value (if any), then adds the new one (if any), for the same key", b.span)
        if len(rm) == 1 and len(ad) == 1:
            # exactly: remove <=> old is Some ; add <=> new is Some  (an empty value is a value; nothing else may skip an update)
            for c, pos, nm in ((rm[0], 3, "remove"), (ad[0], 4, "add")):
                extra = D.extra_guards(prog, b, c.bb, [lambda a, pos=pos: a[0] in ("is_some", "variant") and K.peel(a[1][0]) == ("param", pos, b.local_name(pos))])
                o.check(not extra, "LtHash::observe|%s|exactly-when-present" % nm, "%s_entry runs whenever that side is Some (no shortcut skips it: Some(empty) differs from None)" % nm, c.span,
                        {"extra": G.atoms_show(extra)})
                a1, a2 = b.operand_term(c.args[1]), b.operand_term(c.args[2])
                o.check(K.is_arg(b, a1, 2) and K.mentions_arg(b, a2, pos) and not K.mentions_arg(b, a2, 7 - pos), "LtHash::observe|%s|args" % nm, "%s_entry(key, that side's value)" % nm, c.span)
    hb = prog.body(LT + "::hash_entry")
    if hb is not None:
        ha = [c for c in hb.calls() if c.name == A + "crypto::hash::hash_all"]
        ok = bool(ha) and K.mentions(hb.operand_term(ha[0].args[0]), lambda t: t == ("param", 1, hb.local_name(1))) and K.mentions(hb.operand_term(ha[0].args[0]), lambda t: t == ("param", 2, hb.local_name(2)))
        o.check(ok, "LtHash::hash_entry|seed", "the per-entry hash is seeded with (key, value)", hb.span)

    # ------------------------------------------------------------------ O20.3
    o = run.ob("O20.3", "engine determinism: no ambient effects, ordered block map, seed = parent's computed hash / parent block hash / genesis, transactions folded in order",
               "a commitment that depends on anything but the parent's commitment and the transaction sequence differs between nodes executing the same block", floor=6)
    DE = EX + "DummyExecution"
    ops = [d for d in prog.bodies if d.startswith("<" + DE + " as " + EX + "ExecutionEngine>::") and not prog.bodies[d].is_closure]
    if len(ops) < 4:
        o.missing("DummyExecution's four ExecutionEngine operations")
    for d in sorted(ops):
        U, eff = effects.reachable_effects(prog, [d])
        if not eff:
            o.ok("%s|no-ambient" % fshort(d), "no ambient effect among %d reachable bodies" % len(U), prog.bodies[d].span)
        for dd, es in eff.items():
            for (e, callee, sp, bb) in es:
                o.fail("%s|%s|%s" % (fshort(d), e, fshort(dd)), "%s (%s) reachable from %s" % (e, callee, fshort(d)), sp)
    r = prog.adts.get(DE)
    if r:
        f = [x for x in r["variants"][0]["fields"] if x["name"] == "blocks"]
        o.check(bool(f) and "BTreeMap<" in f[0]["ty"], "DummyExecution.blocks|ordered", "blocks are kept in an ordered map", r["span"], {"type": f[0]["ty"][:80] if f else None})
    bb_ = [prog.bodies[d] for d in ops if d.endswith("::begin_block")]
    for b in bb_:
        fam = prog.family(b.defpath)
        ins = [c for c in b.calls() if c.name.endswith("BTreeMap::insert")]
        ok = False
        det = {}
        for c in ins:
            v = b.operand_term(c.args[2])
            if v[0] == "agg" and v[1].endswith("BlockExec"):
                sh = dict(v[3])["state_hash"]
                pv = b.provenance(sh)
                calls = set(x.rsplit("::", 1)[-1] for x in pv["calls"])
                det = {"calls": sorted(calls)}
                names = set(b.local_name(i) for i in range(1, b.argc + 1))
                pname = b.local_name(3)
                reads_parent_commitment = any(n == "state_hash" and ow.endswith("BlockExec") for (ow, n) in pv["fields"]) or any(
                    n == "state_hash" and ow.endswith("BlockExec") for fb2 in fam for (_b2, ow, n, _sp2) in fb2.field_reads())
                ok = pname in pv["params"] and reads_parent_commitment and any(x.endswith("BTreeMap::get") for x in pv["calls"] | set(
                    c2.name for fb2 in fam for c2 in fb2.calls()))
        o.check(ok, "begin_block|seed-chain", "the new block's state_hash is derived from the parent argument through a lookup of the parent's BlockExec.state_hash (any spelling)", b.span, det)
        reads = set()
        consts = set()
        for fb in fam:
            for (_b, ow, n, _sp) in fb.field_reads():
                reads.add((ow.rsplit("::", 1)[-1], n))
            for c in fb.calls():
                for a in c.args:
                    for x in mir.consts_in(fb.operand_term(a)):
                        consts.add(x[1] if x[0] == "cref" else (x[3] if len(x) > 3 else ""))
            for (bb2, i, dst, rv, sp) in fb.assignments():
                for x in mir.consts_in(fb.rvalue_term(rv)):
                    consts.add(x[1] if x[0] == "cref" else (x[3] if len(x) > 3 else ""))
        o.check(("BlockExec", "state_hash") in reads, "begin_block|parent-commitment", "the seed is the parent's computed state_hash when the parent was executed", b.span, {"reads": sorted(reads)})
        # ... for EVERY tracked parent: nothing about the parent's record (how many transactions it has seen, ..) decides whether its
        # commitment is used - an empty block's commitment is its seed, which is still not its block hash
        other = sorted(n for (ow, n) in reads if ow == "BlockExec" and n != "state_hash")
        narrowing = sorted(set(c.name.rsplit("::", 1)[-1] for fb in fam for c in fb.calls() if c.name.rsplit("::", 1)[-1] in ("filter", "take_if", "filter_map", "is_some_and", "is_none_or") and "option::Option" in c.name))
        o.check(not other and not narrowing, "begin_block|every-tracked-parent", "the parent's commitment is used whenever the parent is tracked (no condition on its record)", b.span, {"other_fields_read": other, "narrowing_calls": narrowing})
        # D25: "unknown parents fall back to the parent block hash" - the parent whose commitment seeds the child is identified by its FULL id
        # (slot and hash). A lookup key built from the parent's slot alone (InProgressBlock::Pending(p.0)) hands the child the state of ANOTHER
        # block of that slot, unless the record found is compared with the parent's hash before it is used.
        IPB = EX + "InProgressBlock"
        by_slot = []
        for fb in fam:
            for (bb2, rv2, sp2, dst2) in fb.aggregates(IPB):
                if rv2.get("variant") == "Pending":
                    hash_cmp = any(c2.name.rsplit("::", 1)[-1] in ("eq", "ne") and any(K.mentions(fb3.operand_term(a2), lambda t: isinstance(t, tuple) and len(t) > 2 and t[0] == "field" and str(t[2]) in ("1", "block_hash"))
                                                                                        for a2 in c2.args) for fb3 in fam for c2 in fb3.calls())
                    if not hash_cmp:
                        by_slot.append(sp2)
        o.check(not by_slot, "begin_block|parent-lookup|by-slot-only", "the parent's record is looked up by the parent's full id (slot and hash), or the record found by slot is compared with the parent's hash", b.span,
                {"sites": [x.split("/")[-1] for x in by_slot]})
        o.check(any(str(x).endswith("GENESIS_BLOCK_HASH") for x in consts), "begin_block|genesis-fallback", "falls back to the parent block hash, and to GENESIS_BLOCK_HASH without a parent", b.span)
    et = [prog.bodies[d] for d in ops if d.endswith("::execute_transactions")]
    for b in et:
        fam = prog.family(b.defpath)      # the function and its closures (`for tx in ..` may be spelled `.for_each(|tx| ..)`)
        caps = {}                          # closure def -> {capture name: captured term in the parent}
        for fb in fam:
            for (_bb, _i, _dst, rv, _sp) in fb.assignments():
                t = fb.rvalue_term(rv)
                if isinstance(t, tuple) and t and t[0] == "closure":
                    caps[t[1]] = dict(t[2])

        # `exec.state_hash = txs.iter().fold(exec.state_hash.clone(), |acc, tx| H(acc || tx))`: inside the fold closure the running hash is the
        # accumulator parameter, provided the fold starts from state_hash and its result is stored back into state_hash
        acc_closures = set()
        for fb0 in fam:
            for c0 in fb0.calls():
                if c0.name.rsplit("::", 1)[-1] == "fold" and len(c0.args) >= 3:
                    ct = fb0.operand_term(c0.args[2])
                    if isinstance(ct, tuple) and ct and ct[0] == "closure" and K.mentions_field(fb0.operand_term(c0.args[1]), "state_hash", "BlockExec") and \
                            K.writes_of_field(fb0, "BlockExec", "state_hash"):
                        acc_closures.add(ct[1])

        def is_state_hash(fb, t):
            if K.mentions_field(t, "state_hash", "BlockExec"):
                return True
            if fb.defpath in acc_closures and K.mentions(t, lambda x: isinstance(x, tuple) and len(x) > 1 and x[0] == "param" and x[1] == 2):
                return True
            for x in mir.walk(t):
                if isinstance(x, tuple) and x and x[0] == "upvar" and K.mentions_field(caps.get(fb.defpath, {}).get(x[1], ("none",)), "state_hash", "BlockExec"):
                    return True
            return False
        ha = [(fb, c) for fb in fam for c in fb.calls() if c.name == A + "crypto::hash::hash_all"]
        ok = len(ha) == 1
        if ok:
            fb, c = ha[0]
            t = fb.operand_term(c.args[0])
            arrs = [x for x in mir.walk(t) if isinstance(x, tuple) and x and x[0] == "array" and len(x[1]) == 2]
            ok = bool(arrs) and is_state_hash(fb, arrs[0][1][0]) and not K.mentions_field(arrs[0][1][0], "0", "Transaction") and \
                K.mentions_field(arrs[0][1][1], "0", "Transaction") and not is_state_hash(fb, arrs[0][1][1])
        o.check(bool(ok), "execute_transactions|fold", "state_hash = H(state_hash || tx) for each transaction (in that order)", b.span)
        it = [c for fb in fam for c in fb.calls() if c.name.endswith("into_iter") or c.name.endswith("::iter")]
        rev = [c for fb in fam for c in fb.calls() if c.name.rsplit("::", 1)[-1] in ("rev", "sort", "sort_by", "sort_unstable", "par_iter", "shuffle")]
        o.check(bool(it) and not rev, "execute_transactions|in-order", "transactions are visited in sequence order", b.span)
        nw = len(K.writes_of_field(b, "BlockExec", "state_hash"))
        for fb in fam:
            if fb is b:
                continue
            for (_bb, _i, dst, _rv, _sp) in fb.assignments():
                if dst["l"] == 1 and dst["p"]:
                    for p_ in dst["p"][:3]:
                        if p_[0] == "f" and K.mentions_field(caps.get(fb.defpath, {}).get(p_[1], ("none",)), "state_hash", "BlockExec"):
                            nw += 1
        o.check(nw == 1, "execute_transactions|single-writer", "state_hash is updated only by that fold", b.span, {"writes": nw})
        # ... into the record of exactly the block named by the caller: no alternative key (slot instead of block id, ..) - transactions of a
        # block that is not tracked must not be folded into whichever block happens to be in progress for that slot
        gm = [(fb, c) for fb in fam for c in fb.calls() if c.name.rsplit("::", 1)[-1] in ("get_mut", "entry", "get") and c.args and K.mentions_field(fb.operand_term(c.args[0]), "blocks", "DummyExecution")]
        keys_ok = bool(gm) and all(isinstance(K.peel(fb.operand_term(c.args[1])), tuple) and K.peel(fb.operand_term(c.args[1]))[:2] == ("param", 2) for fb, c in gm if fb is b)
        built = [rv.get("variant") for fb in fam for (_bb, rv, _sp, _dst) in fb.aggregates(EX + "InProgressBlock")]
        o.check(keys_ok and not built, "execute_transactions|own-entry", "the updated record is blocks[id] for the id argument itself (no other key is constructed)", b.span, {"constructed_keys": built})
    eb = [prog.bodies[d] for d in ops if d.endswith("::end_block")]
    for b in eb:
        fam = prog.family(b.defpath)
        rd = set()
        for fb in fam:
            rd |= set(n for (_b, ow, n, _sp) in fb.field_reads() if ow.endswith("BlockExec"))
        o.check({"state_hash", "tx_count"} <= rd, "end_block|reports-computed", "the reported commitment/tx count are the ones computed for that block", b.span)

    # lookup order and fallback: the exact (repaired / known) entry wins over the slot-keyed pending one; an untracked parent
    # seeds from ITS block hash (genesis only without a parent)
    for fn in ("begin_block", "end_block"):
        fam = [fb for d, fb in prog.bodies.items() if "DummyExecution" in d and ("::%s" % fn) in d and not fb.generated]
        oe = [(fb, c) for fb in fam for c in fb.calls() if c.name.endswith("Option::or_else") and K.mentions_call(fb.operand_term(c.args[0]), "BTreeMap::get")]
        ok = len(oe) == 1
        det = {}
        if ok:
            fb, c = oe[0]
            first = [x[2] for x in mir.walk(fb.operand_term(c.args[0])) if isinstance(x, tuple) and x and x[0] == "agg" and str(x[1]).endswith("InProgressBlock")]
            cl = [x[1] for x in mir.walk(fb.operand_term(c.args[1])) if isinstance(x, tuple) and x and x[0] == "closure"]
            second = []
            for cd in cl:
                cb = prog.bodies.get(cd)
                if cb is not None:
                    second += [rv.get("variant") for (bb, rv, sp, dst) in cb.aggregates(EX + "InProgressBlock")]
            det = {"first": first, "then": second}
            ok = first == ["Known"] and second == ["Pending"]
        if not ok:
            # explicit form: `match blocks.get(&Known(id)) { Some(e) => .., None => blocks.get(&Pending(slot)) }`
            def key_variants(fb, c):
                return [x[2] for a in c.args[1:2] for x in mir.walk(fb.operand_term(a)) if isinstance(x, tuple) and x and x[0] == "agg" and str(x[1]).endswith("InProgressBlock")]
            gets = [(fb, c, key_variants(fb, c)) for fb in fam for c in fb.calls() if c.name.endswith("BTreeMap::get") and K.mentions_field(fb.operand_term(c.args[0]), "blocks")]
            known = [(fb, c) for fb, c, kv in gets if kv == ["Known"]]
            pend = [(fb, c) for fb, c, kv in gets if kv == ["Pending"]]
            if len(known) == 1 and len(pend) == 1 and known[0][0] is pend[0][0]:
                fb, kc = known[0]
                pc = pend[0][1]
                ats = G.guard_atoms(fb, pc.bb, prog)
                after_miss = any(a[0] == "is_some" and a[2] is False and any(x[2] == "Known" for x in mir.walk(a[1][0]) if isinstance(x, tuple) and x and x[0] == "agg" and str(x[1]).endswith("InProgressBlock")) for a in ats)
                det = {"known_lookup": kc.span, "pending_lookup": pc.span, "pending_only_after_known_missed": after_miss}
                ok = after_miss and fb.dominates(kc.bb, pc.bb)
        o.check(ok, "%s|lookup-order" % fn, "%s looks the block up as Known(block id) first and only then as Pending(slot)" % fn, oe[0][1].span if oe else "", det)
    for b in bb_:
        fam = [fb for d, fb in prog.bodies.items() if d == b.defpath or d.startswith(b.defpath + "::{closure")]
        # where GENESIS_BLOCK_HASH enters: it must be the alternative of the parent's own block hash - either an argument of a
        # combinator applied to the parent option itself (map_or / map_or_else / unwrap_or ..), or assigned only when parent is None
        uses = []
        for fb in fam:
            us = D.upvar_sources(prog, fb)
            from_parent = set(n for n, pv in us.items() if b.local_name(3) in pv["params"]) if fb is not b else set()

            def is_parent(t, fb=fb, from_parent=from_parent):
                t = K.peel(t)
                if fb is b:
                    return K.is_arg(b, t, 3) or (isinstance(t, tuple) and t and t[0] in ("param", "local") and b.local_name(3) in fb.provenance(t)["params"] and not fb.provenance(t)["calls"])
                return isinstance(t, tuple) and t and t[0] == "upvar" and t[1] in from_parent

            def has_gen(t):
                return any(str(x[1] if x[0] == "cref" else (x[3] if len(x) > 3 else "")).endswith("GENESIS_BLOCK_HASH") for x in mir.consts_in(t))
            for c in fb.calls():
                ts = [fb.operand_term(a) for a in c.args]
                if any(has_gen(t) for t in ts[1:]) or (ts and has_gen(ts[0]) and c.name.rsplit("::", 1)[-1] not in ("as_hash", "clone", "deref", "as_ref")):
                    uses.append(("combinator", c.name.rsplit("::", 1)[-1], bool(ts) and is_parent(ts[0]), c.span))
            for (bb2, i2, dst2, rv2, sp2) in fb.assignments():
                t = fb.rvalue_term(rv2)
                if rv2["k"] in ("use", "ref") and has_gen(t) and not any(u[3] == sp2 for u in uses):
                    g = any(a[0] == "is_some" and a[2] is False and is_parent(a[1][0]) for a in G.guard_atoms(fb, bb2, prog))
                    uses.append(("assign", "under parent is None" if g else "unguarded", g, sp2))
        good = [u for u in uses if u[2]]
        bad = [u for u in uses if not u[2] and u[0] == "combinator" and u[1] in ("unwrap_or", "unwrap_or_else", "map_or", "map_or_else", "or", "or_else", "unwrap_or_default")]
        o.check(bool(good) and not bad, "begin_block|fallback-parent-hash", "GENESIS_BLOCK_HASH is used only as the alternative of the parent's own block hash (combinator on the parent option, or under parent == None)", b.span,
                {"uses": [u[:3] for u in uses]})

    if run.tier == "thorough":
        witness(run, "O20.1w")


def witness(run, oid):
    o = run.ob(oid, "type-level witnesses (compile_fail doctests with compiling twins)", "the type system carries this part of the property across module boundaries", floor=3)
    from engine import witness as W
    res = W.run_witness()
    if len(res) == 1 and res[0][0].startswith("skipped"):
        o.ok("witness|skipped", res[0][2], "", nontrivial=False)
        o.floor = 1
        return
    for name, ok, detail in W.expect(['StateSharedWriteFails', 'StateSharedWriteTwin', 'ForkIsAValueTwin'], res):
        o.check(ok, "witness|" + name, "doctest %s behaves as expected (%s)" % (name, "must not compile" if name.endswith("Fails") else "compiles"), "witness/src/lib.rs", {"detail": detail})


EQ_NAMES = ("core::cmp::impls::eq", "core::array::equality::eq", "core::cmp::PartialEq::eq")


def _is_leaf_key(t):
    return K.is_field(t, "key", "Leaf")


def ob_trie_lookup(run, oid):
    """the three trie walks (get / insert_rec / remove_rec) decide 'this leaf holds the key' by one whole-key equality, gate their
    verdicts on it, and navigate by chunk_at(key, depth) with depth growing by one per level"""
    prog = run.program("lib")
    o = run.ob(oid, "trie walks: a leaf is a hit only by whole-key equality with the looked-up key; verdicts are gated on it; navigation is chunk_at(key, depth), depth+1 per level",
               "the path only proves that the consumed 5-bit chunks agree; a partial comparison at the leaf (or a walk that skips a level) answers lookups for keys that "
               "are not in the map, and get/insert/remove disagree with each other", floor=19)
    spec = {"State::get": 2, "State::insert_rec": 3, "State::remove_rec": 3}
    for fn, kpos in spec.items():
        b = prog.body(ST + fn)
        if b is None:
            o.missing(fn)
            continue
        key = fn
        consumers = []
        for c in b.calls():
            ts = [b.operand_term(a) for a in c.args]
            if any(_is_leaf_key(t) for t in ts):
                consumers.append((c, ts))
        good = [c for (c, ts) in consumers if c.name in EQ_NAMES and len(ts) == 2 and any(_is_leaf_key(t) for t in ts) and any(K.is_arg(b, t, kpos) for t in ts)]
        o.check(len(consumers) == 1 and len(good) == 1, key + "|whole-key-equality", "the stored key is consumed by exactly one comparison: leaf.key == key (whole address)",
                consumers[0][0].span if consumers else b.span, {"consumers": [(c.name, [mir.show(t)[:80] for t in ts]) for (c, ts) in consumers]})
        if len(good) != 1:
            continue
        eqc = good[0]
        eqt = b.call_term(eqc.bb, b.blocks[eqc.bb]["term"])

        def is_eq_atom(a, pol):
            return a[0] == "eq" and a[2] is pol and any(_is_leaf_key(x) for x in a[1]) and any(K.is_arg(b, x, kpos) for x in a[1])

        if fn == "State::get":
            defs = b.defs().get(0, [])
            okd = bool(defs)
            shapes = []
            for d in defs:
                if d[0] == "call":
                    c = d[3] if isinstance(d[3], mir.CallSite) else None
                    cs = [x for x in b.calls() if x.bb == d[1]]
                    c = cs[0] if cs else None
                    nm = c.name.rsplit("::", 1)[-1] if c else "?"
                    shapes.append(nm)
                    if nm == "then_some":
                        a0, a1 = b.operand_term(c.args[0]), b.operand_term(c.args[1])
                        okd = okd and a0[0] == "call" and a0[1] in EQ_NAMES and a0[3] == eqc.bb and K.mentions_field(a1, "value", "Leaf")
                    elif nm == "from_residual":
                        pass
                    else:
                        okd = False
                else:
                    t = b.rvalue_term(d[3]["rv"])
                    shapes.append(mir.show(t)[:60])
                    ats = G.guard_atoms(b, d[1], prog)
                    if isinstance(t, tuple) and t[0] == "agg" and "Some" in str(t):
                        okd = okd and any(is_eq_atom(a, True) for a in ats)
                    elif isinstance(t, tuple) and t[0] == "agg" and "None" in str(t):
                        pass
                    else:
                        okd = False
            o.check(okd, key + "|hit-gated", "get returns the leaf's value only as (leaf.key == key).then_some(value); misses are None", b.span, {"result_defs": shapes})
        if fn == "State::insert_rec":
            rep = [c for c in b.calls() if c.name.endswith("mem::replace")]
            spl = [c for c in b.calls() if c.name == ST + "split_leaves"]
            o.check(len(rep) == 1 and any(is_eq_atom(a, True) for a in G.guard_atoms(b, rep[0].bb, prog)), key + "|replace-on-equal", "the value is replaced in place only when leaf.key == key",
                    rep[0].span if rep else b.span)
            o.check(len(spl) == 1 and any(is_eq_atom(a, False) for a in G.guard_atoms(b, spl[0].bb, prog)), key + "|split-on-different", "the leaf is split only when leaf.key != key",
                    spl[0].span if spl else b.span)
            ic = [c for c in b.calls() if c.name == ST + "Branch::insert_child"]
            okc = len(ic) == 1 and any(a[0] == "is_some" and a[2] is False and K.mentions_call(a[1][0], "child_index") for a in G.guard_atoms(b, ic[0].bb, prog))
            o.check(okc, key + "|new-leaf-on-empty-slot", "a new leaf goes into the slot only when child_index(chunk) is None", ic[0].span if ic else b.span)
        if fn == "State::remove_rec":
            rc = [c for c in b.calls() if c.name == ST + "Branch::remove_child"]
            okr = False
            if len(rc) == 1:
                # leaf_matches = Some(leaf.key == key) in the Leaf arm; the removal is gated on leaf_matches == Some(true)
                lm = None
                for (bb, rv, sp, dst) in b.aggregates("core::option::Option", "Some"):
                    t = b.operand_term(rv["ops"][0])
                    if t[0] == "call" and t[1] in EQ_NAMES and t[3] == eqc.bb and not dst["p"]:
                        lm = dst["l"]
                if lm is not None:
                    ats = G.guard_atoms(b, rc[0].bb, prog)
                    okr = any(a[0] == "bool" and a[2] is True and K.mentions(a[1][0], lambda t: t[0] == "local" and t[1] == lm) for a in ats)
            o.check(okr, key + "|remove-on-equal", "a leaf is removed only when leaf.key == key", rc[0].span if rc else b.span)
        # navigation
        ch = [c for c in b.calls() if c.name == ST + "chunk_at"]
        okn = len(ch) == 1
        if okn:
            a0, a1 = b.operand_term(ch[0].args[0]), b.operand_term(ch[0].args[1])
            okn = K.is_arg(b, a0, kpos)
            if fn == "State::get":
                # depth: a local initialised to 0 and only ever incremented by one
                dl = a1[1] if a1[0] == "local" else None
                ds = b.defs().get(dl, []) if dl is not None else []
                terms = [b.rvalue_term(d[3]["rv"]) for d in ds if d[0] == "stmt"]
                consts = [K.const_eval(t) for t in terms]
                incs = [t for t in terms if K.const_eval(t) is None]
                okn = okn and len(ds) == len(terms) == 2 and 0 in consts and len(incs) == 1 and _is_inc(incs[0], lambda x: x[0] == "local" and x[1] == dl)
            else:
                okn = okn and K.is_arg(b, a1, 2)
        o.check(okn, key + "|chunk_at(key, depth)", "the child is selected by chunk_at(key, depth)", ch[0].span if ch else b.span)
        if fn != "State::get":
            rec = [c for c in b.calls() if c.name == ST + fn]
            okrec = len(rec) == 1
            if okrec:
                ts = [b.operand_term(a) for a in rec[0].args]
                okrec = _is_inc(ts[1], lambda x: K.arg_pred(b, 2)(x)) and K.is_arg(b, ts[2], kpos)
            o.check(okrec, key + "|recursion-depth+1", "the recursive call descends with depth + 1 and the same key", rec[0].span if rec else b.span)
    for pub, rec in (("State::insert", "State::insert_rec"), ("State::remove", "State::remove_rec")):
        b = prog.body(ST + pub)
        if b is None:
            o.missing(pub)
            continue
        cs = b.calls_to(ST + rec)
        ok = len(cs) == 1 and K.const_eval(b.operand_term(cs[0].args[1])) == 0 and K.mentions_field(b.operand_term(cs[0].args[0]), "root", "State") and K.is_arg(b, b.operand_term(cs[0].args[2]), 2)
        o.check(ok, pub + "|starts-at-root-depth-0", "%s walks from self.root at depth 0 with its own key" % pub, b.span)
    b = prog.body(ST + "State::remove")
    if b is not None:
        g = b.calls_to(ST + "State::get")
        ok = len(g) == 1 and K.is_arg(b, b.operand_term(g[0].args[1]), 2)
        o.check(ok, "State::remove|fast-path-same-key", "the presence check uses the same key", b.span)
    b = prog.body(ST + "split_leaves")
    if b is None:
        o.missing("split_leaves")
    else:
        ch = [c for c in b.calls() if c.name == ST + "chunk_at"]
        ok = len(ch) == 2 and all(K.is_arg(b, b.operand_term(c.args[1]), 1) for c in ch) and sorted(
            (2 if K.mentions_arg(b, b.operand_term(c.args[0]), 2) else 3 if K.mentions_arg(b, b.operand_term(c.args[0]), 3) else 0) for c in ch) == [2, 3]
        o.check(ok, "split_leaves|chunks-of-both-keys-at-depth", "the two leaves are separated by their own chunks at this depth", b.span)
        rec = [c for c in b.calls() if c.name == ST + "split_leaves"]
        okr = len(rec) == 1 and _is_inc(b.operand_term(rec[0].args[0]), lambda x: K.arg_pred(b, 1)(x))
        if okr:
            okr = any(a[0] == "eq" and a[2] is True and all(K.mentions_call(x, "chunk_at") for x in a[1]) for a in G.guard_atoms(b, rec[0].bb, prog))
        o.check(okr, "split_leaves|recurse-on-equal-chunk", "recurses with depth + 1 exactly when both chunks are equal", rec[0].span if rec else b.span)
    ir = prog.body(ST + "State::insert_rec")
    if ir is not None:
        spl = [c for c in ir.calls() if c.name == ST + "split_leaves"]
        ok = len(spl) == 1 and _is_inc(ir.operand_term(spl[0].args[0]), lambda x: K.arg_pred(ir, 2)(x))
        o.check(ok, "State::insert_rec|split-at-depth+1", "split_leaves starts one level below the branch that held the leaf", spl[0].span if spl else ir.span)


def _is_inc(t, is_base):
    """t == base + 1 (checked or unchecked form)"""
    t = K.peel(t)
    if isinstance(t, tuple) and t[0] == "field" and t[2] == "0":
        t = t[1]
    if not (isinstance(t, tuple) and t[0] == "bin" and t[1].startswith("Add")):
        return False
    a, c = K.peel(t[2]), K.peel(t[3])
    return (is_base(a) and K.const_eval(c) == 1) or (is_base(c) and K.const_eval(a) == 1)


def _bin(t, op):
    t = K.peel(t)
    if isinstance(t, tuple) and t and t[0] == "field" and t[2] == "0":
        t = t[1]
    if isinstance(t, tuple) and t and t[0] == "cast":
        return _bin(t[2], op)
    if isinstance(t, tuple) and t and t[0] == "bin" and t[1].replace("WithOverflow", "").replace("Unchecked", "") == op:
        return t
    return None


def _is_bit(t, is_chunk):
    """1 << chunk"""
    b = _bin(t, "Shl")
    return b is not None and K.const_eval(b[2]) == 1 and is_chunk(K.peel(b[3]))


def _is_low_mask_count(t, is_chunk):
    """count_ones(bitmap & ((1 << chunk) - 1)) as usize"""
    t = K.peel(t)
    while isinstance(t, tuple) and t and t[0] == "cast":
        t = K.peel(t[2])
    if not (isinstance(t, tuple) and t and t[0] == "call" and t[1].rsplit("::", 1)[-1] == "count_ones"):
        return False
    a = _bin(t[2][0], "BitAnd")
    if a is None:
        return False
    sides = [a[2], a[3]]
    bm = [x for x in sides if K.is_field(x, "bitmap", "Branch")]
    ms = [x for x in sides if x not in bm]
    if len(bm) != 1 or len(ms) != 1:
        return False
    m = _bin(ms[0], "Sub")
    return m is not None and _is_bit(m[2], is_chunk) and K.const_eval(m[3]) == 1


def _chunk_at_by_value(prog, ca, o, bits):
    """evaluate chunk_at(key, depth) - every path of it - for every depth of a 32-byte key and a set of keys, and compare with the
    definition: the depth-th BITS_PER_LEVEL-bit chunk of the key read as a big-endian bit string, zero padded at the end"""
    import hashlib
    from engine import paths
    from . import termeval as TE
    if not bits:
        return False
    rows = paths.decision_table(ca, prog)
    keys = [bytes([0xff] * 32), bytes([0xaa] * 32), bytes([0x55] * 32), bytes(range(32)), bytes([0x08] * 32), bytes([0x01] * 32), bytes([0x80] * 32)]
    keys += [hashlib.sha256(b"chunk_at-%d" % i).digest() for i in range(9)]
    ndepth = (32 * 8 + bits - 1) // bits
    bad = []
    undecided = None
    n = 0
    for key in keys:
        total = int.from_bytes(key, "big") << (ndepth * bits - 256)
        for depth in range(ndepth):
            want = (total >> ((ndepth - 1 - depth) * bits)) & ((1 << bits) - 1)

            def env(t, key=key, depth=depth):
                if isinstance(t, tuple) and t and t[0] == "param":
                    return list(key) if t[1] == 1 else depth
                return None
            got = []
            try:
                for atoms, ret, _bl in rows:
                    if ret is None:
                        continue
                    holds = True
                    for a in atoms:
                        if D.is_structural_atom(a) and a[0] != "bool":
                            continue
                        v = TE.ev_atom(a[0], a[1], env)
                        if v != a[2]:
                            holds = False
                            break
                    if holds:
                        got.append(TE.ev(ret, env))
            except TE.Unknown as e:
                undecided = str(e)[:120]
                break
            except TE.Overflow as e:
                bad.append("depth %d: panics (%s)" % (depth, e))
                continue
            n += 1
            if not got or any(g != want for g in got):
                bad.append("key %s.. depth %d: chunk_at = %s, the key's chunk is %d" % (key[:4].hex(), depth, got[:2], want))
        if undecided:
            break
    if undecided:
        o.ok("chunk_at|by-value|undecided", "chunk_at could not be evaluated (%s): deciding by the structural reading instead" % undecided, ca.span, nontrivial=False)
        return False
    else:
        o.check(not bad and n >= len(keys) * ndepth, "chunk_at|by-value", "chunk_at(key, d) equals the d-th %d-bit chunk of the key for all %d depths and %d keys (every path evaluated)" % (bits, ndepth, len(keys)),
                ca.span, {"mismatches": bad[:4], "evaluated": n})
    return True


def ob_trie_arith(run, oid):
    prog = run.program("lib")
    o = run.ob(oid, "trie arithmetic: len bookkeeping, bitmap <-> children index agreement across child_index / insert_child / remove_child, chunk_at extracts "
                    "BITS_PER_LEVEL bits at bit offset depth*BITS_PER_LEVEL",
               "children are stored compactly in chunk order: the position of a chunk's child is the number of occupied lower chunks; if the three functions disagree, or "
               "len is not adjusted exactly on a new / removed key, lookups hit the wrong child and len drifts from the number of entries", floor=14)
    bits = prog.const_int(ST + "BITS_PER_LEVEL")
    fan = prog.const_int(ST + "FANOUT")
    o.check(bits is not None and fan == (1 << bits), "const|FANOUT", "FANOUT == 1 << BITS_PER_LEVEL (%s, %s)" % (fan, bits), "")
    o.check(bits is not None and 1 <= bits and bits + 7 <= 16 and fan <= 32, "const|window", "a chunk starting at any bit of a byte fits the 16-bit window and the 32-bit bitmap", "")
    # Branch
    ci = prog.body(ST + "Branch::child_index")
    if ci is None:
        o.missing("Branch::child_index")
    else:
        isch = K.arg_pred(ci, 2)
        somes = [(bb, rv, sp) for (bb, rv, sp, dst) in ci.aggregates("core::option::Option", "Some") if dst["l"] == 0]
        nones = [(bb, rv, sp) for (bb, rv, sp, dst) in ci.aggregates("core::option::Option", "None") if dst["l"] == 0]
        ok = len(somes) == 1 and _is_low_mask_count(ci.operand_term(somes[0][1]["ops"][0]), isch)
        o.check(ok, "child_index|position", "Some(popcount(bitmap & ((1 << chunk) - 1)))", ci.span)

        def occ_atom(a, pol):
            if not (a[0] == "eq" and a[2] is pol):
                return False
            x = [t for t in a[1] if K.const_eval(t) != 0]
            if len(x) != 1 or not any(K.const_eval(t) == 0 for t in a[1]):
                return False
            ba = _bin(x[0], "BitAnd")
            return ba is not None and any(K.is_field(y, "bitmap", "Branch") for y in ba[2:4]) and any(_is_bit(y, isch) for y in ba[2:4])
        ok = len(somes) == 1 and len(nones) == 1 and any(occ_atom(a, False) for a in G.guard_atoms(ci, somes[0][0], prog)) and any(occ_atom(a, True) for a in G.guard_atoms(ci, nones[0][0], prog))
        o.check(ok, "child_index|occupancy", "None exactly when bitmap & (1 << chunk) == 0", ci.span)
    ic = prog.body(ST + "Branch::insert_child")
    if ic is None:
        o.missing("Branch::insert_child")
    else:
        isch = K.arg_pred(ic, 2)
        ins = [c for c in ic.calls() if c.name.rsplit("::", 1)[-1] == "insert" and K.mentions_field(ic.operand_term(c.args[0]), "children", "Branch")]
        ok = len(ins) == 1 and _is_low_mask_count(ic.operand_term(ins[0].args[1]), isch) and K.is_arg(ic, ic.operand_term(ins[0].args[2]), 3)
        o.check(ok, "insert_child|position", "children.insert(popcount(bitmap & ((1 << chunk) - 1)), child) - same position as child_index", ic.span)
        ws = [(bb, rv) for (bb, ow, name, rv, sp, dst) in ic.field_writes() if name == "bitmap"]
        ok = len(ws) == 1
        if ok:
            t = _bin(ic.rvalue_term(ws[0][1]), "BitOr")
            ok = t is not None and any(K.is_field(y, "bitmap", "Branch") for y in t[2:4]) and any(_is_bit(y, isch) for y in t[2:4])
        o.check(ok, "insert_child|sets-bit", "bitmap |= 1 << chunk", ic.span)
        if ins and ws:
            cnt = [c for c in ic.calls() if c.name.rsplit("::", 1)[-1] == "count_ones"]
            o.check(len(cnt) == 1 and ic.dominates(cnt[0].bb, ws[0][0]) and cnt[0].bb != ws[0][0], "insert_child|position-before-bit", "the position is computed before the chunk's own bit is set",
                    ic.span)
    rc = prog.body(ST + "Branch::remove_child")
    if rc is None:
        o.missing("Branch::remove_child")
    else:
        isch = K.arg_pred(rc, 3)
        ws = [(bb, rv) for (bb, ow, name, rv, sp, dst) in rc.field_writes() if name == "bitmap"]
        ok = len(ws) == 1
        if ok:
            t = _bin(rc.rvalue_term(ws[0][1]), "BitAnd")
            ok = t is not None and any(K.is_field(y, "bitmap", "Branch") for y in t[2:4]) and any(
                isinstance(K.peel(y), tuple) and K.peel(y)[0] == "un" and "Not" in str(K.peel(y)[1]) and _is_bit(K.peel(y)[2], isch) for y in t[2:4])
        o.check(ok, "remove_child|clears-bit", "bitmap &= !(1 << chunk)", rc.span)
        rm = [c for c in rc.calls() if c.name.rsplit("::", 1)[-1] == "remove" and K.mentions_field(rc.operand_term(c.args[0]), "children", "Branch")]
        o.check(len(rm) == 1 and K.is_arg(rc, rc.operand_term(rm[0].args[1]), 2), "remove_child|position", "children.remove(idx)", rc.span)
    rr = prog.body(ST + "State::remove_rec")
    if rr is not None:
        cs = rr.calls_to(ST + "Branch::remove_child")
        ok = len(cs) == 1
        if ok:
            a1, a2 = rr.operand_term(cs[0].args[1]), rr.operand_term(cs[0].args[2])
            ok = K.mentions_call(a1, "child_index") and K.mentions_call(a2, "chunk_at") and not K.mentions_call(a2, "child_index")
            # the idx comes from child_index of the same chunk
            ok = ok and any(isinstance(x, tuple) and x and x[0] == "call" and x[1].endswith("child_index") and x[2][1] == K.peel(a2) for x in mir.walk(a1))
        o.check(ok, "remove_rec|remove_child(idx, chunk)", "remove_child gets idx = child_index(chunk) and the same chunk", cs[0].span if cs else rr.span)
    # chunk_at
    ca = prog.body(ST + "chunk_at")
    if ca is None:
        o.missing("chunk_at")
    else:
        rets = [d for d in ca.defs().get(0, []) if d[0] == "stmt"]
        ok = len(rets) == 1
        det = {}
        if ok:
            t = ca.rvalue_term(rets[0][3]["rv"])
            det["term"] = mir.show(t)[:400]
            ba = _bin(t, "BitAnd")
            ok = ba is not None
            if ok:
                sides = [ba[2], ba[3]]
                mask = [x for x in sides if K.const_eval(x) is not None]
                sh = [x for x in sides if x not in mask]
                ok = len(mask) == 1 and len(sh) == 1 and K.const_eval(mask[0]) == fan - 1
                if ok:
                    shr = _bin(sh[0], "Shr")
                    ok = shr is not None
                    if ok:
                        def is_bitpos(x):
                            m = _bin(x, "Mul")
                            return m is not None and any(K.is_arg(ca, y, 2) for y in m[2:4]) and any(K.const_eval(y) == bits for y in m[2:4])

                        def is_byte(x, plus):
                            if plus:
                                a = _bin(x, "Add")
                                return a is not None and K.const_eval(a[3]) == 1 and is_byte(a[2], False)
                            d = _bin(x, "Div")
                            if d is not None:
                                return is_bitpos(d[2]) and K.const_eval(d[3]) == 8
                            d = _bin(x, "Shr")
                            return d is not None and is_bitpos(d[2]) and K.const_eval(d[3]) == 3
                        # shift amount: 16 - BITS - bit % 8
                        s1 = _bin(shr[3], "Sub")
                        ok_s = False
                        if s1 is not None:
                            r = _bin(s1[3], "Rem")
                            r2 = _bin(s1[3], "BitAnd")
                            in_byte = (r is not None and is_bitpos(r[2]) and K.const_eval(r[3]) == 8) or (r2 is not None and is_bitpos(r2[2]) and K.const_eval(r2[3]) == 7)
                            ok_s = K.const_eval(s1[2]) == 16 - bits and in_byte
                        det["shift"] = mir.show(shr[3])[:200]
                        # window: (key[bit/8] << 8) | key.get(bit/8+1).map_or(0)
                        w = shr[2]
                        idxs = [x for x in mir.walk(w) if isinstance(x, tuple) and x and x[0] == "index"]
                        # the low byte may reach the window through a match / map_or: use provenance (flow-insensitive through locals)
                        getc = [c for c in ca.calls() if c.name.rsplit("::", 1)[-1] == "get" and K.is_arg(ca, ca.operand_term(c.args[0]), 1)]
                        pvw = ca.provenance(w, depth=8)
                        shl8 = [x for x in mir.walk(w) if isinstance(x, tuple) and x and x[0] == "bin" and _bin(x, "Shl") is not None and K.const_eval(x[3]) == 8]
                        hi_ok = len(idxs) == 1 and is_byte(idxs[0][2], False) and any(idxs[0] in list(mir.walk(x[2])) for x in shl8)
                        lo_ok = (len(getc) == 1 and is_byte(ca.operand_term(getc[0].args[1]), True) and any(c.endswith("::get") for c in pvw["calls"])
                                 and not any(any(c.endswith("::get") for c in ca.provenance(x[2], depth=8)["calls"]) for x in shl8))
                        structural = [(ok_s, "chunk_at|shift", "shift = 16 - BITS_PER_LEVEL - (depth*BITS_PER_LEVEL) % 8"), (hi_ok, "chunk_at|high-byte", "window high byte = key[(depth*BITS_PER_LEVEL) / 8] << 8"),
                                      (lo_ok, "chunk_at|low-byte", "window low byte = key.get((depth*BITS_PER_LEVEL) / 8 + 1) or 0 (zero padding of the last chunk)")]
        decided = _chunk_at_by_value(prog, ca, o, bits)
        # the structural reading of the formula is kept as a second opinion only when the evaluation could not decide
        if decided:
            for key_ in ("chunk_at|shift", "chunk_at|high-byte", "chunk_at|low-byte", "chunk_at|mask"):
                o.ok(key_, "decided by value (chunk_at|by-value)", ca.span, nontrivial=False)
        else:
            for (v_, key_, txt_) in locals().get("structural", []):
                o.check(v_, key_, txt_, ca.span, det)
            o.check(ok, "chunk_at|mask", "result = (window >> shift) & (FANOUT - 1)", ca.span, det)
    # len bookkeeping
    ib = prog.body(ST + "State::insert")
    if ib is not None:
        ws = [(bb, rv, sp) for (bb, ow, name, rv, sp, dst) in ib.field_writes() if name == "len" and ow.endswith("State")]
        ok = len(ws) == 1 and _is_inc(ib.rvalue_term(ws[0][1]), lambda x: K.is_field(x, "len", "State"))
        if ok:
            ats = G.guard_atoms(ib, ws[0][0], prog)
            ok = any(a[0] == "is_some" and a[2] is False and K.mentions_call(a[1][0], "insert_rec") for a in ats) and not D.extra_guards(prog, ib, ws[0][0], [lambda a: a[0] == "is_some" and K.mentions_call(a[1][0], "insert_rec")])
        o.check(ok, "State::insert|len", "len += 1 exactly when insert_rec reports a new key", ib.span)
    rb = prog.body(ST + "State::remove")
    if rb is not None:
        ws = [(bb, rv, sp) for (bb, ow, name, rv, sp, dst) in rb.field_writes() if name == "len" and ow.endswith("State")]
        ok = len(ws) == 1
        if ok:
            t = _bin(rb.rvalue_term(ws[0][1]), "Sub")
            ok = t is not None and K.is_field(t[2], "len", "State") and K.const_eval(t[3]) == 1
            rm = rb.calls_to(ST + "State::remove_rec")
            ok = ok and len(rm) == 1 and rb.dominates(rm[0].bb, ws[0][0])
        o.check(ok, "State::remove|len", "len -= 1 after the key was removed", rb.span)
    got = D.field_mutations(prog, ST + "State")
    o.check(sorted(got.get("len", {})) == ["assign"] and len(got["len"]["assign"]) == 2, "State.len|writers", "len is written by insert and remove only", "",
            {"writers": [x[0] for v in got.get("len", {}).values() for x in v]})
    gb = D.field_mutations(prog, ST + "Branch")
    o.check(sorted(gb.get("bitmap", {})) == ["assign"] and len(gb["bitmap"]["assign"]) == 2 and sorted(gb.get("children", {})) == ["index_mut", "insert", "remove"], "Branch|mutations",
            "bitmap is written by insert_child / remove_child only; children mutated by insert, remove and in-place child replacement only", "",
            {"bitmap": {k: [x[0] for x in v] for k, v in gb.get("bitmap", {}).items()}, "children": {k: [x[0] for x in v] for k, v in gb.get("children", {}).items()}})
