"""Effect sets (P8): ambient nondeterminism per body, closed over the call graph."""
import re

AMBIENT = [
    # (effect, regex over callee def path)
    ("ambient-rng", re.compile(r"^rand::(rng|random|random_range|random_bool|random_iter|random_ratio|fill)$")),
    ("ambient-rng", re.compile(r"^rand::rngs::thread::")),
    ("ambient-rng", re.compile(r"ThreadRng|OsRng|SysRng")),
    ("ambient-rng", re.compile(r"^getrandom::")),
    ("ambient-rng", re.compile(r"SeedableRng::(from_os_rng|from_entropy|try_from_os_rng|from_rng|fork)$")),
    ("wall-clock", re.compile(r"^std::time::(Instant|SystemTime)::now$")),
    ("wall-clock", re.compile(r"^tokio::time::(instant::)?Instant::now$")),
    ("wall-clock", re.compile(r"^time::.*::now(_utc|_local)?$")),
    ("random-hash-seed", re.compile(r"RandomState(<[^>]*>)?::new$|RandomState as core::default::Default>::default$|^ahash::|^fastrand::|Uuid::new_v4$")),
    ("wall-clock", re.compile(r"^std::time::(Instant|SystemTime)::elapsed$|^tokio::time::(instant::)?Instant::elapsed$")),
    ("filesystem", re.compile(r"^std::fs::|^tokio::fs::")),
    ("host", re.compile(r"^std::thread::available_parallelism$|^num_cpus::|^hostname::")),
    ("env", re.compile(r"^std::env::")),
    ("thread-id", re.compile(r"^std::thread::(current|Thread::id)$")),
    ("process-id", re.compile(r"^std::process::id$")),
]

HASH_ITER = re.compile(r"^std::collections::hash::(map::HashMap|set::HashSet)::(iter|iter_mut|keys|values|values_mut|into_keys|into_values|drain|retain|extract_if)$")
HASH_INTOITER = re.compile(r"IntoIterator>::into_iter$")


def direct_effects(body):
    """list of (effect, callee, span, bb)"""
    out = []
    for c in body.calls():
        for nm in {c.callee, c.resolved or c.callee}:
            for eff, rx in AMBIENT:
                if rx.search(nm):
                    out.append((eff, nm, c.span, c.bb))
                    break
            if HASH_ITER.match(nm):
                out.append(("hash-order-iteration", nm, c.span, c.bb))
            if HASH_INTOITER.search(nm):
                ta = " ".join(c.targs)
                if ("HashMap<" in ta or "HashSet<" in ta) and "RandomState" in ta or (("HashMap<" in ta or "HashSet<" in ta) and "BuildHasher" not in ta and "Hasher" not in ta):
                    out.append(("hash-order-iteration", nm + " on " + ta[:60], c.span, c.bb))
    # address-dependent values: pointer -> integer casts
    for (bb, i, dst, rv, sp) in body.assignments():
        if rv.get("k") == "cast" and "Expose" in str(rv.get("ck", "")):
            out.append(("address-dependent", "pointer-to-integer cast", sp, bb))
    # de-duplicate per (effect, span)
    seen = set()
    res = []
    for e in out:
        k = (e[0], e[2])
        if k not in seen:
            seen.add(k)
            res.append(e)
    return res


def reachable_effects(prog, roots, stop=()):
    """{body def: [effects]} for all bodies reachable from roots that have direct effects"""
    U = prog.reachable_from(roots, stop=stop)
    out = {}
    for d in U:
        b = prog.bodies[d]
        if b.generated:
            continue
        es = direct_effects(b)
        if es:
            out[d] = es
    return U, out
