"""Fact extraction (runs the rustc_private driver over /repo through cargo) and loading.

Nothing here executes alpenglow code: `cargo +nightly check` only type-checks the crate while the
driver (RUSTC_WORKSPACE_WRAPPER) dumps MIR/ADT/impl/const facts of the current working tree.
"""
import fcntl
import hashlib
import json
import os
import pickle
import shutil
import subprocess
import sys
import time
import uuid

VERIF = os.path.dirname(os.path.dirname(os.path.abspath(__file__)))
REPO = os.environ.get("AGL_REPO", "/repo")
SCRATCH = os.environ.get("AGL_SCRATCH", "/var/tmp/agl-verif")
DRIVER_DIR = os.path.join(VERIF, "driver")
DRIVER = os.path.join(DRIVER_DIR, "target", "release", "agl-facts")
FIXTURES = os.path.join(VERIF, "fixtures")

BIN_CRATES = ["all2all_test", "local_cluster", "node", "performance_test", "workload_generator", "simulations"]

CFGS = {
    # what a node runs
    "lib": {"args": ["--lib"], "crates": ["alpenglow"]},
    # exposes bench_replay_votes & test_utils: extra callers for who-may-call rules
    "lib-testutils": {"args": ["--lib", "--features", "test-utils"], "crates": ["alpenglow"]},
    # binaries construct samplers / disseminators: extra callers for C16/C17
    "bins": {"args": ["--features", "cli,simulations", "--bins"], "crates": ["alpenglow"] + BIN_CRATES},
}


class CheckerBroken(Exception):
    """The checker itself cannot run (exit code 2); never used to hide a violation."""


def _sysroot():
    return subprocess.check_output(["rustc", "+nightly", "--print", "sysroot"], text=True).strip()


def tree_hash(repo=REPO):
    h = hashlib.sha256()
    files = []
    for top in ("src",):
        for root, dirs, fs in os.walk(os.path.join(repo, top)):
            dirs.sort()
            for f in sorted(fs):
                files.append(os.path.join(root, f))
    for f in ("Cargo.toml", "Cargo.lock", "build.rs"):
        p = os.path.join(repo, f)
        if os.path.exists(p):
            files.append(p)
    for p in files:
        h.update(os.path.relpath(p, repo).encode())
        h.update(b"\0")
        with open(p, "rb") as fh:
            h.update(fh.read())
        h.update(b"\0")
    # the driver is part of the identity of the facts
    with open(os.path.join(DRIVER_DIR, "src", "main.rs"), "rb") as fh:
        h.update(fh.read())
    return h.hexdigest()[:24]


def ensure_driver():
    src = os.path.join(DRIVER_DIR, "src", "main.rs")
    if os.path.exists(DRIVER) and os.path.getmtime(DRIVER) >= os.path.getmtime(src):
        return
    os.makedirs(SCRATCH, exist_ok=True)
    with open(os.path.join(SCRATCH, "driver.lock"), "w") as lk:
        fcntl.flock(lk, fcntl.LOCK_EX)
        if os.path.exists(DRIVER) and os.path.getmtime(DRIVER) >= os.path.getmtime(src):
            return
        env = dict(os.environ, CARGO_NET_OFFLINE="true")
        r = subprocess.run(
            ["cargo", "+nightly", "build", "--release", "--offline", "--manifest-path", os.path.join(DRIVER_DIR, "Cargo.toml")],
            env=env, stdout=subprocess.PIPE, stderr=subprocess.STDOUT, text=True)
        if r.returncode != 0 or not os.path.exists(DRIVER):
            raise CheckerBroken("driver build failed:\n" + r.stdout[-3000:])


def _run_driver(manifest_dir, cargo_args, crates, cfg, out_dir, target_dir, pkg_prefix):
    """cargo +nightly check with the driver as workspace wrapper. Returns (rc, output)."""
    ensure_driver()
    os.makedirs(out_dir, exist_ok=True)
    os.makedirs(target_dir, exist_ok=True)
    # cargo's freshness cache would silently skip the wrapper: drop the fingerprints of our crates
    fp = os.path.join(target_dir, "debug", ".fingerprint")
    if os.path.isdir(fp):
        for d in os.listdir(fp):
            if d.startswith(pkg_prefix):
                shutil.rmtree(os.path.join(fp, d), ignore_errors=True)
    nonce = uuid.uuid4().hex
    env = dict(os.environ)
    env.update({
        "LD_LIBRARY_PATH": _sysroot() + "/lib" + (":" + env["LD_LIBRARY_PATH"] if env.get("LD_LIBRARY_PATH") else ""),
        "RUSTFLAGS": "-Zmir-opt-level=0 -Awarnings --cfg tokio_unstable",
        "RUSTC_WORKSPACE_WRAPPER": DRIVER,
        "CARGO_TARGET_DIR": target_dir,
        "CARGO_NET_OFFLINE": "true",
        "AGL_FACTS_DIR": out_dir,
        "AGL_FACTS_CFG": cfg,
        "AGL_FACTS_CRATES": ",".join(crates),
        "AGL_FACTS_NONCE": nonce,
    })
    env.pop("RUSTC_WRAPPER", None)
    cmd = ["cargo", "+nightly", "check", "--offline", "--manifest-path", os.path.join(manifest_dir, "Cargo.toml")] + cargo_args
    r = subprocess.run(cmd, env=env, stdout=subprocess.PIPE, stderr=subprocess.STDOUT, text=True, cwd=manifest_dir)
    return r.returncode, r.stdout, nonce


def extract(cfg="lib", repo=REPO, force=False):
    """Returns the directory holding the fact files of `repo`'s current tree for `cfg`."""
    th = tree_hash(repo)
    base = os.path.join(SCRATCH, "facts", th, cfg)
    done = os.path.join(base, "DONE")
    if os.path.exists(done) and not force:
        return base
    os.makedirs(os.path.join(SCRATCH, "facts"), exist_ok=True)
    with open(os.path.join(SCRATCH, "extract.lock"), "w") as lk:
        fcntl.flock(lk, fcntl.LOCK_EX)
        if os.path.exists(done) and not force:
            return base
        if os.path.isdir(base):
            shutil.rmtree(base)
        tmp = base + ".tmp"
        if os.path.isdir(tmp):
            shutil.rmtree(tmp)
        spec = CFGS[cfg]
        t0 = time.time()
        rc, out, nonce = _run_driver(repo, spec["args"], spec["crates"], cfg, tmp,
                                     os.path.join(SCRATCH, "target"), "alpenglow-")
        if rc != 0:
            shutil.rmtree(tmp, ignore_errors=True)
            raise CheckerBroken("fact extraction failed (cargo check rc=%d) for cfg %s:\n%s" % (rc, cfg, out[-4000:]))
        files = [f for f in os.listdir(tmp) if f.endswith(".jsonl")]
        got = set(f.split(".")[0] for f in files)
        missing = [c for c in spec["crates"] if c not in got]
        if missing:
            shutil.rmtree(tmp, ignore_errors=True)
            raise CheckerBroken("driver produced no facts for crates %s (cfg %s)" % (missing, cfg))
        with open(os.path.join(tmp, "META.json"), "w") as fh:
            json.dump({"tree_hash": th, "cfg": cfg, "nonce": nonce, "wall_s": time.time() - t0, "repo": repo}, fh)
        os.rename(tmp, base)
        open(done, "w").close()
        _gc_cache(keep=th)
    return base


def _gc_cache(keep, maxn=8):
    root = os.path.join(SCRATCH, "facts")
    ds = [d for d in os.listdir(root) if os.path.isdir(os.path.join(root, d)) and d != keep and d != "fixtures"]
    ds.sort(key=lambda d: os.path.getmtime(os.path.join(root, d)))
    for d in ds[:-maxn] if len(ds) > maxn else []:
        shutil.rmtree(os.path.join(root, d), ignore_errors=True)


def extract_fixtures(force=False):
    """Facts of the fixtures crate (positive/negative examples for every detector)."""
    h = hashlib.sha256()
    for root, dirs, fs in os.walk(os.path.join(FIXTURES, "src")):
        dirs.sort()
        for f in sorted(fs):
            with open(os.path.join(root, f), "rb") as fh:
                h.update(f.encode() + b"\0" + fh.read())
    with open(os.path.join(DRIVER_DIR, "src", "main.rs"), "rb") as fh:
        h.update(fh.read())
    th = h.hexdigest()[:24]
    base = os.path.join(SCRATCH, "facts", "fixtures", th)
    done = os.path.join(base, "DONE")
    if os.path.exists(done) and not force:
        return base
    os.makedirs(os.path.join(SCRATCH, "facts", "fixtures"), exist_ok=True)
    with open(os.path.join(SCRATCH, "extract-fixtures.lock"), "w") as lk:
        fcntl.flock(lk, fcntl.LOCK_EX)
        if os.path.exists(done) and not force:
            return base
        tmp = base + ".tmp"
        shutil.rmtree(tmp, ignore_errors=True)
        shutil.rmtree(base, ignore_errors=True)
        rc, out, nonce = _run_driver(FIXTURES, ["--lib"], ["agl_fixtures"], "fixtures", tmp,
                                     os.path.join(SCRATCH, "target-fixtures"), "agl-fixtures-")
        if rc != 0 or not any(f.endswith(".jsonl") for f in os.listdir(tmp)):
            shutil.rmtree(tmp, ignore_errors=True)
            raise CheckerBroken("fixture fact extraction failed:\n" + out[-4000:])
        os.rename(tmp, base)
        open(done, "w").close()
        # keep only the newest two fixture fact dirs
        root = os.path.join(SCRATCH, "facts", "fixtures")
        ds = sorted((d for d in os.listdir(root) if d != th), key=lambda d: os.path.getmtime(os.path.join(root, d)))
        for d in ds[:-1]:
            shutil.rmtree(os.path.join(root, d), ignore_errors=True)
    return base


def load_dir(d):
    """Loads all fact records of a directory (pickle-cached)."""
    pk = os.path.join(d, "facts.pickle")
    if os.path.exists(pk):
        try:
            with open(pk, "rb") as fh:
                return pickle.load(fh)
        except Exception:
            pass
    recs = []
    for f in sorted(os.listdir(d)):
        if f.endswith(".jsonl"):
            with open(os.path.join(d, f)) as fh:
                for line in fh:
                    if line.strip():
                        recs.append(json.loads(line))
    try:
        tmp = pk + ".%d" % os.getpid()
        with open(tmp, "wb") as fh:
            pickle.dump(recs, fh, protocol=pickle.HIGHEST_PROTOCOL)
        os.rename(tmp, pk)
    except Exception:
        pass
    return recs


if __name__ == "__main__":
    cfg = sys.argv[1] if len(sys.argv) > 1 else "lib"
    t0 = time.time()
    d = extract_fixtures() if cfg == "fixtures" else extract(cfg, force="--force" in sys.argv)
    print(d, "%.1fs" % (time.time() - t0))
