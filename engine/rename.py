"""Virtual renames: map renamed items back onto the names reviewed on the pinned tree (fact level, before any rule runs).

The rules are anchored on names (functions, fields, types, variants, constants) of the reviewed tree, recorded in
rules/known_items.json. A 'rename for clarity' commit changes no behaviour but would make every anchor disappear. This layer
recognises a rename only when it is unambiguous:

  * type      : a reviewed ADT is gone, exactly one new ADT in the same module has the same shape (variant names, field names and
                field types, its own path substituted);
  * variant   : same enum, same number of variants, same position, same payload types, and the new name is not another old name;
  * field     : same struct/variant, same number of fields, same position, same type, and the new name is not another old name;
  * constant  : a reviewed constant is gone, exactly one new constant in the same parent has the same type and value;
  * function  : a reviewed fn is gone, exactly one new fn with the same parent has the same signature (after the renames above) and
                argument count, and no other missing fn of that parent has that signature.

Everything else (ambiguous pairs, moves between modules, signature changes) is left alone and the anchors fail closed as before.
A rename only changes which NAME the rules use to find a body / place: the body and places analysed are the real ones, so a rename
can never hide a behavioural change.
"""
import copy
import re

from .mir import strip_generics

_IDENT = re.compile(r"[A-Za-z0-9_]")


def _parent_of(path):
    # a::b::C::f -> a::b::C ; <X as T>::f -> <X as T>
    depth = 0
    for i in range(len(path) - 1, 0, -1):
        c = path[i]
        if c == ">":
            depth += 1
        elif c == "<":
            depth -= 1
        elif c == ":" and depth == 0 and path[i - 1] == ":":
            return path[:i - 1], path[i + 1:]
    return "", path


def snapshot(recs):
    """the reviewed item table of a list of fact records (used by bin/gen-known-items on the pinned tree)"""
    fns, adts, consts = {}, {}, {}
    for r in recs:
        k = r.get("rec")
        if k == "body" and r.get("kind") in ("Fn", "AssocFn") and not r.get("macro_generated"):
            d = strip_generics(r["def"])
            fns[d] = {"sig": r.get("sig", ""), "argc": r.get("argc"), "parent": strip_generics(r.get("parent", ""))}
        elif k == "adt":
            adts[r["def"]] = {"is_enum": r.get("is_enum", False), "variants": [
                {"name": v["name"], "fields": [[f["name"], f["ty"]] for f in v["fields"]]} for v in r["variants"]]}
        elif k == "const":
            d = strip_generics(r["def"])
            if "{closure" in d or "::_::" in d:
                continue
            consts[d] = {"ty": r.get("ty", ""), "s": r.get("s", "")}
    derived = []
    for r in recs:
        if r.get("rec") == "impl" and r.get("derived") and r.get("self_adt") and r.get("trait", "").rsplit("::", 1)[-1] in ("PartialEq", "Eq", "PartialOrd", "Ord", "Hash", "Clone", "Default"):
            derived.append([r["self_adt"], r["trait"].rsplit("::", 1)[-1]])
    return {"fns": fns, "adts": adts, "consts": consts, "derived": sorted(map(list, set(map(tuple, derived))))}


def _replace_token(s, new, old):
    """replace the path token `new` by `old` in s (next char must not continue the identifier; previous must not either)"""
    if new not in s:
        return s
    out = []
    i = 0
    n = len(new)
    while True:
        j = s.find(new, i)
        if j < 0:
            out.append(s[i:])
            break
        after = s[j + n:j + n + 1]
        before = s[j - 1:j] if j > 0 else ""
        if (after and _IDENT.match(after)) or (before and (_IDENT.match(before))):
            out.append(s[i:j + n])
        else:
            out.append(s[i:j])
            out.append(old)
        i = j + n
    return "".join(out)


def _walk_strings(x, fn):
    if isinstance(x, str):
        return fn(x)
    if isinstance(x, list):
        return [_walk_strings(y, fn) for y in x]
    if isinstance(x, dict):
        return {k: _walk_strings(v, fn) for k, v in x.items()}
    return x


def _apply_paths(recs, pairs):
    """pairs: [(new_path, old_path)] - token replacement in every string of every record"""
    if not pairs:
        return recs
    pairs = sorted(pairs, key=lambda p: -len(p[0]))

    def fix(s):
        for new, old in pairs:
            if new in s:
                s = _replace_token(s, new, old)
        return s
    return [_walk_strings(r, fix) for r in recs]


def _norm_parent(p):
    """a::B<T> -> a::B (inherent impl parents carry the generic parameters, paths to their items use a turbofish that strip_generics drops)"""
    if p.startswith("<"):
        return p
    out = []
    depth = 0
    for c in p:
        if c == "<":
            depth += 1
        elif c == ">":
            depth -= 1
        elif depth == 0:
            out.append(c)
    return "".join(out)


def _apply_fn_names(recs, renames):
    """renames: [(parent_stripped, new_name, old_name)]: replace `::new_name` where the (generic-stripped) prefix ends with parent"""
    if not renames:
        return recs
    by_name = {}
    for parent, new, old in renames:
        by_name.setdefault(new, []).append((_norm_parent(parent), old))

    def fix(s):
        for new, lst in by_name.items():
            tok = "::" + new
            if tok not in s:
                continue
            i = 0
            out = []
            while True:
                j = s.find(tok, i)
                if j < 0:
                    out.append(s[i:])
                    break
                end = j + len(tok)
                after = s[end:end + 1]
                rep = None
                if not (after and _IDENT.match(after)):
                    # the path this occurrence belongs to: walk back to the start of the path expression
                    k = j
                    depth = 0
                    while k > 0:
                        c = s[k - 1]
                        if c == ">":
                            depth += 1
                        elif c == "<":
                            if depth == 0:
                                # `<X as T>::name`: the opening bracket belongs to the path when a matching '>' directly precedes '::name'
                                break
                            depth -= 1
                        elif depth == 0 and not (_IDENT.match(c) or c == ":"):
                            break
                        k -= 1
                    prefix = strip_generics(s[k:j])
                    for parent, old in lst:
                        if prefix == parent or prefix.endswith("::" + parent) or (parent.startswith("<") and prefix.endswith(parent)):
                            rep = old
                            break
                if rep is None:
                    out.append(s[i:end])
                else:
                    out.append(s[i:j])
                    out.append("::" + rep)
                i = end
            s = "".join(out)
        return s
    out = []
    for r in recs:
        r2 = _walk_strings(r, fix)
        if r2.get("rec") == "impl":
            for it in r2.get("items", []):
                d = strip_generics(it.get("def", ""))
                p, n = _parent_of(d)
                it["name"] = n
        out.append(r2)
    return out


def _apply_fields(recs, renames):
    """renames: [(adt, variant, new, old)]"""
    if not renames:
        return recs
    m = {}
    for adt, variant, new, old in renames:
        m.setdefault(adt, {})[(variant, new)] = old
        m[adt][(None, new)] = old

    def walk(x):
        if isinstance(x, list):
            if len(x) == 3 and x[0] == "f" and isinstance(x[2], str) and isinstance(x[1], str):
                owner = strip_generics(x[2]).split("<")[0]
                # the driver names the owner `path` or `path::Variant`
                for adt, tab in m.items():
                    if owner == adt or owner.startswith(adt + "::"):
                        old = tab.get((None, x[1]))
                        if old is not None:
                            return ["f", old, x[2]]
                return x
            return [walk(y) for y in x]
        if isinstance(x, dict):
            d = {k: walk(v) for k, v in x.items()}
            if d.get("k") == "agg" and d.get("ak") == "adt" and d.get("adt") in m:
                tab = m[d["adt"]]
                d["fields"] = [tab.get((d.get("variant"), f), tab.get((None, f), f)) if (d.get("variant"), f) in tab or not d.get("is_enum") else f for f in d.get("fields", [])]
            if d.get("rec") == "adt" and d.get("def") in m:
                tab = m[d["def"]]
                for v in d["variants"]:
                    for f in v["fields"]:
                        if (v["name"], f["name"]) in tab:
                            f["name"] = tab[(v["name"], f["name"])]
            return d
        return x
    return [walk(r) for r in recs]


def _apply_variants(recs, renames):
    """renames: [(adt, new, old)]"""
    if not renames:
        return recs
    m = {}
    for adt, new, old in renames:
        m.setdefault(adt, {})[new] = old
    recs = _apply_paths(recs, [(adt + "::" + new, adt + "::" + old) for adt, new, old in renames])

    def walk(x, ctx=None):
        if isinstance(x, list):
            return [walk(y, ctx) for y in x]
        if isinstance(x, dict):
            d = {k: walk(v, ctx) for k, v in x.items()}
            if d.get("k") == "agg" and d.get("ak") == "adt" and d.get("adt") in m and d.get("variant") in m[d["adt"]]:
                d["variant"] = m[d["adt"]][d["variant"]]
            if d.get("rec") == "adt" and d.get("def") in m:
                for v in d["variants"]:
                    v["name"] = m[d["def"]].get(v["name"], v["name"])
            return d
        return x
    recs = [walk(r) for r in recs]
    # downcast projections carry only the variant name: rename where the place's type is the enum (types are not attached to
    # projections, so use the names: a downcast ["v", new] is renamed when `new` is not a variant name of any other ADT in use)
    news = {}
    for adt, new, old in renames:
        news.setdefault(new, set()).add(old)
    other_variants = set()
    for r in recs:
        if r.get("rec") == "adt" and r["def"] not in m:
            for v in r["variants"]:
                other_variants.add(v["name"])

    def walk2(x):
        if isinstance(x, list):
            if len(x) == 2 and x[0] == "v" and isinstance(x[1], str) and x[1] in news and len(news[x[1]]) == 1 and x[1] not in other_variants:
                return ["v", next(iter(news[x[1]]))]
            return [walk2(y) for y in x]
        if isinstance(x, dict):
            return {k: walk2(v) for k, v in x.items()}
        return x
    return [walk2(r) for r in recs]


def adts_paths(recs):
    return set(r["def"] for r in recs if r.get("rec") == "adt")


def apply(recs, known):
    """returns (records with reviewed names, [description of every rename applied])"""
    notes = []
    crates = set(r["crate"] for r in recs if r.get("rec") == "crate")
    kad, kfn, kco = known.get("adts", {}), known.get("fns", {}), known.get("consts", {})

    def ours(path):
        p = path.lstrip("<")
        return any(p.startswith(c + "::") for c in crates)

    # ---- 0. modules (a file moved / a module renamed: every reviewed item under the old module path is gone and the same relative
    #         names exist under one new module path)
    def present_paths(rs):
        out = set()
        for r in rs:
            k = r.get("rec")
            if k == "adt":
                out.add(r["def"])
            elif k == "body" and r.get("kind") in ("Fn", "AssocFn") and not r.get("macro_generated"):
                out.add(strip_generics(r["def"]))
            elif k == "const":
                out.add(strip_generics(r["def"]))
        return out
    for _round in range(3):
        cur = present_paths(recs)
        reviewed = [d for d in list(kad) + list(kfn) + list(kco) if ours(d) and not d.startswith("<")]
        gone = [d for d in reviewed if d not in cur]
        fresh = [d for d in cur if d not in kad and d not in kfn and d not in kco and not d.startswith("<") and "{closure" not in d and "::_::" not in d]
        if not gone or not fresh:
            break
        mods_old = {}
        for d in gone:
            parts = d.split("::")
            for i in range(2, len(parts)):
                mods_old.setdefault("::".join(parts[:i]), set()).add("::".join(parts[i:]))
        mods_new = {}
        for d in fresh:
            parts = d.split("::")
            for i in range(2, len(parts)):
                mods_new.setdefault("::".join(parts[:i]), set()).add("::".join(parts[i:]))
        done = False
        for O in sorted(mods_old, key=lambda x: (x.count("::"), x)):
            # everything reviewed under O must be gone
            under = [d for d in reviewed if d.startswith(O + "::")]
            if len(under) < 3 or any(d in cur for d in under):
                continue
            rel = set(d[len(O) + 2:] for d in under)
            cands = [N for N, rs in mods_new.items() if N != O and len(rel & rs) >= max(3, int(0.9 * len(rel))) and not any(x.startswith(N + "::") for x in reviewed if x in cur)]
            # prefer the candidate that is not a prefix-extension artefact: the shortest path with full overlap
            cands = sorted(cands, key=lambda x: (x.count("::"), x))
            if len(cands) >= 1 and (len(cands) == 1 or cands[1].startswith(cands[0] + "::")):
                N = cands[0]
                recs = _apply_paths(recs, [(N, O)])
                notes.append("module %s -> reviewed path %s" % (N, O))
                done = True
                break
        if not done:
            break
    # ---- 0b. free functions moved to another module (same name, same signature, unambiguous)
    cur = present_paths(recs)
    bodies0 = {strip_generics(r["def"]): r for r in recs if r.get("rec") == "body" and r.get("kind") == "Fn" and not r.get("macro_generated")}
    moved = []
    for md, info in kfn.items():
        if md in cur or not ours(md) or md.startswith("<"):
            continue
        mp, mn = _parent_of(md)
        if mp in kad or any(mp == a for a in adts_paths(recs)):
            continue        # a method: handled by the type / fn steps
        cands = [nd for nd, r in bodies0.items() if nd not in kfn and _parent_of(nd)[1] == mn and r.get("argc") == info["argc"] and r.get("sig", "") == info["sig"]]
        if len(cands) == 1 and sum(1 for x, i2 in kfn.items() if x not in cur and _parent_of(x)[1] == mn and i2["sig"] == info["sig"]) == 1:
            moved.append((cands[0], md))
            notes.append("fn %s (moved) -> reviewed path %s" % (cands[0], md))
    if moved:
        recs = _apply_paths(recs, moved)

    # ---- 1. types
    adts = {r["def"]: r for r in recs if r.get("rec") == "adt"}
    missing = [d for d in kad if d not in adts and ours(d)]
    new = [d for d in adts if d not in kad]
    pairs = []
    for md in missing:
        mp, mn = _parent_of(md)
        cands = []
        for nd in new:
            np_, nn = _parent_of(nd)
            if np_ != mp:
                continue
            a, b = kad[md], adts[nd]
            if a["is_enum"] != b.get("is_enum", False) or len(a["variants"]) != len(b["variants"]):
                continue
            same = True
            for va, vb in zip(a["variants"], b["variants"]):
                if (a["is_enum"] and va["name"] != vb["name"]) or len(va["fields"]) != len(vb["fields"]):
                    same = False
                    break
                for (fa, ta), fb in zip(va["fields"], vb["fields"]):
                    if fa != fb["name"] or ta != _replace_token(fb["ty"], nd, md):
                        same = False
                        break
            if same:
                cands.append(nd)
        if len(cands) == 1 and sum(1 for x in missing if _parent_of(x)[0] == mp and kad[x] == kad[md]) == 1:
            pairs.append((cands[0], md))
    if pairs:
        recs = _apply_paths(recs, pairs)
        for nd, md in pairs:
            notes.append("type %s -> reviewed name %s" % (nd, md))

            def fixv(x, nd=nd, md=md):
                if isinstance(x, list):
                    return [fixv(y) for y in x]
                if isinstance(x, dict):
                    d = {k: fixv(v) for k, v in x.items()}
                    if d.get("k") == "agg" and d.get("adt") == md and not d.get("is_enum"):
                        d["variant"] = _parent_of(md)[1]
                    if d.get("rec") == "adt" and d.get("def") == md and not d.get("is_enum"):
                        d["variants"][0]["name"] = _parent_of(md)[1]
                    return d
                return x
            recs = [fixv(r) for r in recs]
        adts = {r["def"]: r for r in recs if r.get("rec") == "adt"}

    # ---- 2. variants, 3. fields
    vren, fren = [], []
    for d, a in kad.items():
        b = adts.get(d)
        if b is None or len(a["variants"]) != len(b["variants"]):
            continue
        oldv = set(v["name"] for v in a["variants"])
        vmap = {}
        ok = True
        for va, vb in zip(a["variants"], b["variants"]):
            if va["name"] != vb["name"]:
                if not a["is_enum"] or vb["name"] in oldv or [t for _f, t in va["fields"]] != [f["ty"] for f in vb["fields"]]:
                    ok = False
                    break
                vmap[vb["name"]] = va["name"]
        if not ok:
            continue
        for nv, ov in vmap.items():
            vren.append((d, nv, ov))
        for va, vb in zip(a["variants"], b["variants"]):
            if len(va["fields"]) != len(vb["fields"]):
                continue
            oldf = set(f for f, _t in va["fields"])
            cand = []
            good = True
            for (fa, ta), fb in zip(va["fields"], vb["fields"]):
                if fa != fb["name"]:
                    if fb["name"] in oldf or ta != fb["ty"]:
                        good = False
                        break
                    cand.append((d, va["name"], fb["name"], fa))
            if good:
                fren += cand
    if vren:
        recs = _apply_variants(recs, vren)
        notes += ["variant %s::%s -> reviewed name %s" % (d, n, o) for d, n, o in vren]
    if fren:
        recs = _apply_fields(recs, fren)
        notes += ["field %s.%s -> reviewed name %s" % (d, n, o) for d, _v, n, o in fren]

    # ---- 4. constants
    consts = {}
    for r in recs:
        if r.get("rec") == "const":
            consts[strip_generics(r["def"])] = r
    missing = [d for d in kco if d not in consts and ours(d)]
    new = [d for d in consts if d not in kco and "{closure" not in d and "::_::" not in d]
    cp = []
    for md in missing:
        mp, _ = _parent_of(md)
        cands = [nd for nd in new if _parent_of(nd)[0] == mp and consts[nd].get("ty") == kco[md]["ty"] and consts[nd].get("s") == kco[md]["s"]]
        if len(cands) == 1 and sum(1 for x in missing if _parent_of(x)[0] == mp and kco[x] == kco[md]) == 1:
            cp.append((mp, _parent_of(cands[0])[1], _parent_of(md)[1]))
            notes.append("constant %s -> reviewed name %s" % (cands[0], md))
    if cp:
        recs = _apply_fn_names(recs, cp)

    # ---- 5. functions
    bodies = {}
    for r in recs:
        if r.get("rec") == "body" and r.get("kind") in ("Fn", "AssocFn") and not r.get("macro_generated"):
            bodies[strip_generics(r["def"])] = r
    missing = [d for d in kfn if d not in bodies and ours(d)]
    new = [d for d in bodies if d not in kfn]
    fr = []
    for md in missing:
        mp = kfn[md]["parent"]
        key = (kfn[md]["sig"], kfn[md]["argc"])
        cands = [nd for nd in new if strip_generics(bodies[nd].get("parent", "")) == mp and (bodies[nd].get("sig", ""), bodies[nd].get("argc")) == key]
        rivals = [x for x in missing if kfn[x]["parent"] == mp and (kfn[x]["sig"], kfn[x]["argc"]) == key]
        if len(cands) == 1 and len(rivals) == 1:
            fr.append((mp, _parent_of(cands[0])[1], _parent_of(md)[1]))
            notes.append("fn %s -> reviewed name %s" % (cands[0], md))
    if fr:
        recs = _apply_fn_names(recs, fr)
    return recs, notes
