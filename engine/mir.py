"""Program model over the extracted facts: bodies, CFG, dominators, edge-dominance, call graph,
symbolic terms (SymExpr) for single-assignment temporaries.

Terms are nested tuples:
  ('param', i, name)            function parameter _i
  ('local', i, name)            multi-assigned / unknown local
  ('upvar', name)               closure capture (field of the closure environment)
  ('field', base, name, owner)  field projection
  ('variant', base, name)       enum downcast
  ('index', base, idx)          indexing (idx is a term or None)
  ('const', ty, value)          literal (value: int or str)
  ('fn', path)                  function item
  ('cref', defpath)             reference to a named const item
  ('bin', op, a, b) ('un', op, a) ('cast', kind, a, ty) ('discr', a)
  ('agg', adt, variant, ((field, term), ...))
  ('tuple', (terms...)) ('array', (terms...))
  ('closure', def, ((capname, term), ...))
  ('call', callee, (args...), site_id)
  ('unknown', text)
Deref and Ref are erased.
"""
import re
from collections import defaultdict, deque

ENUM_DISCR = {
    "core::option::Option": {0: "None", 1: "Some"},
    "core::result::Result": {0: "Ok", 1: "Err"},
    "core::ops::control_flow::ControlFlow": {0: "Continue", 1: "Break"},
    "core::task::poll::Poll": {0: "Ready", 1: "Pending"},
    "either::Either": {0: "Left", 1: "Right"},
    "core::cmp::Ordering": {-1: "Less", 0: "Equal", 1: "Greater", 255: "Less"},
}


def strip_generics(p):
    """a::B::<T>::c -> a::B::c ; <X<T> as Tr>::m is kept apart from the angle brackets' contents."""
    out = []
    depth = 0
    i = 0
    while i < len(p):
        c = p[i]
        if c == "<" and i >= 2 and p[i - 2:i] == "::":
            # turbofish generic list: drop including the preceding ::
            depth = 1
            j = i + 1
            while j < len(p) and depth:
                if p[j] == "<":
                    depth += 1
                elif p[j] == ">":
                    depth -= 1
                j += 1
            out = out[:-2]
            i = j
            continue
        out.append(c)
        i += 1
    return "".join(out)


class _Args(list):
    """argument list of a call site; indexing past the end yields an opaque operand instead of raising, so that rules written for
    `receiver.method(arg)` shapes simply do not match zero-argument calls"""
    _MISSING = {"k": {"ty": "<no such argument>", "s": ""}}

    def __getitem__(self, i):
        if isinstance(i, int):
            try:
                return list.__getitem__(self, i)
            except IndexError:
                return self._MISSING
        return list.__getitem__(self, i)


class CallSite:
    __slots__ = ("body", "bb", "callee", "resolved", "trait", "args", "dst", "target", "span", "exp", "raw", "targs", "callee_args", "ikind")

    def __init__(self, body, bb, t):
        self.body = body
        self.bb = bb
        self.raw = t
        self.callee = strip_generics(t.get("callee", "<indirect>"))
        self.callee_args = t.get("callee_args", "")
        self.resolved = strip_generics(t["resolved"]) if "resolved" in t else None
        self.ikind = t.get("ikind")
        self.trait = t.get("trait")
        self.targs = t.get("targs", [])
        self.args = _Args(t["args"])
        self.dst = t["dst"]
        self.target = t["t"]
        self.span = t.get("sp", "")
        self.exp = t.get("exp", False)

    @property
    def name(self):
        """best name of the callee: the resolved instance when the trait call was resolved"""
        if self.resolved and self.ikind in ("Item", "ClosureOnceShim", "ReifyShim", "FnPtrShim", "CloneShim", "DropGlue", "AsyncDropGlueCtorShim"):
            return self.resolved
        return self.callee

    def __repr__(self):
        return "<call %s @%s bb%d>" % (self.name, self.span, self.bb)


class Body:
    def __init__(self, rec):
        self.rec = rec
        self.defpath = strip_generics(rec["def"])
        self.raw_def = rec["def"]
        self.kind = rec["kind"]
        self.span = rec["span"]
        self.crate = rec["crate"]
        self.locals = rec["locals"]
        self.argc = rec["argc"]
        self.blocks = rec["blocks"]
        self.captures = rec.get("captures", [])
        self.is_closure = self.kind == "Closure"
        # #[derive]-generated (std derives carry #[automatically_derived]; wincode/serde derives are macro expansions)
        it = rec.get("impl_trait", "")
        self.generated = bool(rec.get("derived")) or (
            bool(rec.get("macro_generated")) and self.kind != "Closure" and
            ("::_::" in rec["def"] or it.startswith(("wincode::", "serde::"))))
        self.root = strip_generics(rec["root"]) if "root" in rec else self.defpath
        self.n = len(self.blocks)
        self._succ = None
        self._edges = None
        self._pred = None
        self._dom = None
        self._reach = None
        self._calls = None
        self._defs = None
        self._termcache = {}
        self._edge_dom_cache = {}

    # ---------------------------------------------------------------- CFG
    def edges(self):
        """list of (src, dst, label) ; label: ('goto',) ('sw', value|'else') ('call',) ('assert',) ..."""
        if self._edges is None:
            es = []
            for b in self.blocks:
                i = b["id"]
                t = b["term"]
                k = t["k"]
                if k == "goto":
                    es.append((i, t["t"], ("goto",)))
                elif k == "switch":
                    for v, tgt in t["arms"]:
                        es.append((i, tgt, ("sw", int(v))))
                    es.append((i, t["else"], ("sw", "else")))
                elif k in ("call",):
                    if t["t"] is not None:
                        es.append((i, t["t"], ("call",)))
                elif k in ("assert", "drop", "yield"):
                    es.append((i, t["t"], (k,)))
            self._edges = es
        return self._edges

    def succ(self):
        if self._succ is None:
            s = [[] for _ in range(self.n)]
            for (a, b, _l) in self.edges():
                s[a].append(b)
            self._succ = s
        return self._succ

    def pred(self):
        if self._pred is None:
            p = [[] for _ in range(self.n)]
            for (a, b, _l) in self.edges():
                p[b].append(a)
            self._pred = p
        return self._pred

    def reachable(self, start=0, removed_edges=(), removed_blocks=()):
        """set of blocks reachable from `start` not using removed edges (indices into edges()) / blocks"""
        rem = set(removed_edges)
        remb = set(removed_blocks)
        adj = defaultdict(list)
        for idx, (a, b, _l) in enumerate(self.edges()):
            if idx not in rem:
                adj[a].append(b)
        seen = set()
        if start in remb:
            return seen
        seen.add(start)
        dq = deque([start])
        while dq:
            x = dq.popleft()
            for y in adj[x]:
                if y not in seen and y not in remb:
                    seen.add(y)
                    dq.append(y)
        return seen

    def reach(self):
        if self._reach is None:
            self._reach = self.reachable(0)
        return self._reach

    def dominators(self):
        """dom[b] = set of blocks dominating b (only for reachable blocks)"""
        if self._dom is None:
            reach = self.reach()
            order = self._rpo()
            dom = {b: set(reach) for b in reach}
            dom[0] = {0}
            pred = self.pred()
            changed = True
            while changed:
                changed = False
                for b in order:
                    if b == 0:
                        continue
                    ps = [p for p in pred[b] if p in reach]
                    new = None
                    for p in ps:
                        new = set(dom[p]) if new is None else (new & dom[p])
                    new = (new or set()) | {b}
                    if new != dom[b]:
                        dom[b] = new
                        changed = True
            self._dom = dom
        return self._dom

    def _rpo(self):
        seen = set()
        out = []
        succ = self.succ()
        stack = [(0, iter(succ[0]))]
        seen.add(0)
        while stack:
            node, it = stack[-1]
            adv = False
            for s in it:
                if s not in seen:
                    seen.add(s)
                    stack.append((s, iter(succ[s])))
                    adv = True
                    break
            if not adv:
                out.append(node)
                stack.pop()
        out.reverse()
        return out

    def dominates(self, a, b):
        d = self.dominators()
        return b in d and a in d[b]

    def loops(self):
        """natural loops: [(header, frozenset(nodes))] (back edge u->h with h dominating u; loops sharing a header are merged)"""
        lp = self.__dict__.get("_loops")
        if lp is not None:
            return lp
        pred = self.pred()
        by_head = {}
        for (u, h, _l) in self.edges():
            if u in self.reach() and h in self.reach() and self.dominates(h, u):
                nodes = by_head.setdefault(h, {h})
                stack = [u]
                while stack:
                    x = stack.pop()
                    if x in nodes:
                        continue
                    nodes.add(x)
                    stack.extend(p for p in pred[x] if p in self.reach())
        lp = [(h, frozenset(ns)) for h, ns in sorted(by_head.items())]
        self.__dict__["_loops"] = lp
        return lp

    def only_panics_from(self, bb, _depth=0, _seen=None):
        """every path from bb ends in a panic sink (no return, no way back)"""
        if _seen is None:
            _seen = set()
        if bb in _seen:
            return True
        _seen.add(bb)
        if self.is_panic_block(bb):
            return True
        t = self.blocks[bb]["term"]
        if t["k"] == "return" or _depth > 40:
            return False
        ss = self.succ()[bb]
        return bool(ss) and all(self.only_panics_from(x, _depth + 1, _seen) for x in ss)

    def loop_exits(self, header, nodes):
        """[(from_bb, to_bb, kind)] for the edges leaving the loop; kind: 'exhausted' (the None arm of the switch on the iterator's
        next() / the false arm of a `while` header condition), 'panic' (leads only into a panic), 'early' (break / return / ?)"""
        out = []
        for (a, b, l) in self.edges():
            if a in nodes and b not in nodes and a in self.reach():
                if self.only_panics_from(b):
                    out.append((a, b, "panic"))
                    continue
                kind = "early"
                t = self.blocks[a]["term"]
                if t["k"] == "switch":
                    dt = self.operand_term(t["d"])
                    # the call whose result is tested (through discriminant / field / cast wrappers only)
                    x = dt
                    # (not through `as Some.0`: a test on the ELEMENT the iterator yielded is not the exhaustion test)
                    while isinstance(x, tuple) and x and x[0] in ("discr", "cast", "un", "ref", "deref") and len(x) > 1:
                        x = x[2] if x[0] in ("cast", "un") else x[1]
                    names = [x[1].rsplit("::", 1)[-1]] if isinstance(x, tuple) and x and x[0] == "call" else []
                    if "poll" in names or "poll_next" in names:
                        kind = "await"          # the loop an `.await` expands to: left when the future is ready
                    elif "next" in names or "next_back" in names or "recv" in names or "pop_first" in names or "pop" in names or "pop_front" in names:
                        kind = "exhausted"
                    else:
                        # `while cond {..}`: the first test after the header (straight-line code only in between)
                        x = header
                        for _ in range(12):
                            if x == a:
                                kind = "exhausted"
                                break
                            tx = self.blocks[x]["term"]
                            ss = [y for y in self.succ()[x] if y in nodes]
                            if tx["k"] == "switch" or len(ss) != 1:
                                break
                            x = ss[0]
                out.append((a, b, kind))
        return out

    def is_panic_block(self, i):
        """block ends in a diverging call / unreachable (panic sink)"""
        t = self.blocks[i]["term"]
        return (t["k"] == "call" and t["t"] is None) or t["k"] in ("unreachable", "unwind")

    def return_blocks(self):
        return [b["id"] for b in self.blocks if b["term"]["k"] == "return" and b["id"] in self.reach()]

    def can_reach(self, a, b, removed_blocks=()):
        return b in self.reachable(a, removed_blocks=removed_blocks)

    def always_followed_by(self, a, targets, ignore_panics=True):
        """every path from block a to a Return passes through one of `targets` (blocks).
        (a itself counts when a in targets)"""
        targets = set(targets)
        if a in targets:
            return True
        r = self.reachable(a, removed_blocks=targets)
        for rb in self.return_blocks():
            if rb in r:
                return False
        return True

    def path_avoiding(self, a, targets):
        """a witness path a -> Return that avoids all target blocks, or None"""
        targets = set(targets)
        prev = {a: None}
        dq = deque([a])
        succ = self.succ()
        while dq:
            x = dq.popleft()
            if self.blocks[x]["term"]["k"] == "return":
                p = []
                while x is not None:
                    p.append(x)
                    x = prev[x]
                return list(reversed(p))
            for y in succ[x]:
                if y not in prev and y not in targets:
                    prev[y] = x
                    dq.append(y)
        return None

    # ---------------------------------------------------------------- guards
    def reach_under(self, assume=()):
        """blocks reachable from entry when each assumed switch takes only the allowed edges"""
        es = self.edges()
        assumed = {}
        for (s, allowed) in assume:
            assumed[s] = set(allowed)
        removed = [idx for idx, (a, b, l) in enumerate(es) if l[0] == "sw" and a in assumed and l[1] not in assumed[a]]
        return self.reachable(0, removed_edges=removed)

    def guards_of(self, bb, assume=()):
        """switch edges that dominate `bb`: list of (switch_bb, label_values, discr_term, dty).
        An edge group (all edges of one switch leading to the same block) dominates bb iff bb is
        unreachable from entry once the group is removed.
        assume: ((switch_bb, (allowed label values...)), ...) restricts the CFG first (conditional
        guards: "given that switch s took one of these edges")."""
        key = (bb, tuple(assume))
        if key in self._edge_dom_cache:
            return self._edge_dom_cache[key]
        res = []
        es = self.edges()
        base_removed = []
        assumed = {}
        for (s, allowed) in assume:
            assumed[s] = set(allowed)
        for idx, (a, b, l) in enumerate(es):
            if l[0] == "sw" and a in assumed and l[1] not in assumed[a]:
                base_removed.append(idx)
        reach0 = self.reachable(0, removed_edges=base_removed)
        if bb not in reach0:
            self._edge_dom_cache[key] = res
            return res
        by_src = defaultdict(list)
        for idx, (a, b, l) in enumerate(es):
            if l[0] == "sw" and idx not in base_removed and a in reach0:
                by_src[a].append(idx)
        for s, idxs in by_src.items():
            if s == bb:
                continue
            by_t = defaultdict(list)
            for idx in idxs:
                by_t[es[idx][1]].append(idx)
            if len(by_t) < 2:
                continue
            for tgt, grp in by_t.items():
                r = self.reachable(0, removed_edges=base_removed + grp)
                if bb not in r:
                    vals = [es[i][2][1] for i in grp]
                    t = self.blocks[s]["term"]
                    res.append((s, tuple(vals), self.operand_term(t["d"]), t.get("dty", "")))
        self._edge_dom_cache[key] = res
        return res

    def switches(self):
        """all reachable switch blocks: (bb, discr_term, dty)"""
        out = []
        for b in self.blocks:
            if b["id"] in self.reach() and b["term"]["k"] == "switch":
                out.append((b["id"], self.operand_term(b["term"]["d"]), b["term"].get("dty", "")))
        return out

    def switch_arm_values(self, s):
        t = self.blocks[s]["term"]
        return [int(v) for v, _ in t["arms"]]

    # ---------------------------------------------------------------- calls
    def calls(self):
        if self._calls is None:
            cs = []
            for b in self.blocks:
                if b["term"]["k"] == "call" and b["id"] in self.reach():
                    cs.append(CallSite(self, b["id"], b["term"]))
            self._calls = cs
        return self._calls

    def bounds_checks(self):
        """[(bb, len_term, index_term, span)] for Assert(BoundsCheck) terminators (direct array/slice indexing)"""
        out = []
        for bl in self.blocks:
            t = bl["term"]
            if bl["id"] in self.reach() and t["k"] == "assert" and t["ak"] == "BoundsCheck":
                out.append((bl["id"], self.operand_term(t["ops"][0]), self.operand_term(t["ops"][1]), t.get("sp", "")))
        return out

    def fn_items(self):
        """function items used as values (passed to combinators): set of def paths"""
        out = set()
        for bl in self.blocks:
            if bl["id"] not in self.reach():
                continue
            ops = []
            for st in bl["stmts"]:
                if st["k"] == "assign":
                    rv = st["rv"]
                    for key in ("a", "b"):
                        if key in rv and isinstance(rv[key], dict):
                            ops.append(rv[key])
                    ops.extend(rv.get("ops", []))
            if bl["term"]["k"] == "call":
                ops.extend(bl["term"]["args"])
            for o in ops:
                if "k" in o and "fn" in o["k"]:
                    out.add(strip_generics(o["k"]["fn"]))
        return out

    def mentioned_fns(self):
        return set(c.name for c in self.calls()) | set(c.callee for c in self.calls()) | self.fn_items()

    def calls_to(self, pred):
        """pred: str (exact name/callee match, suffix allowed with leading '::') or callable"""
        out = []
        for c in self.calls():
            if _match(c, pred):
                out.append(c)
        return out

    # ---------------------------------------------------------------- defs / terms
    def defs(self):
        """local -> list of ('stmt', bb, idx, rv) | ('call', bb, callsite-term) | ('yield', bb)"""
        if self._defs is None:
            d = defaultdict(list)
            for b in self.blocks:
                for i, s in enumerate(b["stmts"]):
                    if s["k"] == "assign":
                        d[s["dst"]["l"]].append(("stmt", b["id"], i, s))
                    elif s["k"] == "setdiscr":
                        d[s["dst"]["l"]].append(("setdiscr", b["id"], i, s))
                t = b["term"]
                if t["k"] == "call":
                    d[t["dst"]["l"]].append(("call", b["id"], None, t))
                elif t["k"] == "yield":
                    d[t["dst"]["l"]].append(("yield", b["id"], None, t))
            self._defs = d
        return self._defs

    def local_name(self, l):
        return self.locals[l].get("name")

    def local_ty(self, l):
        return self.locals[l]["ty"]

    def local_term(self, l, depth=0):
        key = l
        if key in self._termcache:
            return self._termcache[key]
        name = self.local_name(l) or ("_%d" % l)
        if 1 <= l <= self.argc:
            if self.is_closure and l == 1:
                t = ("env",)
            else:
                t = ("param", l, name)
            self._termcache[key] = t
            return t
        ds = self.defs().get(l, [])
        # only whole-local definitions count for single-assignment
        whole = [d for d in ds if not d[3]["dst"]["p"]]
        if len(ds) == 1 and len(whole) == 1 and depth < 40:
            self._termcache[key] = ("local", l, name)  # cycle guard
            d = whole[0]
            if d[0] == "call" and l in self._mut_borrowed() and strip_generics(d[3].get("callee", "")).rsplit("::", 1)[-1] in ("new", "with_capacity", "default") \
                    and strip_generics(d[3].get("callee", "")).startswith(("alloc::vec::Vec", "smallvec::SmallVec", "alloc::string::String", "alloc::collections::", "std::collections::", "core::default::Default")) \
                    and not self.local_ty(l).startswith("&"):
                # an empty collection that is then filled in place (`let mut v = Vec::new(); for x in xs { v.push(f(x)) }`): its value is
                # what was put into it - keep it as a local so that provenance adds the in-place sources
                t = ("local", l, name)
            elif d[0] == "stmt" and d[3]["rv"]["k"] in ("repeat",) and l in self._mut_borrowed():
                # a buffer initialised with a filler and then written in place (`let mut b = [0u8; 32]; b[..8].copy_from_slice(x)`):
                # its value is not its initialiser; keep it as a local so that provenance adds what is written into it
                t = ("local", l, name)
            elif d[0] == "stmt":
                t = self.rvalue_term(d[3]["rv"], depth + 1)
            elif d[0] == "call":
                t = self.call_term(d[1], d[3], depth + 1)
            else:
                t = ("local", l, name)
        else:
            t = ("local", l, name)
        self._termcache[key] = t
        return t

    def _mut_borrowed(self):
        mb = self.__dict__.get("_mutb")
        if mb is None:
            mb = set()
            for b in self.blocks:
                for st in b["stmts"]:
                    if st["k"] == "assign" and st["rv"]["k"] == "ref" and st["rv"].get("mut") and not st["rv"].get("fake"):
                        mb.add(st["rv"]["pl"]["l"])
            self.__dict__["_mutb"] = mb
        return mb

    def call_term(self, bb, t, depth=0):
        callee = strip_generics(t["resolved"]) if t.get("resolved") and t.get("ikind") == "Item" else strip_generics(t.get("callee", "<indirect>"))
        args = tuple(self.operand_term(a, depth + 1) for a in t["args"])
        return ("call", callee, args, bb)

    def place_term(self, pl, depth=0):
        base = self.local_term(pl["l"], depth)
        return self._project(base, pl["p"], depth)

    def _project(self, base, projs, depth=0):
        t = base
        for p in projs:
            k = p[0]
            if k == "d":
                continue
            if k == "f":
                if t == ("env",):
                    t = ("upvar", p[1])
                elif t[0] == "agg" and any(f == p[1] for f, _ in t[3]) and not t[1].startswith("core::option"):
                    t = dict(t[3])[p[1]]
                elif t[0] == "tuple" and p[1].isdigit() and int(p[1]) < len(t[1]):
                    t = t[1][int(p[1])]
                else:
                    t = ("field", t, p[1], p[2])
            elif k == "v":
                t = ("variant", t, p[1])
            elif k == "i":
                t = ("index", t, self.local_term(p[1], depth + 1))
            elif k == "ci":
                t = ("index", t, ("const", "usize", p[1]))
            elif k == "sub":
                t = ("index", t, ("unknown", "subslice"))
            else:
                pass
        return t

    def operand_term(self, o, depth=0):
        if "c" in o:
            return self.place_term(o["c"], depth)
        if "m" in o:
            return self.place_term(o["m"], depth)
        if "k" in o:
            c = o["k"]
            if "fn" in c:
                return ("fn", strip_generics(c["fn"]))
            if "def" in c and not c.get("promoted"):
                if "int" in c:
                    return ("const", c["ty"], int(c["int"]), c["def"])
                return ("cref", c["def"])
            if "int" in c:
                return ("const", c["ty"], int(c["int"]))
            return ("const", c["ty"], c.get("s", ""))
        return ("unknown", str(o))

    def rvalue_term(self, rv, depth=0):
        k = rv["k"]
        if k == "use":
            return self.operand_term(rv["a"], depth)
        if k == "ref" or k == "rawptr":
            return self.place_term(rv["pl"], depth)
        if k == "bin":
            return ("bin", rv["op"], self.operand_term(rv["a"], depth), self.operand_term(rv["b"], depth))
        if k == "un":
            return ("un", rv["op"], self.operand_term(rv["a"], depth))
        if k == "cast":
            if rv["ck"].startswith("Coerce") or rv["ck"] in ("PtrToPtr", "Transmute"):
                return self.operand_term(rv["a"], depth)
            return ("cast", rv["ck"], self.operand_term(rv["a"], depth), rv["ty"])
        if k == "discr":
            return ("discr", self.place_term(rv["pl"], depth))
        if k == "agg":
            ops = tuple(self.operand_term(o, depth) for o in rv["ops"])
            ak = rv["ak"]
            if ak == "adt":
                return ("agg", rv["adt"], rv["variant"], tuple(zip(rv["fields"], ops)))
            if ak == "tuple":
                return ("tuple", ops)
            if ak == "array":
                return ("array", ops)
            if ak == "closure":
                return ("closure", strip_generics(rv["def"]), tuple(zip(rv["fields"], ops)))
            return ("unknown", "agg")
        if k == "repeat":
            return ("repeat", self.operand_term(rv["a"], depth), rv["n"])
        return ("unknown", k)

    def provenance(self, term, depth=6, _seen=None):
        """flow-insensitive sources of a term: follows multi-assigned locals through all their defs.
        returns dict(params=set(names), upvars=set, fields=set((owner,name)), calls=set(names), consts=set, aggs=set((adt,variant)))"""
        out = {"params": set(), "upvars": set(), "fields": set(), "calls": set(), "consts": set(), "aggs": set(), "locals": set()}
        if _seen is None:
            _seen = set()
        for t in walk(term):
            if not isinstance(t, tuple) or not t:
                continue
            k = t[0]
            if k == "param":
                out["params"].add(t[2])
            elif k == "upvar":
                out["upvars"].add(t[1])
            elif k == "field":
                out["fields"].add((t[3], t[2]))
            elif k == "call":
                out["calls"].add(t[1])
            elif k == "const":
                out["consts"].add(t[3] if len(t) > 3 else t[2])
            elif k == "cref":
                out["consts"].add(t[1])
            elif k == "agg":
                out["aggs"].add((t[1], t[2]))
            elif k == "closure":
                # what a closure computes also flows into the value built from it (`.then(|| f(x))`, `.map(|v| g(v))`):
                # include the closure body's own calls / constants / field reads; its captures are walked as part of the term
                cb = getattr(self, "prog", None) and self.prog.bodies.get(t[1])
                if cb is not None and ("closure", t[1]) not in _seen and depth > 0:
                    _seen.add(("closure", t[1]))
                    for c in cb.calls():
                        out["calls"].add(c.name)
                        for a in c.args:
                            r = cb.provenance(cb.operand_term(a), depth - 1, set())
                            for kk in ("fields", "calls", "consts", "aggs"):
                                out[kk] |= r[kk]
            elif k == "local":
                l = t[1]
                out["locals"].add(t[2])
                if l in _seen or depth <= 0:
                    continue
                _seen.add(l)
                for d in self.defs().get(l, []):
                    if d[0] == "stmt":
                        sub = self.rvalue_term(d[3]["rv"])
                    elif d[0] == "call":
                        sub = self.call_term(d[1], d[3])
                    else:
                        continue
                    r = self.provenance(sub, depth - 1, _seen)
                    for kk in out:
                        out[kk] |= r[kk]
                # values written into the local in place, through a mutable borrow handed to a call (`buf[..8].copy_from_slice(x)`,
                # `v.push(x)`, `v.extend(xs)`) or stored through it (`*r = x`)
                for sub in self.inplace_sources(l):
                    r = self.provenance(sub, depth - 1, _seen)
                    for kk in out:
                        out[kk] |= r[kk]
        return out

    def inplace_sources(self, l):
        """terms of everything written into local `l` through mutable borrows of it (flow-insensitive)"""
        cache = self.__dict__.setdefault("_inplace", {})
        if l in cache:
            return cache[l]
        cache[l] = []
        B = set()
        for bb, i, dst, rv, sp in self.assignments():
            if rv["k"] == "ref" and rv.get("mut") and not rv.get("fake") and rv["pl"]["l"] == l and not dst["p"]:
                B.add(dst["l"])
        if not B:
            return cache[l]

        def plain(o):
            pl = o.get("c") or o.get("m")
            return pl["l"] if pl is not None and not pl["p"] else None
        for _ in range(4):
            n0 = len(B)
            for bb, i, dst, rv, sp in self.assignments():
                if dst["p"]:
                    continue
                if rv["k"] == "use" and plain(rv["a"]) in B:
                    B.add(dst["l"])
                elif rv["k"] == "ref" and rv.get("mut") and rv["pl"]["l"] in B:
                    B.add(dst["l"])
            for bl in self.blocks:
                t = bl["term"]
                if t["k"] == "call" and bl["id"] in self.reach() and not t["dst"]["p"]:
                    if any(plain(a) in B for a in t["args"]) and self.local_ty(t["dst"]["l"]).startswith("&mut"):
                        B.add(t["dst"]["l"])
            if len(B) == n0:
                break
        src = []
        for bl in self.blocks:
            t = bl["term"]
            if t["k"] == "call" and bl["id"] in self.reach():
                if any(plain(a) in B for a in t["args"]) and not (not t["dst"]["p"] and t["dst"]["l"] in B):
                    for a in t["args"]:
                        if plain(a) not in B:
                            src.append(self.operand_term(a))
        for bb, i, dst, rv, sp in self.assignments():
            if dst["l"] in B and dst["p"] and dst["p"][0][0] == "d":
                src.append(self.rvalue_term(rv))
        cache[l] = src
        return src

    # ---------------------------------------------------------------- statements helpers
    def assignments(self):
        """yield (bb, idx, dst_place, rv, span)"""
        for b in self.blocks:
            if b["id"] not in self.reach():
                continue
            for i, s in enumerate(b["stmts"]):
                if s["k"] == "assign":
                    yield b["id"], i, s["dst"], s["rv"], s.get("sp", "")

    def field_writes(self):
        """direct writes through a field projection: (bb, owner, field, rv, span, dst)
        the *last* field projection of the destination names the written field"""
        out = []
        for bb, i, dst, rv, sp in self.assignments():
            fs = [p for p in dst["p"] if p[0] == "f"]
            if fs:
                last = dst["p"][-1]
                # writes to x.f (last proj is field) or *x.f (deref after)... only count field-last or index-last
                for j in range(len(dst["p"]) - 1, -1, -1):
                    if dst["p"][j][0] == "f":
                        out.append((bb, dst["p"][j][2], dst["p"][j][1], rv, sp, dst))
                        break
        return out

    def mut_borrows_of_fields(self):
        """(bb, owner, field, span, dst_local): &mut x.f taken (potential write through the reference)"""
        out = []
        for bb, i, dst, rv, sp in self.assignments():
            if rv["k"] == "ref" and rv.get("mut") and not rv.get("fake"):
                for p in reversed(rv["pl"]["p"]):
                    if p[0] == "f":
                        out.append((bb, p[2], p[1], sp, dst["l"], rv["pl"]))
                        break
        return out

    def aggregates(self, adt=None, variant=None):
        """(bb, rv, span) for Aggregate rvalues building `adt` (::variant)"""
        out = []
        for bb, i, dst, rv, sp in self.assignments():
            if rv["k"] == "agg" and rv["ak"] == "adt":
                if adt is not None and rv["adt"] != adt:
                    continue
                if variant is not None and rv["variant"] != variant:
                    continue
                out.append((bb, rv, sp, dst))
        return out

    def field_reads(self):
        """all (owner, field) pairs appearing in any place that is read (operands, refs, discr)"""
        out = []

        def place(pl, bb, sp):
            for p in pl["p"]:
                if p[0] == "f":
                    out.append((bb, p[2], p[1], sp))

        def operand(o, bb, sp):
            if "c" in o:
                place(o["c"], bb, sp)
            elif "m" in o:
                place(o["m"], bb, sp)

        for b in self.blocks:
            if b["id"] not in self.reach():
                continue
            for s in b["stmts"]:
                if s["k"] != "assign":
                    continue
                rv = s["rv"]
                sp = s.get("sp", "")
                k = rv["k"]
                if k in ("use", "un", "cast", "repeat"):
                    operand(rv["a"], b["id"], sp)
                elif k in ("ref", "rawptr", "discr"):
                    place(rv["pl"], b["id"], sp)
                elif k == "bin":
                    operand(rv["a"], b["id"], sp)
                    operand(rv["b"], b["id"], sp)
                elif k == "agg":
                    for o in rv["ops"]:
                        operand(o, b["id"], sp)
                # projections of the destination before the last field are reads too
                dp = s["dst"]["p"]
                for p in dp[:-1]:
                    if p[0] == "f":
                        out.append((b["id"], p[2], p[1], sp))
            t = b["term"]
            sp = t.get("sp", "")
            if t["k"] == "call":
                for a in t["args"]:
                    operand(a, b["id"], sp)
            elif t["k"] == "switch":
                operand(t["d"], b["id"], sp)
            elif t["k"] == "assert":
                operand(t["cond"], b["id"], sp)
        return out


def _match(c, pred):
    if callable(pred):
        return pred(c)
    names = (c.callee, c.resolved or "")
    if isinstance(pred, (list, tuple, set, frozenset)):
        return any(_match(c, p) for p in pred)
    if pred.startswith("::"):
        return any(n.endswith(pred) for n in names)
    if pred.startswith("re:"):
        return any(re.search(pred[3:], n) for n in names)
    return pred in names


# ------------------------------------------------------------------------------------ terms

def walk(term):
    """pre-order walk over a term"""
    yield term
    if not isinstance(term, tuple):
        return
    k = term[0]
    if k in ("field", "variant", "discr"):
        yield from walk(term[1])
    elif k == "index":
        yield from walk(term[1])
        if term[2] is not None:
            yield from walk(term[2])
    elif k == "bin":
        yield from walk(term[2])
        yield from walk(term[3])
    elif k == "un":
        yield from walk(term[2])
    elif k == "cast":
        yield from walk(term[2])
    elif k == "agg":
        for _f, t in term[3]:
            yield from walk(t)
    elif k in ("tuple", "array"):
        for t in term[1]:
            yield from walk(t)
    elif k == "closure":
        for _f, t in term[2]:
            yield from walk(t)
    elif k == "call":
        for t in term[2]:
            yield from walk(t)
    elif k == "repeat":
        yield from walk(term[1])


def calls_in(term):
    return [t for t in walk(term) if isinstance(t, tuple) and t and t[0] == "call"]


def fields_in(term):
    return [(t[3], t[2]) for t in walk(term) if isinstance(t, tuple) and t and t[0] == "field"]


def consts_in(term):
    return [t for t in walk(term) if isinstance(t, tuple) and t and t[0] in ("const", "cref")]


def short(path):
    """last two path segments"""
    p = path.split("::")
    return "::".join(p[-2:]) if len(p) > 1 else path


def show(term, depth=0):
    if depth > 12:
        return "…"
    if not isinstance(term, tuple) or not term:
        return str(term)
    k = term[0]
    d = depth + 1
    if k == "param":
        return term[2]
    if k == "local":
        return term[2]
    if k == "env":
        return "<env>"
    if k == "upvar":
        return term[1]
    if k == "field":
        return "%s.%s" % (show(term[1], d), term[2])
    if k == "variant":
        return "%s as %s" % (show(term[1], d), term[2])
    if k == "index":
        return "%s[%s]" % (show(term[1], d), show(term[2], d) if term[2] is not None else "?")
    if k == "const":
        if len(term) > 3:
            return short(term[3])
        return str(term[2])
    if k == "cref":
        return short(term[1])
    if k == "fn":
        return short(term[1])
    if k == "bin":
        return "(%s %s %s)" % (show(term[2], d), term[1], show(term[3], d))
    if k == "un":
        return "%s(%s)" % (term[1], show(term[2], d))
    if k == "cast":
        return "(%s as %s)" % (show(term[2], d), term[3])
    if k == "discr":
        return "discr(%s)" % show(term[1], d)
    if k == "agg":
        return "%s::%s{%s}" % (short(term[1]), term[2], ", ".join("%s: %s" % (f, show(t, d)) for f, t in term[3]))
    if k == "tuple":
        return "(%s)" % ", ".join(show(t, d) for t in term[1])
    if k == "array":
        return "[%s]" % ", ".join(show(t, d) for t in term[1])
    if k == "closure":
        return "closure<%s>" % short(term[1])
    if k == "call":
        return "%s(%s)" % (short(term[1]), ", ".join(show(t, d) for t in term[2]))
    if k == "repeat":
        return "[%s; %s]" % (show(term[1], d), term[2])
    return "?%s" % (term[1] if len(term) > 1 else k)


# ------------------------------------------------------------------------------------ program

class Program:
    def __init__(self, recs, include_crates=None):
        self.bodies = {}
        self.anon_bodies = []
        self.bodies_raw = {}
        self.adts = {}
        self.impls = []
        self.consts = defaultdict(list)
        self.crates = []
        self.statics = {}
        for r in recs:
            k = r["rec"]
            if include_crates and r.get("crate") not in include_crates:
                continue
            if k == "body":
                if "::_::" in r["def"]:
                    self.anon_bodies.append(r)      # derive-generated impls in anonymous consts share def paths: keep them all
                b = Body(r)
                b.prog = self
                # bins and lib may both define `main`-like paths; key by (crate-prefixed) def path
                self.bodies[b.defpath] = b
                self.bodies_raw[r["def"]] = b
            elif k == "adt":
                self.adts[r["def"]] = r
            elif k == "impl":
                self.impls.append(r)
            elif k == "const":
                self.consts[r["def"]].append(r)
            elif k == "crate":
                self.crates.append(r)
            elif k == "static":
                self.statics[r["def"]] = r
        self._cg = None
        self._rcg = None
        self._trait_impls = None
        self.unresolved_calls = 0

    # trait method -> list of impl method def paths (in analysed crates)
    def trait_impls(self):
        if self._trait_impls is None:
            m = defaultdict(list)
            ms = defaultdict(list)
            for im in self.impls:
                if "trait" not in im:
                    continue
                selfbase = strip_generics(im.get("self_adt") or im["self"].split("<")[0])
                for it in im["items"]:
                    if it.get("of"):
                        m[strip_generics(it["of"])].append(strip_generics(it["def"]))
                        ms[strip_generics(it["of"])].append((selfbase, strip_generics(it["def"])))
            self._trait_impls = m
            self._trait_impls_self = ms
        return self._trait_impls

    def callees_of_site(self, c):
        """set of body def paths this call site may enter (within analysed crates)"""
        out = set()
        if c.resolved and c.ikind != "Virtual":
            if c.resolved in self.bodies:
                out.add(c.resolved)
                return out
            if c.resolved != c.callee:
                # resolved to a concrete instance outside the analysed crates (std / dependency)
                return out
        if c.callee in self.bodies and not c.trait:
            out.add(c.callee)
            return out
        if c.trait:
            # unresolved (generic or dyn) trait call: fan out to every impl in the analysed crates
            impls = self.trait_impls().get(c.callee, [])
            # when the Self type of the call is a concrete (non-parameter) type, only its impl can be entered
            selfty = c.targs[0] if c.targs else ""
            selfbase = strip_generics(selfty.split("<")[0].lstrip("&").replace("mut ", "").strip()) if selfty else ""
            concrete = ("::" in selfbase and not selfbase.startswith("dyn ")) and " as " not in selfty and not selfty.startswith("impl ")
            if concrete:
                impls = [d for (sb, d) in self._trait_impls_self.get(c.callee, []) if sb == selfbase]
            for i in impls:
                if i in self.bodies:
                    out.add(i)
            if c.callee in self.bodies:  # provided (default) method
                out.add(c.callee)
        return out

    def callgraph(self):
        if self._cg is None:
            cg = defaultdict(set)
            unresolved = 0
            for d, b in self.bodies.items():
                for c in b.calls():
                    tg = self.callees_of_site(c)
                    if not tg and c.trait and c.callee.startswith(("alpenglow::",)):
                        unresolved += 1
                    for t in tg:
                        cg[d].add(t)
                # closures / coroutines defined here
                for bb, i, dst, rv, sp in b.assignments():
                    if rv["k"] == "agg" and rv["ak"] == "closure":
                        cd = strip_generics(rv["def"])
                        if cd in self.bodies:
                            cg[d].add(cd)
                # function items used as values (e.g. .map(NotarCert::block_hash), filter_map(Clone::clone))
                for bl in b.blocks:
                    if bl["id"] not in b.reach():
                        continue
                    ops = []
                    for s in bl["stmts"]:
                        if s["k"] == "assign":
                            rv = s["rv"]
                            for key in ("a", "b"):
                                if key in rv and isinstance(rv[key], dict):
                                    ops.append(rv[key])
                            ops.extend(rv.get("ops", []))
                    if bl["term"]["k"] == "call":
                        ops.extend(bl["term"]["args"])
                    for o in ops:
                        if "k" in o and "fn" in o["k"]:
                            f = strip_generics(o["k"]["fn"])
                            if f in self.bodies:
                                cg[d].add(f)
                            else:
                                for i in self.trait_impls().get(f, []):
                                    if i in self.bodies:
                                        cg[d].add(i)
            self._cg = cg
            self.unresolved_calls = unresolved
        return self._cg

    def rcallgraph(self):
        if self._rcg is None:
            r = defaultdict(set)
            for a, bs in self.callgraph().items():
                for b in bs:
                    r[b].add(a)
            self._rcg = r
        return self._rcg

    def reachable_from(self, roots, stop=()):
        cg = self.callgraph()
        seen = set()
        dq = deque()
        for r in roots:
            if r in self.bodies and r not in seen:
                seen.add(r)
                dq.append(r)
        stop = set(stop)
        while dq:
            x = dq.popleft()
            for y in cg.get(x, ()):
                if y not in seen and y not in stop:
                    seen.add(y)
                    dq.append(y)
        return seen

    def call_chain(self, roots, target):
        """a shortest call chain from any root to target (list of def paths) or None"""
        cg = self.callgraph()
        prev = {}
        dq = deque()
        for r in roots:
            if r in self.bodies:
                prev[r] = None
                dq.append(r)
        while dq:
            x = dq.popleft()
            if x == target:
                p = []
                while x is not None:
                    p.append(x)
                    x = prev[x]
                return list(reversed(p))
            for y in cg.get(x, ()):
                if y not in prev:
                    prev[y] = x
                    dq.append(y)
        return None

    def callers_of(self, pred):
        """all call sites (in any body) matching pred"""
        out = []
        for b in self.bodies.values():
            out.extend(b.calls_to(pred))
        return out

    def body(self, path):
        b = self.bodies.get(path)
        return b

    def trans_field_reads(self, owner):
        """fn def path -> set of fields of ADT `owner` read by the fn or anything it may call"""
        key = ("tfr", owner)
        if not hasattr(self, "_memo"):
            self._memo = {}
        if key in self._memo:
            return self._memo[key]
        direct = {}
        for d, b in self.bodies.items():
            fs = set(n for (_bb, o, n, _sp) in b.field_reads() if o == owner)
            direct[d] = fs
        cg = self.callgraph()
        res = {d: set(v) for d, v in direct.items()}
        changed = True
        while changed:
            changed = False
            for d in res:
                for c in cg.get(d, ()):
                    add = res.get(c, set()) - res[d]
                    if add:
                        res[d] |= add
                        changed = True
        self._memo[key] = res
        return res

    def find_bodies(self, suffix):
        return [b for d, b in self.bodies.items() if d.endswith(suffix)]

    def family(self, path):
        """the body and all closures/coroutines nested in it"""
        return [b for d, b in self.bodies.items() if d == path or d.startswith(path + "::{closure")]

    def const_int(self, path):
        rs = self.consts.get(path, [])
        for r in rs:
            if "int" in r:
                return int(r["int"])
        return None

    def const_rec(self, path):
        rs = self.consts.get(path, [])
        return rs[0] if rs else None
